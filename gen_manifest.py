#!/usr/bin/env python3
"""Regenerates /verif/MANIFEST.json from the table below (kept in one place so it stays valid)."""
import json
import os
import subprocess

VERIF = os.path.dirname(os.path.abspath(__file__))

# id -> (level category, engine, technique, level text, level note, design ref)
CHECKS = {
    "C01": ("exploration", "E-ENV",
            "stateless exhaustive exploration of Read/Write answer tapes (deviation-bounded) on the real encrypt/decrypt loops Plus CLI round trips (files and pipes, three key pairs incl. self, lengths 0/1/1000/cs/cs+1, output paths fresh or already holding longer files, keyring with case/prefix decoy names). FILE arguments that are named pipes. Executions that do not repeat their call sequence under identical environment answers are judged by the oracle, not skipped. Zero-filled data shapes in the CLI round trips; every ordered pair/triple of {password encrypt, password decrypt, key encrypt, key decrypt} on a fresh thread, each step checked against REF.",
            "Every partition of every plaintext length 0..3*cs+1 into reads (exhaustive, chunk sizes 1..4/5 through the hooked loops) "
            "and every short-read/short-write schedule within the stated budgets at production size through key_encrypt/key_decrypt "
            "is executed; each execution must round-trip exactly and name the sender. Exploration level: the schedule space is "
            "enumerated completely within its bounds, data values are not.",
            "Keys/plaintext bytes from seed-derived alphabets; lengths beyond 3*cs+1 by the periodicity argument in DESIGN.md; REF (OpenSSL) is used as a cross-check reader.",
            "DESIGN.md §6 C01"),
    "C02": ("exploration", "E-ENV",
            "stateless exhaustive exploration of Read/Write answer tapes on the chunk loops with the password-mode AAD; exhaustive password-pair grid through the public API and the CLI The pair grid runs for a 30-byte and for the empty plaintext; CLI round trips into fresh and pre-existing longer output files. CLI round trips with KESTREL_NEW_PASSWORD holding another password. Ordered pairs of an 8-word alphabet of byte passwords (not valid UTF-8) through `password decrypt`.",
            "Tiny scope as C01 with AAD = magic (every read partition, bounded write partitions, both loops) plus mismatched key/AAD combinations (must reject and release nothing); "
            "all ordered pairs of a 12-word byte-string password alphabet x salts through pass_encrypt/pass_decrypt (same => exact round trip, different => Err and zero bytes released); "
            "lengths x bounded short-I/O schedules through the public API; all ordered pairs of a 12-word UTF-8 alphabet through `kestrel password encrypt|decrypt --env-pass`.",
            "Password/plaintext values from fixed alphabets; the four HMAC-equivalent password pairs are a recorded known finding (KNOWN_FINDINGS.txt).",
            "DESIGN.md §6 C02"),
    "C03": ("model_checking", "E-GRAPH",
            "explicit-state breadth-first search (stateright) over ciphertext edits with the real decryptor run in every state, plus deviation-bounded words of REF-minted records Also: fabricated zero-length records, corpora whose final chunk is exactly chunk-size, a 2x64 KiB production file with every kind of extension, and a CLI level (13 authentic/edited variants x {key, password} x {-o fresh, -o pre-existing longer file, stdout}). CLI level x {FILE argument, stdin pipe, named pipe}; short-count sinks: Ok implies the sink received all of P for every schedule with <=1 short read and <=2 short writes. Authentic files whose last chunk is 64 KiB of zeros through the CLI; authentic files ending in 00 / 00 00 (found by search): every proper prefix rejected.",
            "States are byte strings reachable from REF-written authentic files (key mode, password mode, hooked loop) by <=2 (quick) / <=3 (thorough) "
            "edits from a ~300-letter alphabet (every bit and every truncation offset at depth 1; splices of records and header fields of other "
            "authentic files, reorder/duplicate/drop, counter/flag/length rewrites, re-framing). In every state the real decryptor runs and its "
            "verdict is compared with the acceptance model = the property statement (exact corpus file => accept with its plaintext and sender; differs "
            "only in counter fields => don't care but output must be right; anything else => must reject). The model is cross-checked against REF in every state. "
            "Model checking level: exhaustive within the depth/alphabet bound, every model state validated against the implementation.",
            "AEAD/DH unforgeability assumed; corpus values from seed-derived alphabets; edit sequences beyond the depth bound not explored; password mode through the public API only at depth 1 (scrypt cost), deeper through the hooked loop with the magic as AAD.",
            "DESIGN.md §6 C03"),
    "C04": ("model_checking", "E-GRAPH",
            "same explicit-state edit graph as C03 with a write-log invariant evaluated on the real decryptor in every state; E-ENV fault enumeration on authentic and tampered files CLI level: the bytes reaching stdout / the -o file for 8 variants of a 3-chunk file (sender known/unknown, password mode) must be exactly P or exactly the authenticated whole-chunk prefix. CLI: the reader of the stdout pipe leaves after 0/1/4096 bytes - exit 0 would report success without complete delivery.",
            "In every state of the C03 graphs (and every minted-record word) the real decryptor writes into a recording sink; each written range must be "
            "authentic plaintext of chunks that are authentic in place and whose whole record had already been consumed, and Ok is allowed only for complete authentic input. "
            "Additionally every fault at every call index (plus bounded short reads/writes) while decrypting 12 authentic/tampered inputs per corpus, same predicate on the offered buffers.",
            "Final-chunk-before-trailing-data order deliberately unconstrained; corpus written by REF; AEAD unforgeability assumed.",
            "DESIGN.md §6 C04"),
    "C05": ("exploration", "E-GRID",
            "exhaustive enumeration of key-role assignments (real encryptor and an independent REF forger), field mixes and special X25519 encodings Plus: claimed sender = each small-order point, a keyless reader trying publicly derivable secrets on files made with library-chosen randomness, and a 48-file sequence of auto-keyed encryptions in one thread (no recipient reads another's file). The keyless reader also runs on whatever `kestrel encrypt` produces under every answer schedule of getrandom(2) (LD_PRELOAD shim: per call index persistent failure / EINTR / EAGAIN / 1-byte answer). CLI: the keyring named by -k decides which keys are used and which sender is named, with a decoy keyring of the same names in KESTREL_KEYRING. Keyring entries named Bob / BOB / bo / bobb next to bob: `-t bob` addresses bob's key.",
            "All 4^4 (private key used, public key claimed, recipient addressed, decrypting key) tuples through the real key_encrypt/key_decrypt; the same tuples through a REF forger "
            "with 9 forging degrees (claimed != used, ss skipped/zero/from e, recipient hashed != used, es/ss to another recipient, ephemeral mismatch); all 2^4 mixes of "
            "(e, enc_s, enc_payload, chunks) from pairs of authentic files; all 52 small-order and non-canonical u-coordinates as recipient of key_encrypt (refused with zero bytes written, "
            "or byte-identical to RFC arithmetic) and as ephemeral key of authentic/forged files (incl. a forger that assumes an all-zero es secret).",
            "DH hardness assumed; 4-key seed-derived alphabet.",
            "DESIGN.md §6 C05"),
    "C06": ("exploration", "E-GRID",
            "exhaustive enumeration of (length x read partition x key set) and (length x chunking) products against the executable specification REF, byte for byte Plus passwords at the HMAC block boundary, a recipient key encoded with bit 255 set, and CLI-level password-file conformance in both directions for passwords with blanks and line ends. REF-written files with odd chunkings (short non-final chunks, 1-byte chunks) decrypted through the CLI in three wirings; ordered call pairs on fresh threads compared with REF byte for byte.",
            "Encrypt side: every read partition of every L<=10 (key mode, public API, injected ephemeral/payload key), boundary lengths, password mode, and every "
            "partition in the hooked loop: Rust bytes == REF bytes. Decrypt side: REF-written files for every composition of L<=8 into chunk sizes, mixtures of {1,2,cs-1,cs}, "
            ">=66000 one-byte chunks (counter reaches the third nonce byte on both paths), nonce layout across the 64-bit range, frozen golden files.",
            "REF (OpenSSL-based, self-tested against RFC vectors and the cacophony Noise-X vector) is the meaning of 'documented format'; only two genuine 1.x artefacts exist.",
            "DESIGN.md §6 C06"),
    "C07": ("model_checking", "E-GRAPH",
            "explicit-state breadth-first search (stateright) over operation histories, each history executed on the real library/CLI; RNG-seam perturbation of every delivered byte; per-file nonce check Plus 150/600 rounds of repeated library operations in one thread and the per-file nonce check under every schedule with <=2 interrupted calls. Every CLI operation that draws randomness runs twice under every answer schedule of getrandom(2) (LD_PRELOAD shim: per call index persistent failure / EINTR / EAGAIN / 1-byte answer; 1-byte answers throughout): a run may refuse, any exit-0 output must still be fresh. Fresh threads drawing concurrently (values differ across threads too); four keys generated into one keyring file have four salts and four private keys. Files of 300 to 70 000 chunks at chunk size 1-2: record i opens under nonce i and under none of 12 related nonces; non-blocking stdin whose writer pauses.",
            "States are operation histories of length <=2 (quick) / <=3 (thorough) over six randomness-consuming operations with identical inputs (library and CLI); in every state the history "
            "is executed and all fresh values (ephemeral, payload and file keys recovered by REF, salts, generated private keys) must be pairwise distinct and differ from given values. "
            "Through the RNG seam every byte of the CSPRNG stream is perturbed: outputs are a deterministic function of the stream and each fresh field depends on >=32 stream positions. "
            "Per file, for every read partition in tiny scope and short-read schedules at production size, record i opens under nonce i and under no other nonce 0..n.",
            "getrandom quality trusted; CLI operations use the real CSPRNG (verdict re-checked once before reporting).",
            "DESIGN.md §6 C07"),
    "C08": ("exploration", "E-GRID",
            "exhaustive product enumeration of identity pairs x plaintexts x partitions with pairwise differential comparison; byte-pattern scan; CLI product Plaintext offered on stdin in five shapes (beginning with lines equal to the password) x {password from environment, no password source} x {stdout, -o}: any file produced is the conforming encryption of the whole of stdin. 48-file run with library-chosen ephemeral keys (field never repeats, never a party key); non-blocking stdout pipe with slow readers: exit 0 implies the prescribed file. Plaintext named through symbolic links and ./.. spellings; a source that interrupts read call k (k = 0..9): Ok implies the prescribed length.",
            "All 16 ordered (sender, recipient) pairs x 3 plaintexts x up to 4 read partitions x 2 payload keys with one fixed ephemeral key: files that differ only in identities are compared "
            "pairwise (identical magic, e, chunk headers and length; length == 132/36 + 32*records + |P|); every file is scanned for every party's key (raw, hex, keyring encoding, base64 in any "
            "byte phase and both alphabets) and must be read back completely by REF; all four (ephemeral, ephemeral_public) option combinations; password mode; CLI for all 9 ordered pairs "
            "of three long-named parties x 3 sizes x {-o, stdout}.",
            "Identity values from a seed-derived alphabet; names >= 12 bytes so chance occurrences in ciphertext are negligible (< 2^-70).",
            "DESIGN.md §6 C08"),
    "C09": ("exploration", "E-GRID",
            "exhaustive enumeration per untrusted-input surface, heap accounting on hostile header fields, and exhaustive enumeration of CLI argument vectors as real processes Plus authentic handshakes with every payload length 0..80, handshakes carrying each special X25519 point as ephemeral or sender key, and the full product of value classes per CLI argument slot (4 952 vectors in quick). Authentic records (sealed by REF) with unusual flag / counter / length field values; option-junk grid (31 malformed, multi-byte and non-UTF-8 option spellings x 12 command lines x 2 positions).",
            "Every byte string of length <=2 and every prefix of authentic files (both decrypt entry points), every message length 0..200/65535/65536/70000 for noise_decrypt, every length 0..80 for "
            "the AEAD wrappers, every length 0..130 x character class plus single-character substitutions and insertions for encoded keys, every single-bit and boundary value of each chunk-header "
            "field and every header bit under a counting allocator (peak heap below a fixed cap; exactly one 32 MiB scrypt allocation in password mode), and every argument vector of length <=3 "
            "(quick) / <=4 (thorough) over a 28-token vocabulary under two environments: result or error value, exit status 0/1 with an Error: line, never a panic, signal or hang.",
            "Keyring parser surface enumerated by C17; stdin is /dev/null and there is no controlling terminal; 30 s wall limit per process; thorough argv enumeration has an internal wall cap that is reported.",
            "DESIGN.md §6 C09"),
    "C10": ("fault_enumeration", "E-ENV",
            "exhaustive fault injection: every fault kind at every read/write/flush call index, on top of bounded short-I/O schedules; CLI-level real I/O failures CLI: input on a stdin pipe delivered in pieces (first k bytes alone for a boundary set of k; byte by byte) gives the whole-file result. Thorough: two faults per execution on the smallest scopes. CLI: stdin is a Unix stream socket whose peer dies (one ECONNRESET, then EOF).",
            "For every explored run and every call index k, each fault (Interrupted/Other on read, Ok(0)/Interrupted/Other on write, "
            "Interrupted/Other on flush) is injected at k; the result must be the error of the failing side (or success after a retried "
            "interruption with complete output), never a panic, and the bytes written must be a prefix of the fault-free continuation, "
            "which is actually executed. Supplemented by real I/O failures through the CLI (/dev/full, closed pipe, missing directory, directory as input).",
            "At most one hard fault per execution; data values from seed-derived alphabets; CLI cases use the real CSPRNG so only verdicts (not bytes) are compared.",
            "DESIGN.md §6 C10"),
    "C11": ("exploration", "E-GRID",
            "exhaustive enumeration of a size x direction x mode x read-schedule grid under a counting allocator with read/write lag monitors; CLI streams with RSS from wait4 Plus trailing garbage up to 16/128 MiB after a valid stream (same peak heap), FIFO given as FILE argument, and a non-blocking stdout pipe with a stalled reader. -o FILE (fresh or pre-existing) must grow while input is still arriving; decryption of streams whose chunks all differ in length has a peak heap independent of their number. Blocking stdout pipe whose reader sleeps 1.5 s (input taken meanwhile < 2 MiB); hostile length fields (0xFFFFFFF0.., 2^31, cs+1) followed by 1-64 MiB.",
            "Both directions x {chunk loop, key mode, password mode} x sizes n*64KiB+d (n up to 64; thorough 1024 and 16384 = 1 GiB) x {64 KiB, 1 KiB} pieces from non-allocating synthetic sources into "
            "parsing/counting sinks: peak live heap must be identical (+-4 KiB) for all sizes >= 2 chunks and below a fixed cap, and every chunk's output must complete before more than two further "
            "chunks of input were consumed (measured in chunks of the actual stream and in bytes). CLI: all four streaming commands fed 8/64 MiB (thorough up to 256 MiB) through stdin with a short first "
            "write: peak RSS must not grow with the size and output must keep up with input.",
            "Extrapolation beyond the largest size by the loop-state-independence argument; per-thread heap accounting.",
            "DESIGN.md §6 C11"),
    "C12": ("exploration", "E-PROC",
            "exhaustive product of logical cases x 64 I/O/option wirings of the real CLI with a reference model and a differential oracle across wirings Extra wirings per logical case: decoy environment variables, stdout = /dev/full or a closed pipe, stdin delivered in pieces. Logical cases: file encrypted to oneself; forged {last, len 0} record with arbitrary tag bytes; password from the environment while stdin is a terminal (found the --env-pass retry loop, repaired in 5e475fa).",
            "33 logical cases (valid/invalid inputs for decrypt, encrypt, password encrypt/decrypt; keyrings with the sender first/last/absent and decoy entries sharing 24-character key prefixes/suffixes "
            "and name prefixes/extensions/case variants) x the full product {file argument|stdin} x {-o|stdout} x {-k|KESTREL_KEYRING} x {long|short options} x {command|alias} x {options before|after}: "
            "exit 0 iff the reference CLI model says the operation completes; plaintext compared byte for byte; produced files validated by REF; the sender line must name exactly the entry whose key equals "
            "REF's sender key or report it unknown with its encoding; all wirings of a case must agree; plus extra wirings per case: output under a size limit, -o path already holding a longer file, FILE being a FIFO or named like a command alias, and five pseudo-terminal wirings with the password typed.",
            "Terminal-attached branches are exercised through a pseudo-terminal, not a real terminal emulator.",
            "DESIGN.md §6 C12"),
    "C13": ("fault_enumeration", "E-PROC",
            "exhaustive product of commands x failure causes x prior state of the output path on the real CLI, comparing the path before and after Plus 17-chunk (>1 MiB) files failing in chunk 10, password lines on a stdin pipe without --env-pass, and later-chunk failures with the password typed at a pseudo-terminal. Third prior state: the output path is a symbolic link to an existing file. Damage sweep: every byte change and truncation of small authentic files and a position grid in the later records of 3-chunk and short-chunk files; REF decides the authenticated prefix that must be at the output path. Damage-sweep bases with all-zero and zero-middle chunks.",
            "85 (command, failure cause) cases over encrypt, decrypt, password encrypt, password decrypt and key generate — bad arguments, missing input, missing/absent/malformed keyring, unknown name, "
            "missing private key, wrong password, unset password variable, no password source, wrong magic, corrupted header fields, corrupted/truncated first chunk, empty input, low-order recipient, "
            "output path equal to input path, wrong-mode file — x {path absent, path present with 200000 sentinel bytes}: exit 1, path untouched. Later-chunk failures (corrupt chunk 2/3, truncation in chunk 3, "
            "trailing data): exit 1 and the path holds exactly the authenticated prefix.",
            "Bytes are compared, not inode/mtime; both orders are accepted for trailing data after the final chunk.",
            "DESIGN.md §6 C13"),
    "C14": ("model_checking", "E-GRAPH",
            "explicit-state breadth-first search over `key generate` command histories (stateright::Model, level-synchronous parallel BFS), every state executed by the real CLI Initial state \"keyring behind a symbolic link\"; in-process sequence of 24/72 generations in one thread through the CLI crate's keyring module. Names at the 128-byte limit (multi-byte) typed onto an existing keyring; in-process sequence with real locks under passwords of falling and rising length, verified by REF.",
            "States are (initial keyring file state, sequence of <=2 (quick) / <=3 (thorough) `kestrel key generate -o F --env-pass` commands) over 7 initial states (absent, empty, with/without final "
            "newline, comments and blank lines, non-ASCII comment without final newline, CRLF), 3 names (one non-ASCII, one with a space) and 3 passwords. Each state's last command runs on the memoised "
            "file of the parent history; the invariant: previous bytes are a prefix, the file parses for the real parser and for REF, every generated key is present, unlocks (REF) under its own "
            "password to the private key of its PublicKey line, pre-existing entries are kept.",
            "Real CSPRNG in the CLI: bytes differ between runs, verdicts may not (re-executed once before reporting).",
            "DESIGN.md §6 C14"),
    "C15": ("exploration", "E-GRID",
            "exhaustive enumeration of (key x password x salt), password pairs, all 672 single-bit changes and string shapes against the REF implementation of the documented locked-key format CLI level: `key extract-pub` for all ordered pairs of a 14-word UTF-8 password alphabet and `key change-pass` to each of its words (result must unlock under REF with exactly that password). CLI: every single-bit change of a locked key is refused by `key extract-pub` (673 runs). All ordered pairs of an 8-word alphabet of byte passwords that are not valid UTF-8, through KESTREL_PASSWORD. Keyring PrivateKey values = genuine locked key + 7 suffixes; 69-byte password and its NUL-extended twin.",
            "lock_private_key/unlock_private_key compiled from the working tree: Rust lock == REF lock byte for byte; round trip both ways between Rust and REF (incl. non-clamped keys); "
            "all ordered password pairs reject; every single-bit change of the 84-byte blob rejects; every string length 0..130 and every single-character substitution from a class alphabet "
            "is rejected or agrees with REF, without panic.",
            "One scrypt per point bounds the grid; HMAC-equivalent password pairs are a recorded known finding.",
            "DESIGN.md §6 C15"),
    "C16": ("model_checking", "E-GRAPH",
            "explicit-state breadth-first search over change-pass / extract-pub / use command histories (stateright::Model, level-synchronous parallel BFS), every state executed by the real CLI against a reference model Initial state generated with a decoy KESTREL_NEW_PASSWORD; in-process rotation of 24/72 password changes in one thread (fresh salts, raw key never inside a locked string). Given keys chosen by value (all bytes equal, XOR zero, all ones, integer 1); byte passwords as old and new password of change-pass.",
            "States are histories of <=2 (quick) / <=3 (thorough) commands from {change-pass(old,new) for every ordered password pair incl. wrong old password and new == old, extract-pub(w), "
            "encrypt+decrypt with the key} over 4 (thorough 5) passwords (empty, unicode, trailing space, 70 chars), starting from a given key and from a CLI-generated key. The reference model tracks "
            "(private key, current password, salts seen); after every command: the newest string unlocks (REF) under the newest password to the original key, earlier different passwords fail, the salt is new, "
            "wrong-password commands fail and change nothing, extract-pub prints the REF encoding of the public key, the raw private key occurs in no output.",
            "Real CSPRNG in the CLI (verdict re-checked once); REF implements the documented locked-key format.",
            "DESIGN.md §6 C16"),
    "C17": ("exploration", "E-GRID",
            "exhaustive enumeration of line-token sequences, decorated lines, line-shape grid, tool-written names and key strings against a reference reading of the keyring format Plus every sequence of <=4/5 complete sections over a 12-section alphabet (non-adjacent duplicates, bad-checksum copies, case variants) and names typed at `kestrel key generate` reading back as written. CLI level through the public interface only: `kestrel decrypt` with every sequence of <=2/3 complete sections (12-section alphabet incl. bad-checksum copies and case variants) plus the recipient section, for three senders, must refuse bad keyrings and name the sender exactly as the file says. If the internal API of src/cli/src/keyring.rs changes so that the in-process adapter no longer compiles, ./check rebuilds without it and the CLI-level parts decide (recorded in the evidence). Keyring files with 70 / 300 KiB of comment lines before, between and after the sections.",
            "Every sequence of <=6 (quick) / <=7 (thorough) lines over a 14-token alphabet, every sequence of <=3/4 decorated lines, a single-line shape grid (every ASCII length 0..140 followed by "
            "multi-byte characters, in every line role), the serialize->parse round trip for every name of <=3 characters over a 9-character alphabet plus boundary lengths, and every "
            "single-character substitution / checksum perturbation of encoded public keys: the real parser (compiled from the working tree) must never crash, must reject texts that "
            "unambiguously violate a necessary condition of the statement, must accept the documented well-formed subset with exactly the written entries, and lookups must agree with REF.",
            "Texts using constructs the statement leaves open (duplicate field in a section, field outside a section, junk, no section) are only checked for 'no crash'.",
            "DESIGN.md §6 C17"),
    "C18": ("exploration", "E-GRID",
            "exhaustive enumeration of the scrypt parameter grid and axes against OpenSSL, through the library and through the exported C function with guard bytes Plus every output-buffer alignment mod 8, all ordered pairs of 12 tuples called consecutively on one thread, and output buffers aliasing an input. scrypt in child processes under a grid of address-space limits bracketing the table size, library and C ABI, several inputs per limit: a value that is returned is the RFC 7914 value. Every call of the exported C function runs in a child process (begin/end per tuple), so an abort or heap corruption becomes a finding attributed to its tuple.",
            "Full product N in 2..2^9/2^10 x r 1..8 x p 1..4 x 8 output lengths, every axis swept alone (N to 2^15, r to 16, p to 8, dkLen 1..200), corner tuples, a 12x12 password/salt length grid "
            "with trailing-NUL variants; every tuple through kestrel_crypto::scrypt and (all in thorough, the cheap ones plus (2^15,8,1) in quick) through the cdylib's `scrypt` symbol loaded with dlopen, "
            "output and input buffers surrounded by guard bytes.",
            "OpenSSL EVP_PBE_scrypt is the RFC 7914 reference; byte values from seed-derived alphabets; N <= 2^15.",
            "DESIGN.md §6 C18"),
    "C19": ("exploration", "E-GRID",
            "exhaustive enumeration of input-shape grids against an OpenSSL reference model Plus AEAD bodies up to 70 000 B / 1 MiB and sequences of scalars related by the clamping bits. All one-byte neighbours (bytes 0 and 31) of the small-order points; HKDF length x fill grid for salt, ikm and info. A Noise AEAD record opens under its own counter only (byte-swapped, rotated, shifted, neighbouring counters refused); 2048/16384 nonces x 4 keys x five 1-3 byte plaintexts through RFC 8439 seal/open.",
            "Every point of the stated length/shape grids (AEAD 0..130 x 0..40, every single-bit alteration, all short inputs, "
            "all special X25519 points x scalars, HKDF lengths 1..8160, HMAC/SHA-256 lengths 0..200, Noise counters across the "
            "64-bit range) is executed on the real functions and compared with OpenSSL; nothing is sampled.",
            "Data values come from seed-derived alphabets; OpenSSL libcrypto is trusted as the RFC reference; arithmetic is orion's.",
            "DESIGN.md §6 C19"),
    "C20": ("model_checking", "E-GRAPH",
            "explicit-state breadth-first search (stateright) over construct/clone/drop programs, each executed on the real containers under an inspecting allocator Operations also include clone_from and a PayloadKey at an odd address; a labelled sampling pass drops original and clone concurrently on two threads (supplementary). Heap blocks allocated by key_encrypt / key_decrypt and still alive after they return are searched for the payload key and the private keys; an LD_PRELOAD exit-time monitor searches the heap of the CLI process for the raw private key in 8 wirings (success, error, broken pipe, /dev/full). Explicit zeroize() as a program operation; 15 exit-scan wirings.",
            "States are programs of <=4 (quick) / <=5 (thorough) operations on 3 slots from {PrivateKey::try_from, PrivateKey::generate, PayloadKey::new, clone, drop, drop during panic unwinding, "
            "pass to noise_encrypt} over two key values (one containing zero bytes). Every program is executed from scratch; the global allocator copies the 32 watched bytes of each instance at the "
            "moment their heap block is deallocated: they must be all zero, one release per dropped instance, and live instances keep their bytes.",
            "Stack copies left by moves and non-container temporaries are out of scope; observed in the release profile used by the harness.",
            "DESIGN.md §6 C20"),
}

NOT_YET = {}

ALL_IDS = ["C%02d" % i for i in range(1, 21)]


def hook_commits():
    out = subprocess.run(["git", "-C", "/repo", "log", "--format=%h %s"], stdout=subprocess.PIPE, text=True).stdout
    return [l.split()[0] for l in out.splitlines() if "verif hook:" in l][::-1]


def main():
    checks = []
    for pid in ALL_IDS:
        if pid not in CHECKS:
            continue
        cat, engine, technique, text, note, ref = CHECKS[pid]
        checks.append({
            "property_id": pid,
            "quick_cmd": "./check %s --tier quick" % pid,
            "thorough_cmd": "./check %s --tier thorough" % pid,
            "evidence_file": "/verif/evidence/%s.json" % pid,
            "replay_cmd_template": "./check %s --replay {path}" % pid,
            "engine": engine,
            "level_claimed": {"category": cat, "text": text, "design_ref": ref},
            "level_note": note,
            "technique": technique,
        })
    na = []
    for pid in ALL_IDS:
        if pid not in CHECKS:
            na.append({"property_id": pid, "reason": NOT_YET.get(pid, "check under construction in this session; not claimed until it runs clean on the unchanged tree")})
    m = {
        "version": 1,
        "setup_cmd": "./check build",
        "hooks": {
            "guard": "cargo feature `verif` of kestrel-crypto (src/crypto/Cargo.toml); off by default",
            "enable": "the harness crate /verif/harness/kv depends on kestrel-crypto = { path = \"/repo/src/crypto\", features = [\"verif\"] }; "
                      "the CLI and FFI under test (/verif/harness/kestrel-ut, ffi-ut) are built from /repo sources WITHOUT the feature",
            "baseline_off_cmd": "cd /repo && cargo test --workspace --no-fail-fast --offline",
            "source_commits": hook_commits(),
            "add_only": True,
        },
        "engines": [
            {"name": "E-ENV", "path": "/verif/harness/kv/src/env.rs", "serves_properties": ["C01", "C02", "C04", "C10"],
             "kind_free_text": "stateless deviation-bounded exhaustive exploration of Read/Write/flush answers (choice tape) on the real code"},
            {"name": "E-GRAPH", "path": "/verif/harness/kv/src", "serves_properties": ["C03", "C04", "C07", "C14", "C16", "C20"],
             "kind_free_text": "explicit-state search (stateright) whose transitions are environment events and whose invariant runs the real code against a reference model"},
            {"name": "E-GRID", "path": "/verif/harness/kv/src", "serves_properties": ["C05", "C06", "C08", "C09", "C11", "C15", "C17", "C18", "C19"],
             "kind_free_text": "exhaustive product enumeration of input shapes/configurations with a reference oracle (OpenSSL-based REF) per point"},
            {"name": "E-PROC", "path": "/verif/harness/kv/src/proc.rs", "serves_properties": ["C09", "C12", "C13", "C14", "C16"],
             "kind_free_text": "the real CLI binary built from the working tree, run as a black box under a fully specified environment"},
        ],
        "checks": checks,
        "not_applicable": na,
        "notes": "All checks rebuild /verif/harness packages (whose source roots point into /repo) from the current working tree before running. "
                 "Exit 2 = machinery error, never a verdict. Known findings: /verif/KNOWN_FINDINGS.txt.",
    }
    with open(os.path.join(VERIF, "MANIFEST.json"), "w") as f:
        json.dump(m, f, indent=1)
        f.write("\n")
    print("MANIFEST.json: %d checks, %d not_applicable" % (len(checks), len(na)))


if __name__ == "__main__":
    main()
