//! REF — the executable reference specification.
//!
//! Written from RFC 8439 / 7748 / 5869 / 2104 / 7914, the Noise specification
//! (pattern X, Noise_X_25519_ChaChaPoly_SHA256) and docs/file-format.txt.
//! Primitives come from OpenSSL libcrypto; nothing here calls kestrel-crypto or orion.
#![allow(dead_code)]

use libc::{c_char, c_int, c_uchar, c_uint, c_void, size_t};

#[allow(non_camel_case_types)]
type EVP_CIPHER_CTX = c_void;
#[allow(non_camel_case_types)]
type EVP_CIPHER = c_void;
#[allow(non_camel_case_types)]
type EVP_PKEY = c_void;
#[allow(non_camel_case_types)]
type EVP_PKEY_CTX = c_void;
#[allow(non_camel_case_types)]
type EVP_MD = c_void;

extern "C" {
    fn EVP_CIPHER_CTX_new() -> *mut EVP_CIPHER_CTX;
    fn EVP_CIPHER_CTX_free(ctx: *mut EVP_CIPHER_CTX);
    fn EVP_chacha20_poly1305() -> *const EVP_CIPHER;
    fn EVP_EncryptInit_ex(
        ctx: *mut EVP_CIPHER_CTX,
        cipher: *const EVP_CIPHER,
        engine: *mut c_void,
        key: *const c_uchar,
        iv: *const c_uchar,
    ) -> c_int;
    fn EVP_DecryptInit_ex(
        ctx: *mut EVP_CIPHER_CTX,
        cipher: *const EVP_CIPHER,
        engine: *mut c_void,
        key: *const c_uchar,
        iv: *const c_uchar,
    ) -> c_int;
    fn EVP_CIPHER_CTX_ctrl(ctx: *mut EVP_CIPHER_CTX, typ: c_int, arg: c_int, ptr: *mut c_void) -> c_int;
    fn EVP_EncryptUpdate(
        ctx: *mut EVP_CIPHER_CTX,
        out: *mut c_uchar,
        outl: *mut c_int,
        inp: *const c_uchar,
        inl: c_int,
    ) -> c_int;
    fn EVP_EncryptFinal_ex(ctx: *mut EVP_CIPHER_CTX, out: *mut c_uchar, outl: *mut c_int) -> c_int;
    fn EVP_DecryptUpdate(
        ctx: *mut EVP_CIPHER_CTX,
        out: *mut c_uchar,
        outl: *mut c_int,
        inp: *const c_uchar,
        inl: c_int,
    ) -> c_int;
    fn EVP_DecryptFinal_ex(ctx: *mut EVP_CIPHER_CTX, out: *mut c_uchar, outl: *mut c_int) -> c_int;

    fn EVP_PKEY_new_raw_private_key(typ: c_int, e: *mut c_void, key: *const c_uchar, len: size_t) -> *mut EVP_PKEY;
    fn EVP_PKEY_new_raw_public_key(typ: c_int, e: *mut c_void, key: *const c_uchar, len: size_t) -> *mut EVP_PKEY;
    fn EVP_PKEY_get_raw_public_key(pkey: *const EVP_PKEY, out: *mut c_uchar, len: *mut size_t) -> c_int;
    fn EVP_PKEY_free(pkey: *mut EVP_PKEY);
    fn EVP_PKEY_CTX_new(pkey: *mut EVP_PKEY, e: *mut c_void) -> *mut EVP_PKEY_CTX;
    fn EVP_PKEY_CTX_free(ctx: *mut EVP_PKEY_CTX);
    fn EVP_PKEY_derive_init(ctx: *mut EVP_PKEY_CTX) -> c_int;
    fn EVP_PKEY_derive_set_peer(ctx: *mut EVP_PKEY_CTX, peer: *mut EVP_PKEY) -> c_int;
    fn EVP_PKEY_derive(ctx: *mut EVP_PKEY_CTX, key: *mut c_uchar, keylen: *mut size_t) -> c_int;

    fn EVP_sha256() -> *const EVP_MD;
    fn SHA256(d: *const c_uchar, n: size_t, md: *mut c_uchar) -> *mut c_uchar;
    fn HMAC(
        md: *const EVP_MD,
        key: *const c_void,
        key_len: c_int,
        d: *const c_uchar,
        n: size_t,
        out: *mut c_uchar,
        out_len: *mut c_uint,
    ) -> *mut c_uchar;
    fn EVP_PBE_scrypt(
        pass: *const c_char,
        passlen: size_t,
        salt: *const c_uchar,
        saltlen: size_t,
        n: u64,
        r: u64,
        p: u64,
        maxmem: u64,
        key: *mut c_uchar,
        keylen: size_t,
    ) -> c_int;
    fn ERR_clear_error();
}

const EVP_CTRL_AEAD_SET_IVLEN: c_int = 0x9;
const EVP_CTRL_AEAD_GET_TAG: c_int = 0x10;
const EVP_CTRL_AEAD_SET_TAG: c_int = 0x11;
const EVP_PKEY_X25519: c_int = 1034;

static DUMMY: [u8; 1] = [0];
fn ptr(b: &[u8]) -> *const c_uchar {
    if b.is_empty() {
        DUMMY.as_ptr()
    } else {
        b.as_ptr()
    }
}

// ---------------------------------------------------------------- primitives

/// RFC 8439 AEAD seal: returns ciphertext || 16-byte tag.
pub fn aead_seal(key: &[u8; 32], nonce: &[u8; 12], aad: &[u8], pt: &[u8]) -> Vec<u8> {
    unsafe {
        let ctx = EVP_CIPHER_CTX_new();
        assert!(!ctx.is_null());
        assert_eq!(EVP_EncryptInit_ex(ctx, EVP_chacha20_poly1305(), std::ptr::null_mut(), std::ptr::null(), std::ptr::null()), 1);
        assert_eq!(EVP_CIPHER_CTX_ctrl(ctx, EVP_CTRL_AEAD_SET_IVLEN, 12, std::ptr::null_mut()), 1);
        assert_eq!(EVP_EncryptInit_ex(ctx, std::ptr::null(), std::ptr::null_mut(), key.as_ptr(), nonce.as_ptr()), 1);
        let mut outl: c_int = 0;
        if !aad.is_empty() {
            assert_eq!(EVP_EncryptUpdate(ctx, std::ptr::null_mut(), &mut outl, aad.as_ptr(), aad.len() as c_int), 1);
        }
        let mut out = vec![0u8; pt.len() + 16];
        let mut total = 0usize;
        // (pieces of at most 1 GiB: the length argument is a C int)
        for piece in pt.chunks(1 << 30) {
            assert_eq!(EVP_EncryptUpdate(ctx, out.as_mut_ptr().add(total), &mut outl, piece.as_ptr(), piece.len() as c_int), 1);
            total += outl as usize;
        }
        assert_eq!(EVP_EncryptFinal_ex(ctx, out.as_mut_ptr().add(total), &mut outl), 1);
        total += outl as usize;
        assert_eq!(total, pt.len());
        assert_eq!(EVP_CIPHER_CTX_ctrl(ctx, EVP_CTRL_AEAD_GET_TAG, 16, out.as_mut_ptr().add(total) as *mut c_void), 1);
        EVP_CIPHER_CTX_free(ctx);
        out
    }
}

/// RFC 8439 AEAD open of ciphertext || tag; None if shorter than a tag or not authentic.
pub fn aead_open(key: &[u8; 32], nonce: &[u8; 12], aad: &[u8], ct_and_tag: &[u8]) -> Option<Vec<u8>> {
    if ct_and_tag.len() < 16 {
        return None;
    }
    let (ct, tag) = ct_and_tag.split_at(ct_and_tag.len() - 16);
    unsafe {
        let ctx = EVP_CIPHER_CTX_new();
        assert!(!ctx.is_null());
        assert_eq!(EVP_DecryptInit_ex(ctx, EVP_chacha20_poly1305(), std::ptr::null_mut(), std::ptr::null(), std::ptr::null()), 1);
        assert_eq!(EVP_CIPHER_CTX_ctrl(ctx, EVP_CTRL_AEAD_SET_IVLEN, 12, std::ptr::null_mut()), 1);
        assert_eq!(EVP_DecryptInit_ex(ctx, std::ptr::null(), std::ptr::null_mut(), key.as_ptr(), nonce.as_ptr()), 1);
        let mut outl: c_int = 0;
        if !aad.is_empty() {
            assert_eq!(EVP_DecryptUpdate(ctx, std::ptr::null_mut(), &mut outl, aad.as_ptr(), aad.len() as c_int), 1);
        }
        let mut out = vec![0u8; ct.len()];
        let mut total = 0usize;
        if !ct.is_empty() {
            assert_eq!(EVP_DecryptUpdate(ctx, out.as_mut_ptr(), &mut outl, ct.as_ptr(), ct.len() as c_int), 1);
            total += outl as usize;
        }
        let mut tagbuf = [0u8; 16];
        tagbuf.copy_from_slice(tag);
        assert_eq!(EVP_CIPHER_CTX_ctrl(ctx, EVP_CTRL_AEAD_SET_TAG, 16, tagbuf.as_mut_ptr() as *mut c_void), 1);
        let mut fin = [0u8; 16];
        let ok = EVP_DecryptFinal_ex(ctx, fin.as_mut_ptr(), &mut outl);
        EVP_CIPHER_CTX_free(ctx);
        if ok == 1 {
            out.truncate(total);
            Some(out)
        } else {
            ERR_clear_error();
            None
        }
    }
}

/// Noise nonce layout: 4 zero bytes || LE64(counter).
pub fn noise_nonce(n: u64) -> [u8; 12] {
    let mut nonce = [0u8; 12];
    nonce[4..].copy_from_slice(&n.to_le_bytes());
    nonce
}

/// RFC 7748 X25519; None when the result is all-zero.
pub fn x25519(k: &[u8; 32], u: &[u8; 32]) -> Option<[u8; 32]> {
    unsafe {
        let sk = EVP_PKEY_new_raw_private_key(EVP_PKEY_X25519, std::ptr::null_mut(), k.as_ptr(), 32);
        let pk = EVP_PKEY_new_raw_public_key(EVP_PKEY_X25519, std::ptr::null_mut(), u.as_ptr(), 32);
        assert!(!sk.is_null() && !pk.is_null());
        let ctx = EVP_PKEY_CTX_new(sk, std::ptr::null_mut());
        assert!(!ctx.is_null());
        assert_eq!(EVP_PKEY_derive_init(ctx), 1);
        let mut out = [0u8; 32];
        let mut res = None;
        if EVP_PKEY_derive_set_peer(ctx, pk) == 1 {
            let mut len: size_t = 32;
            if EVP_PKEY_derive(ctx, out.as_mut_ptr(), &mut len) == 1 && len == 32 && out != [0u8; 32] {
                res = Some(out);
            }
        }
        ERR_clear_error();
        EVP_PKEY_CTX_free(ctx);
        EVP_PKEY_free(sk);
        EVP_PKEY_free(pk);
        res
    }
}

/// X25519(k, 9)
pub fn x25519_base(k: &[u8; 32]) -> [u8; 32] {
    unsafe {
        let sk = EVP_PKEY_new_raw_private_key(EVP_PKEY_X25519, std::ptr::null_mut(), k.as_ptr(), 32);
        assert!(!sk.is_null());
        let mut out = [0u8; 32];
        let mut len: size_t = 32;
        assert_eq!(EVP_PKEY_get_raw_public_key(sk, out.as_mut_ptr(), &mut len), 1);
        EVP_PKEY_free(sk);
        out
    }
}

pub fn sha256(d: &[u8]) -> [u8; 32] {
    let mut out = [0u8; 32];
    unsafe {
        SHA256(ptr(d), d.len(), out.as_mut_ptr());
    }
    out
}

pub fn hmac_sha256(key: &[u8], d: &[u8]) -> [u8; 32] {
    let mut out = [0u8; 32];
    let mut len: c_uint = 32;
    unsafe {
        let r = HMAC(EVP_sha256(), ptr(key) as *const c_void, key.len() as c_int, ptr(d), d.len(), out.as_mut_ptr(), &mut len);
        assert!(!r.is_null());
    }
    assert_eq!(len, 32);
    out
}

/// RFC 5869 HKDF-SHA256 (extract-then-expand), built on HMAC only.
pub fn hkdf_sha256(salt: &[u8], ikm: &[u8], info: &[u8], len: usize) -> Vec<u8> {
    assert!(len <= 255 * 32);
    let zero = [0u8; 32];
    let prk = hmac_sha256(if salt.is_empty() { &zero } else { salt }, ikm);
    let mut okm = Vec::with_capacity(len);
    let mut t: Vec<u8> = Vec::new();
    let mut i = 1u8;
    while okm.len() < len {
        let mut m = t.clone();
        m.extend_from_slice(info);
        m.push(i);
        t = hmac_sha256(&prk, &m).to_vec();
        okm.extend_from_slice(&t);
        i = i.wrapping_add(1);
    }
    okm.truncate(len);
    okm
}

/// RFC 7914 scrypt via OpenSSL.
pub fn scrypt(pw: &[u8], salt: &[u8], n: u64, r: u64, p: u64, dk_len: usize) -> Vec<u8> {
    let mut out = vec![0u8; dk_len];
    let maxmem: u64 = 128 * r * (n + p + 2) + (1 << 20);
    let rc = unsafe {
        EVP_PBE_scrypt(ptr(pw) as *const c_char, pw.len(), ptr(salt), salt.len(), n, r, p, maxmem, out.as_mut_ptr(), dk_len)
    };
    assert_eq!(rc, 1, "EVP_PBE_scrypt failed n={} r={} p={}", n, r, p);
    out
}

/// HMAC key normalisation: how PBKDF2-HMAC-SHA256 sees a password.
pub fn hmac_norm(w: &[u8]) -> [u8; 64] {
    let mut k = [0u8; 64];
    if w.len() <= 64 {
        k[..w.len()].copy_from_slice(w);
    } else {
        k[..32].copy_from_slice(&sha256(w));
    }
    k
}

// ---------------------------------------------------------------- Noise X

pub const PROTOCOL_NAME: &[u8] = b"Noise_X_25519_ChaChaPoly_SHA256";
pub const KEY_MAGIC: [u8; 4] = [0x65, 0x67, 0x6b, 0x10];
pub const PASS_MAGIC: [u8; 4] = [0x65, 0x67, 0x6b, 0x20];
pub const SK_MAGIC: [u8; 4] = [0x65, 0x67, 0x6b, 0x30];

struct Sym {
    h: [u8; 32],
    ck: [u8; 32],
    k: Option<[u8; 32]>,
    n: u64,
}

impl Sym {
    fn new(prologue: &[u8]) -> Sym {
        let mut h = [0u8; 32];
        if PROTOCOL_NAME.len() <= 32 {
            h[..PROTOCOL_NAME.len()].copy_from_slice(PROTOCOL_NAME);
        } else {
            h = sha256(PROTOCOL_NAME);
        }
        let mut s = Sym { h, ck: h, k: None, n: 0 };
        s.mix_hash(prologue);
        s
    }
    fn mix_hash(&mut self, d: &[u8]) {
        let mut v = self.h.to_vec();
        v.extend_from_slice(d);
        self.h = sha256(&v);
    }
    fn mix_key(&mut self, ikm: &[u8]) {
        // Noise HKDF(ck, ikm, 2)
        let temp = hmac_sha256(&self.ck, ikm);
        let o1 = hmac_sha256(&temp, &[1]);
        let mut m = o1.to_vec();
        m.push(2);
        let o2 = hmac_sha256(&temp, &m);
        self.ck = o1;
        self.k = Some(o2);
        self.n = 0;
    }
    fn encrypt_and_hash(&mut self, pt: &[u8]) -> Vec<u8> {
        let ct = match self.k {
            Some(k) => {
                let c = aead_seal(&k, &noise_nonce(self.n), &self.h, pt);
                self.n += 1;
                c
            }
            None => pt.to_vec(),
        };
        self.mix_hash(&ct);
        ct
    }
    fn decrypt_and_hash(&mut self, ct: &[u8]) -> Option<Vec<u8>> {
        let pt = match self.k {
            Some(k) => {
                let p = aead_open(&k, &noise_nonce(self.n), &self.h, ct)?;
                self.n += 1;
                p
            }
            None => ct.to_vec(),
        };
        self.mix_hash(ct);
        Some(pt)
    }
}

/// Every role of the X-pattern writer independently choosable (needed to forge).
#[derive(Clone, Debug)]
pub struct XRoles {
    pub prologue: Vec<u8>,
    /// recipient static public key mixed into h before the message
    pub rs_hashed: [u8; 32],
    /// ephemeral private key
    pub e_priv: [u8; 32],
    /// ephemeral public key written (normally X25519(e_priv, 9))
    pub e_pub: [u8; 32],
    /// peer public key for the `es` DH
    pub rs_es: [u8; 32],
    /// static public key sent (claimed sender)
    pub s_pub: [u8; 32],
    /// private key used for `ss`
    pub s_priv: [u8; 32],
    /// peer public key for the `ss` DH
    pub rs_ss: [u8; 32],
    /// if set, the `ss` shared secret is this value instead of DH(s_priv, rs_ss)
    pub ss_override: Option<[u8; 32]>,
    /// skip the ss token completely (a forger that cannot compute it)
    pub skip_ss: bool,
    /// if set, the `es` shared secret is this value instead of DH(e_priv, rs_es)
    pub es_override: Option<[u8; 32]>,
}

impl XRoles {
    pub fn honest(prologue: &[u8], s_priv: &[u8; 32], r_pub: &[u8; 32], e_priv: &[u8; 32]) -> XRoles {
        XRoles {
            prologue: prologue.to_vec(),
            rs_hashed: *r_pub,
            e_priv: *e_priv,
            e_pub: x25519_base(e_priv),
            rs_es: *r_pub,
            s_pub: x25519_base(s_priv),
            s_priv: *s_priv,
            rs_ss: *r_pub,
            ss_override: None,
            skip_ss: false,
            es_override: None,
        }
    }
}

pub struct XMsg {
    pub message: Vec<u8>,
    pub h: [u8; 32],
}

/// Noise X initiator message: -> e, es, s, ss + payload. None if a DH yields all-zero.
pub fn noise_x_write(roles: &XRoles, payload: &[u8]) -> Option<XMsg> {
    let mut s = Sym::new(&roles.prologue);
    s.mix_hash(&roles.rs_hashed);
    let mut msg = Vec::new();
    // e
    msg.extend_from_slice(&roles.e_pub);
    s.mix_hash(&roles.e_pub);
    // es
    let es = match roles.es_override {
        Some(v) => v,
        None => x25519(&roles.e_priv, &roles.rs_es)?,
    };
    s.mix_key(&es);
    // s
    let c = s.encrypt_and_hash(&roles.s_pub);
    msg.extend_from_slice(&c);
    // ss
    if !roles.skip_ss {
        let ss = match roles.ss_override {
            Some(v) => v,
            None => x25519(&roles.s_priv, &roles.rs_ss)?,
        };
        s.mix_key(&ss);
    }
    let c = s.encrypt_and_hash(payload);
    msg.extend_from_slice(&c);
    Some(XMsg { message: msg, h: s.h })
}

pub struct XRead {
    pub payload: Vec<u8>,
    pub sender: [u8; 32],
    pub h: [u8; 32],
}

/// Noise X responder read. `r_pub` is the key the responder believes is its own.
pub fn noise_x_read(prologue: &[u8], r_priv: &[u8; 32], r_pub: &[u8; 32], msg: &[u8]) -> Option<XRead> {
    if msg.len() < 32 + 48 + 16 || msg.len() > 65535 {
        return None;
    }
    let mut s = Sym::new(prologue);
    s.mix_hash(r_pub);
    let re: [u8; 32] = msg[..32].try_into().unwrap();
    s.mix_hash(&re);
    let es = x25519(r_priv, &re)?;
    s.mix_key(&es);
    let rs = s.decrypt_and_hash(&msg[32..80])?;
    let rs: [u8; 32] = rs.as_slice().try_into().ok()?;
    let ss = x25519(r_priv, &rs)?;
    s.mix_key(&ss);
    let payload = s.decrypt_and_hash(&msg[80..])?;
    Some(XRead { payload, sender: rs, h: s.h })
}

// ---------------------------------------------------------------- file format

#[derive(Clone, Debug, PartialEq, Eq)]
pub struct Record {
    /// value of the 8-byte counter field as written
    pub counter_field: u64,
    pub flag_field: u32,
    pub len_field: u32,
    /// ciphertext body (without tag)
    pub body: Vec<u8>,
    pub tag: [u8; 16],
}

impl Record {
    pub fn bytes(&self) -> Vec<u8> {
        let mut v = Vec::with_capacity(32 + self.body.len());
        v.extend_from_slice(&self.counter_field.to_be_bytes());
        v.extend_from_slice(&self.flag_field.to_be_bytes());
        v.extend_from_slice(&self.len_field.to_be_bytes());
        v.extend_from_slice(&self.body);
        v.extend_from_slice(&self.tag);
        v
    }
}

/// Seal one record with every parameter free. `aad_prefix` is empty (key mode) or the magic.
#[allow(clippy::too_many_arguments)]
pub fn seal_record(
    key: &[u8; 32],
    nonce: u64,
    aad_prefix: &[u8],
    aad_flag: u32,
    aad_len: u32,
    counter_field: u64,
    flag_field: u32,
    len_field: u32,
    pt: &[u8],
) -> Record {
    let mut aad = aad_prefix.to_vec();
    aad.extend_from_slice(&aad_flag.to_be_bytes());
    aad.extend_from_slice(&aad_len.to_be_bytes());
    let ct = aead_seal(key, &noise_nonce(nonce), &aad, pt);
    let (body, tag) = ct.split_at(pt.len());
    Record { counter_field, flag_field, len_field, body: body.to_vec(), tag: tag.try_into().unwrap() }
}

/// The conforming record for chunk `idx`.
pub fn seal_conforming(key: &[u8; 32], aad_prefix: &[u8], idx: u64, last: bool, pt: &[u8]) -> Record {
    let f = if last { 1 } else { 0 };
    seal_record(key, idx, aad_prefix, f, pt.len() as u32, idx, f, pt.len() as u32, pt)
}

/// Conforming chunk stream for `pt` split as `chunking` (sizes; must sum to pt.len();
/// empty plaintext = one empty final chunk: chunking == [0]).
pub fn write_chunks(key: &[u8; 32], aad_prefix: &[u8], pt: &[u8], chunking: &[usize]) -> Vec<u8> {
    assert_eq!(chunking.iter().sum::<usize>(), pt.len());
    assert!(!chunking.is_empty());
    let mut out = Vec::new();
    let mut off = 0;
    for (i, &c) in chunking.iter().enumerate() {
        let last = i + 1 == chunking.len();
        out.extend_from_slice(&seal_conforming(key, aad_prefix, i as u64, last, &pt[off..off + c]).bytes());
        off += c;
    }
    out
}

pub fn file_key_from_handshake(payload_key: &[u8], h: &[u8; 32]) -> [u8; 32] {
    hkdf_sha256(&[], payload_key, h, 32).try_into().unwrap()
}

/// Conforming key-mode file.
pub fn write_key_file(
    s_priv: &[u8; 32],
    r_pub: &[u8; 32],
    e_priv: &[u8; 32],
    payload_key: &[u8; 32],
    pt: &[u8],
    chunking: &[usize],
) -> Option<Vec<u8>> {
    let roles = XRoles::honest(&KEY_MAGIC, s_priv, r_pub, e_priv);
    let m = noise_x_write(&roles, payload_key)?;
    let fk = file_key_from_handshake(payload_key, &m.h);
    let mut out = KEY_MAGIC.to_vec();
    out.extend_from_slice(&m.message);
    out.extend_from_slice(&write_chunks(&fk, &[], pt, chunking));
    Some(out)
}

/// As write_key_file, with the static public key SENT in the handshake given explicitly (e.g. the bit-255 twin encoding of
/// the sender's key: the same curve point in other bytes).
pub fn write_key_file_with_sender_pub(s_priv: &[u8; 32], s_pub_sent: &[u8; 32], r_pub: &[u8; 32], e_priv: &[u8; 32], payload_key: &[u8; 32], pt: &[u8], chunking: &[usize]) -> Option<Vec<u8>> {
    let mut roles = XRoles::honest(&KEY_MAGIC, s_priv, r_pub, e_priv);
    roles.s_pub = *s_pub_sent;
    let m = noise_x_write(&roles, payload_key)?;
    let fk = file_key_from_handshake(payload_key, &m.h);
    let mut out = KEY_MAGIC.to_vec();
    out.extend_from_slice(&m.message);
    out.extend_from_slice(&write_chunks(&fk, &[], pt, chunking));
    Some(out)
}

pub const SCRYPT_N: u64 = 32768;
pub const SCRYPT_R: u64 = 8;
pub const SCRYPT_P: u64 = 1;

pub fn pass_key(pw: &[u8], salt: &[u8; 32]) -> [u8; 32] {
    scrypt(pw, salt, SCRYPT_N, SCRYPT_R, SCRYPT_P, 32).try_into().unwrap()
}

/// Conforming password-mode file (key supplied so callers can cache the scrypt).
pub fn write_pass_file_with_key(key: &[u8; 32], salt: &[u8; 32], pt: &[u8], chunking: &[usize]) -> Vec<u8> {
    let mut out = PASS_MAGIC.to_vec();
    out.extend_from_slice(salt);
    out.extend_from_slice(&write_chunks(key, &PASS_MAGIC, pt, chunking));
    out
}

#[derive(Debug, Clone, PartialEq, Eq)]
pub enum Reject {
    ShortHeader,
    Magic,
    Handshake,
    ShortChunkHeader,
    ChunkLen,
    ShortChunkBody,
    Auth,
    Trailing,
}

#[derive(Debug, Clone)]
pub struct Parsed {
    pub plaintext: Vec<u8>,
    /// plaintext size of each record
    pub chunking: Vec<usize>,
    pub counters: Vec<u64>,
}

/// The reference chunk-stream reader: the acceptance automaton of the format.
/// accept <=> every record i opens under (key, nonce=i, aad=prefix||flag||len), len <= cs,
/// flag==1 exactly on the record after which the stream ends.
pub fn read_chunks(key: &[u8; 32], aad_prefix: &[u8], mut data: &[u8], cs: u32) -> Result<Parsed, (Reject, Parsed)> {
    let mut p = Parsed { plaintext: vec![], chunking: vec![], counters: vec![] };
    let mut idx = 0u64;
    loop {
        if data.len() < 16 {
            return Err((Reject::ShortChunkHeader, p));
        }
        let counter = u64::from_be_bytes(data[..8].try_into().unwrap());
        let flag = u32::from_be_bytes(data[8..12].try_into().unwrap());
        let len = u32::from_be_bytes(data[12..16].try_into().unwrap());
        if len > cs {
            return Err((Reject::ChunkLen, p));
        }
        let l = len as usize;
        if data.len() < 16 + l + 16 {
            return Err((Reject::ShortChunkBody, p));
        }
        let mut aad = aad_prefix.to_vec();
        aad.extend_from_slice(&data[8..16]);
        let pt = match aead_open(key, &noise_nonce(idx), &aad, &data[16..16 + l + 16]) {
            Some(pt) => pt,
            None => return Err((Reject::Auth, p)),
        };
        data = &data[16 + l + 16..];
        if flag == 1 {
            if !data.is_empty() {
                // final chunk authentic but followed by data: whether its plaintext is
                // released is not constrained; report it separately.
                p.plaintext.extend_from_slice(&pt);
                p.chunking.push(l);
                p.counters.push(counter);
                return Err((Reject::Trailing, p));
            }
            p.plaintext.extend_from_slice(&pt);
            p.chunking.push(l);
            p.counters.push(counter);
            return Ok(p);
        }
        p.plaintext.extend_from_slice(&pt);
        p.chunking.push(l);
        p.counters.push(counter);
        idx += 1;
    }
}

pub struct KeyFile {
    pub parsed: Parsed,
    pub sender: [u8; 32],
    pub payload_key: [u8; 32],
    pub file_key: [u8; 32],
    pub e_pub: [u8; 32],
}

pub fn read_key_file_cs(r_priv: &[u8; 32], data: &[u8], cs: u32) -> Result<KeyFile, Reject> {
    if data.len() < 4 {
        return Err(Reject::ShortHeader);
    }
    if data[..4] != KEY_MAGIC {
        return Err(Reject::Magic);
    }
    if data.len() < 132 {
        return Err(Reject::ShortHeader);
    }
    let r_pub = x25519_base(r_priv);
    let x = noise_x_read(&KEY_MAGIC, r_priv, &r_pub, &data[4..132]).ok_or(Reject::Handshake)?;
    let pk: [u8; 32] = x.payload.as_slice().try_into().map_err(|_| Reject::Handshake)?;
    let fk = file_key_from_handshake(&pk, &x.h);
    let parsed = read_chunks(&fk, &[], &data[132..], cs).map_err(|e| e.0)?;
    Ok(KeyFile { parsed, sender: x.sender, payload_key: pk, file_key: fk, e_pub: data[4..36].try_into().unwrap() })
}

pub fn read_key_file(r_priv: &[u8; 32], data: &[u8]) -> Result<KeyFile, Reject> {
    read_key_file_cs(r_priv, data, 65536)
}

pub fn read_pass_file_with_key(key: &[u8; 32], data: &[u8]) -> Result<Parsed, Reject> {
    if data.len() < 4 {
        return Err(Reject::ShortHeader);
    }
    if data[..4] != PASS_MAGIC {
        return Err(Reject::Magic);
    }
    if data.len() < 36 {
        return Err(Reject::ShortHeader);
    }
    read_chunks(key, &PASS_MAGIC, &data[36..], 65536).map_err(|e| e.0)
}

/// Split a chunk stream structurally (no keys): returns (records, rest) — as far as framing goes.
pub fn split_records(mut data: &[u8]) -> (Vec<Record>, Vec<u8>) {
    let mut recs = vec![];
    loop {
        if data.len() < 16 {
            break;
        }
        let len = u32::from_be_bytes(data[12..16].try_into().unwrap()) as usize;
        if len > (1 << 24) || data.len() < 32 + len {
            break;
        }
        recs.push(Record {
            counter_field: u64::from_be_bytes(data[..8].try_into().unwrap()),
            flag_field: u32::from_be_bytes(data[8..12].try_into().unwrap()),
            len_field: len as u32,
            body: data[16..16 + len].to_vec(),
            tag: data[16 + len..32 + len].try_into().unwrap(),
        });
        data = &data[32 + len..];
    }
    (recs, data.to_vec())
}

// ---------------------------------------------------------------- locked private keys, key encodings

pub fn b64(d: &[u8]) -> String {
    const T: &[u8; 64] = b"ABCDEFGHIJKLMNOPQRSTUVWXYZabcdefghijklmnopqrstuvwxyz0123456789+/";
    let mut s = String::new();
    for c in d.chunks(3) {
        let n = match c.len() {
            3 => (c[0] as u32) << 16 | (c[1] as u32) << 8 | c[2] as u32,
            2 => (c[0] as u32) << 16 | (c[1] as u32) << 8,
            _ => (c[0] as u32) << 16,
        };
        s.push(T[(n >> 18) as usize & 63] as char);
        s.push(T[(n >> 12) as usize & 63] as char);
        s.push(if c.len() > 1 { T[(n >> 6) as usize & 63] as char } else { '=' });
        s.push(if c.len() > 2 { T[n as usize & 63] as char } else { '=' });
    }
    s
}

pub fn b64_url(d: &[u8]) -> String {
    b64(d).replace('+', "-").replace('/', "_")
}

/// Strict RFC 4648 decoding (padding required, no whitespace, canonical trailing bits not enforced).
pub fn b64_decode(s: &str) -> Option<Vec<u8>> {
    let b = s.as_bytes();
    if b.len() % 4 != 0 {
        return None;
    }
    let val = |c: u8| -> Option<u32> {
        match c {
            b'A'..=b'Z' => Some((c - b'A') as u32),
            b'a'..=b'z' => Some((c - b'a') as u32 + 26),
            b'0'..=b'9' => Some((c - b'0') as u32 + 52),
            b'+' => Some(62),
            b'/' => Some(63),
            _ => None,
        }
    };
    let mut out = vec![];
    for (i, q) in b.chunks(4).enumerate() {
        let lastq = (i + 1) * 4 == b.len();
        let pad = if lastq { q.iter().rev().take_while(|&&c| c == b'=').count() } else { 0 };
        if pad > 2 {
            return None;
        }
        let mut n = 0u32;
        for (j, &c) in q.iter().enumerate() {
            let v = if j >= 4 - pad { 0 } else { val(c)? };
            n = n << 6 | v;
        }
        out.push((n >> 16) as u8);
        if pad < 2 {
            out.push((n >> 8) as u8);
        }
        if pad < 1 {
            out.push(n as u8);
        }
    }
    Some(out)
}

pub fn lock_key(sk: &[u8; 32], pw: &[u8], salt: &[u8; 32]) -> Vec<u8> {
    let k = pass_key(pw, salt);
    let mut out = SK_MAGIC.to_vec();
    out.extend_from_slice(salt);
    out.extend_from_slice(&aead_seal(&k, &[0u8; 12], &SK_MAGIC, sk));
    out
}

pub fn unlock_key(blob: &[u8], pw: &[u8]) -> Option<[u8; 32]> {
    if blob.len() != 84 || blob[..4] != SK_MAGIC {
        return None;
    }
    let salt: [u8; 32] = blob[4..36].try_into().unwrap();
    let k = pass_key(pw, &salt);
    let pt = aead_open(&k, &[0u8; 12], &SK_MAGIC, &blob[36..])?;
    pt.as_slice().try_into().ok()
}

pub fn encode_pk(pk: &[u8; 32]) -> String {
    let mut v = pk.to_vec();
    v.extend_from_slice(&sha256(pk)[..4]);
    b64(&v)
}

/// Some(key) iff the string is the base64 of 36 bytes whose last 4 are the SHA-256 prefix of the first 32.
pub fn decode_pk(s: &str) -> Option<[u8; 32]> {
    let v = b64_decode(s)?;
    if v.len() != 36 {
        return None;
    }
    if v[32..] != sha256(&v[..32])[..4] {
        return None;
    }
    Some(v[..32].try_into().unwrap())
}

// ---------------------------------------------------------------- self test

fn unhex(s: &str) -> Vec<u8> {
    hex::decode(s).expect("hex")
}

/// RFC vectors for each primitive; a failure is a machinery error.
pub fn self_test() -> Result<usize, String> {
    let mut n = 0;
    macro_rules! chk {
        ($c:expr, $m:expr) => {
            if !$c {
                return Err(format!("REF self-test failed: {}", $m));
            }
            n += 1;
        };
    }
    // SHA-256 "abc"
    chk!(sha256(b"abc").to_vec() == unhex("ba7816bf8f01cfea414140de5dae2223b00361a396177a9cb410ff61f20015ad"), "sha256 abc");
    // RFC 4231 test case 2
    chk!(
        hmac_sha256(b"Jefe", b"what do ya want for nothing?").to_vec()
            == unhex("5bdcc146bf60754e6a042426089575c75a003f089d2739839dec58b964ec3843"),
        "hmac rfc4231 tc2"
    );
    // RFC 5869 test case 1
    let okm = hkdf_sha256(
        &unhex("000102030405060708090a0b0c"),
        &unhex("0b0b0b0b0b0b0b0b0b0b0b0b0b0b0b0b0b0b0b0b0b0b"),
        &unhex("f0f1f2f3f4f5f6f7f8f9"),
        42,
    );
    chk!(okm == unhex("3cb25f25faacd57a90434f64d0362f2a2d2d0a90cf1a5a4c5db02d56ecc4c5bf34007208d5b887185865"), "hkdf rfc5869 tc1");
    // RFC 5869 test case 3 (empty salt/info)
    let okm = hkdf_sha256(&[], &unhex("0b0b0b0b0b0b0b0b0b0b0b0b0b0b0b0b0b0b0b0b0b0b"), &[], 42);
    chk!(okm == unhex("8da4e775a563c18f715f802a063c5a31b8a11f5c5ee1879ec3454e5f3c738d2d9d201395faa4b61a96c8"), "hkdf rfc5869 tc3");
    // RFC 7748 6.1
    let a = unhex("77076d0a7318a57d3c16c17251b26645df4c2f87ebc0992ab177fba51db92c2a");
    let b = unhex("5dab087e624a8a4b79e17f8b83800ee66f3bb1292618b6fd1c2f8b27ff88e0eb");
    let a: [u8; 32] = a.try_into().unwrap();
    let b: [u8; 32] = b.try_into().unwrap();
    let apub = x25519_base(&a);
    let bpub = x25519_base(&b);
    chk!(apub.to_vec() == unhex("8520f0098930a754748b7ddcb43ef75a0dbf3a0d26381af4eba4a98eaa9b4e6a"), "x25519 pub a");
    chk!(bpub.to_vec() == unhex("de9edb7d7b7dc1b4d35b61c2ece435373f8343c85b78674dadfc7e146f882b4f"), "x25519 pub b");
    let k = x25519(&a, &bpub).ok_or("x25519 none")?;
    chk!(k.to_vec() == unhex("4a5d9d5ba4ce2de1728e3bf480350f25e07e21c947d19e3376f09b3c1e161742"), "x25519 shared");
    chk!(x25519(&b, &apub) == Some(k), "x25519 symmetric");
    chk!(x25519(&a, &[0u8; 32]).is_none(), "x25519 zero point rejected");
    let mut nine = [0u8; 32];
    nine[0] = 9;
    chk!(x25519(&a, &nine) == Some(apub), "x25519 base");
    // RFC 8439 2.8.2
    let key: [u8; 32] = unhex("808182838485868788898a8b8c8d8e8f909192939495969798999a9b9c9d9e9f").try_into().unwrap();
    let nonce: [u8; 12] = unhex("070000004041424344454647").try_into().unwrap();
    let aad = unhex("50515253c0c1c2c3c4c5c6c7");
    let pt = b"Ladies and Gentlemen of the class of '99: If I could offer you only one tip for the future, sunscreen would be it.";
    let ct = aead_seal(&key, &nonce, &aad, pt);
    chk!(ct[ct.len() - 16..] == unhex("1ae10b594f09e26a7e902ecbd0600691")[..], "chapoly rfc8439 tag");
    chk!(ct[..16] == unhex("d31a8d34648e60db7b86afbc53ef7ec2")[..], "chapoly rfc8439 ct");
    chk!(aead_open(&key, &nonce, &aad, &ct).as_deref() == Some(&pt[..]), "chapoly open");
    let mut bad = ct.clone();
    bad[0] ^= 1;
    chk!(aead_open(&key, &nonce, &aad, &bad).is_none(), "chapoly tamper");
    chk!(aead_open(&key, &nonce, &aad, &ct[..15]).is_none(), "chapoly short");
    let e = aead_seal(&key, &nonce, &[], &[]);
    chk!(e.len() == 16 && aead_open(&key, &nonce, &[], &e) == Some(vec![]), "chapoly empty");
    // RFC 7914 vectors
    chk!(
        scrypt(b"", b"", 16, 1, 1, 64)
            == unhex("77d6576238657b203b19ca42c18a0497f16b4844e3074ae8dfdffa3fede21442fcd0069ded0948f8326a753a0fc81f17e8d3e0fb2e0d3628cf35e20c38d18906"),
        "scrypt rfc7914 1"
    );
    chk!(
        scrypt(b"password", b"NaCl", 1024, 8, 16, 64)
            == unhex("fdbabe1c9d3472007856e7190d01e9fe7c6ad7cbc8237830e77376634b3731622eaf30d92e22a3886ff109279d9830dac727afb94a83ee6d8360cbdfa2cc0640"),
        "scrypt rfc7914 2"
    );
    chk!(
        scrypt(b"pleaseletmein", b"SodiumChloride", 16384, 8, 1, 64)
            == unhex("7023bdcb3afd7348461c06cd81fd38ebfda8fbba904f8e3ea9b543f6545da1f2d5432955613f0fcf62d49705242a9af9e61e85dc0d651e40dfcf017b45575887"),
        "scrypt rfc7914 3"
    );
    // base64
    chk!(b64(b"foobar") == "Zm9vYmFy" && b64(b"fo") == "Zm8=" && b64(b"f") == "Zg==", "b64 rfc4648");
    chk!(b64_decode("Zm9vYmE=").as_deref() == Some(&b"fooba"[..]), "b64 decode");
    chk!(b64_decode("Zm9v YmE=").is_none() && b64_decode("Zm9vYmE").is_none(), "b64 strict");
    // Noise X self consistency + roles
    let r = noise_x_write(&XRoles::honest(&KEY_MAGIC, &a, &bpub, &[7u8; 32]), &[5u8; 32]).ok_or("noise write")?;
    chk!(r.message.len() == 128, "noise message length");
    let rd = noise_x_read(&KEY_MAGIC, &b, &bpub, &r.message).ok_or("noise read")?;
    chk!(rd.payload == vec![5u8; 32] && rd.sender == apub && rd.h == r.h, "noise roundtrip");
    chk!(noise_x_read(&PASS_MAGIC, &b, &bpub, &r.message).is_none(), "noise prologue bound");
    // Published cacophony vector for Noise_X_25519_ChaChaPoly_SHA256 (16-byte payload)
    let prologue = unhex("50726f6c6f677565313233");
    let ipriv: [u8; 32] = unhex("e61ef9919cde45dd5f82166404bd08e38bceb5dfdfded0a34c8df7ed542214d1").try_into().unwrap();
    let epriv: [u8; 32] = unhex("893e28b9dc6ca8d611ab664754b8ceb7bac5117349a4439a6b0569da977c464a").try_into().unwrap();
    let rspub: [u8; 32] = unhex("31e0303fd6418d2f8c0e78b91f22e8caed0fbe48656dcf4767e4834f701b8f62").try_into().unwrap();
    let rspriv: [u8; 32] = unhex("4a3acbfdb163dec651dfa3194dece676d437029c62a408b4c5ea9114246e4893").try_into().unwrap();
    let payload = unhex("4c756477696720766f6e204d69736573");
    let m = noise_x_write(&XRoles::honest(&prologue, &ipriv, &rspub, &epriv), &payload).ok_or("cacophony write")?;
    chk!(
        m.message
            == unhex("ca35def5ae56cec33dc2036731ab14896bc4c75dbb07a61f879f8e3afa4c79446c15957a594079a5bdeae05d01e089fbb7cc6ea2ecfd209b941f73c9235213bc14ed87a1a4a0b164c11a5999be0f7bf1fdc3aaa6de60cb3c98302f370fdb03ea6fe2cf18324b0812663aed65fc9eafdf"),
        "cacophony X message"
    );
    chk!(m.h.to_vec() == unhex("e5cdeb715c9553e966ccd446aff7f6df1556d0ecda39ddb49ef24c876fe249b7"), "cacophony X handshake hash");
    chk!(x25519_base(&rspriv) == rspub, "cacophony responder key");
    let rd = noise_x_read(&prologue, &rspriv, &rspub, &m.message).ok_or("cacophony read")?;
    chk!(rd.payload == payload && rd.sender.to_vec() == unhex("6bc3822a2aa7f4e6981d6538692b3cdf3e6df9eea6ed269eb41d93c22757b75a"), "cacophony read");
    Ok(n)
}
