//! C13 — a failed command never creates or clobbers the output early (E-PROC product: commands x causes x prior state).
use crate::fx::Party;
use crate::proc::{self, Cmd, Scratch};
use crate::refspec as r;
use crate::report::Report;
use crate::util::*;
use rayon::prelude::*;
use serde_json::{json, Value};

const CS: usize = 65536;

#[derive(Clone)]
struct Case {
    name: String,
    cmd: Cmd,
    /// the path at risk (relative)
    out_path: String,
    /// None: early failure (path must be untouched). Some(alternatives): later-chunk failure, path must hold exactly one of these
    expect_content: Option<Vec<Vec<u8>>>,
}

struct Fx {
    files: Vec<(String, Vec<u8>)>,
    plain3: Vec<u8>,
    plain17: Vec<u8>,
}

fn fixtures(seed: u64) -> (Fx, Party, Party) {
    let alice = Party::new(seed, "alice", "alicepw");
    let bob = Party::new(seed, "bob", "bobpw");
    let zero_pk = r::encode_pk(&[0u8; 32]);
    let mut kr = crate::fx::keyring(&[(&alice, true), (&bob, true)]);
    kr.push('\n');
    kr.push_str(&proc::keyring_entry("carol-public-only", &r::encode_pk(&r::x25519_base(&derive32(seed, "c13-carol"))), None));
    kr.push('\n');
    kr.push_str(&proc::keyring_entry("lowkey", &zero_pk, None));
    let p1 = plaintext(seed ^ 0xd1, 1000);
    let p3 = plaintext(seed ^ 0xd3, 2 * CS + 500);
    let e = derive32(seed, "c13-e");
    let pay = derive32(seed, "c13-pay");
    let k1 = r::write_key_file(&alice.sk, &bob.pk, &e, &pay, &p1, &[1000]).unwrap();
    let k3 = r::write_key_file(&alice.sk, &bob.pk, &e, &pay, &p3, &[CS, CS, 500]).unwrap();
    let salt = derive32(seed, "c13-salt");
    let pk = r::pass_key(b"filepw", &salt);
    let q1 = r::write_pass_file_with_key(&pk, &salt, &p1, &[1000]);
    let q3 = r::write_pass_file_with_key(&pk, &salt, &p3, &[CS, CS, 500]);
    let mut files: Vec<(String, Vec<u8>)> = vec![
        ("kr.txt".into(), kr.into_bytes()),
        ("bad-kr.txt".into(), b"[Key]\nName = broken\nthis is not a keyring\n".to_vec()),
        ("plain.bin".into(), p1.clone()),
        ("key1.ktl".into(), k1.clone()),
        ("key3.ktl".into(), k3.clone()),
        ("pass1.ktl".into(), q1.clone()),
        ("pass3.ktl".into(), q3.clone()),
    ];
    // tampered inputs
    let flip = |f: &[u8], at: usize| {
        let mut v = f.to_vec();
        v[at] ^= 0x01;
        v
    };
    for (mode, one, three, h) in [("key", &k1, &k3, 132usize), ("pass", &q1, &q3, 36usize)] {
        files.push((format!("{}-badmagic.ktl", mode), flip(one, 3)));
        files.push((format!("{}-badheader.ktl", mode), flip(one, 20)));
        files.push((format!("{}-badheader-last.ktl", mode), flip(one, h - 1)));
        files.push((format!("{}-badchunk1.ktl", mode), flip(one, h + 20)));
        files.push((format!("{}-badchunk1-tag.ktl", mode), flip(one, one.len() - 1)));
        files.push((format!("{}-badchunk1-len.ktl", mode), flip(one, h + 15)));
        files.push((format!("{}-badchunk1-flag.ktl", mode), flip(one, h + 11)));
        files.push((format!("{}-truncchunk1.ktl", mode), one[..h + 100].to_vec()));
        files.push((format!("{}-trunc-header.ktl", mode), one[..h - 7].to_vec()));
        files.push((format!("{}-empty.ktl", mode), vec![]));
        // later chunks
        let rec2 = h + 32 + CS;
        let rec3 = rec2 + 32 + CS;
        files.push((format!("{}-badchunk2.ktl", mode), flip(three, rec2 + 40)));
        files.push((format!("{}-truncchunk3.ktl", mode), three[..rec3 + 100].to_vec()));
        let mut t = three.to_vec();
        t.push(0);
        files.push((format!("{}-trailing.ktl", mode), t));
        files.push((format!("{}-badchunk3.ktl", mode), flip(three, rec3 + 20)));
    }
    // files whose plaintext is EMPTY (one record of length 0): authentic, and with the tag of that record changed
    {
        let k0 = r::write_key_file(&alice.sk, &bob.pk, &e, &pay, &[], &[0]).unwrap();
        let q0 = r::write_pass_file_with_key(&pk, &salt, &[], &[0]);
        for (mode, f) in [("key", &k0), ("pass", &q0)] {
            files.push((format!("{}-emptyplain.ktl", mode), f.to_vec()));
            files.push((format!("{}-emptyplain-badtag.ktl", mode), flip(f, f.len() - 1)));
            files.push((format!("{}-emptyplain-badtag0.ktl", mode), flip(f, f.len() - 16)));
        }
    }
    // a file of 17 chunks (> 1 MiB of plaintext) whose 10th chunk is corrupt
    let p17 = plaintext(seed ^ 0xd7, 16 * CS + 123);
    let mut ch17 = vec![CS; 16];
    ch17.push(123);
    for (mode, h) in [("key", 132usize), ("pass", 36usize)] {
        let mut big = if mode == "key" { r::write_key_file(&alice.sk, &bob.pk, &e, &pay, &p17, &ch17).unwrap() } else { r::write_pass_file_with_key(&pk, &salt, &p17, &ch17) };
        let at = h + 9 * (32 + CS) + 50;
        big[at] ^= 1;
        files.push((format!("{}-big-badchunk10.ktl", mode), big));
    }
    (Fx { files, plain3: p3, plain17: p17 }, alice, bob)
}

fn cases(fx: &Fx) -> Vec<Case> {
    let mut v: Vec<Case> = vec![];
    let mut add = |name: &str, args: Vec<&str>, env: Vec<(&str, &str)>, stdin: Option<&[u8]>, out_path: &str, expect: Option<Vec<Vec<u8>>>| {
        let mut c = Cmd::new(&args);
        for (k, val) in env {
            c = c.env(k, val);
        }
        if let Some(s) = stdin {
            c = c.stdin(s);
        }
        v.push(Case { name: name.to_string(), cmd: c, out_path: out_path.to_string(), expect_content: expect });
    };
    let apw = [("KESTREL_PASSWORD", "alicepw")];
    let bpw = [("KESTREL_PASSWORD", "bobpw")];
    let fpw = [("KESTREL_PASSWORD", "filepw")];
    let o = "out.bin";
    // ---- encrypt
    add("encrypt/bad-args-missing-to", vec!["encrypt", "plain.bin", "-f", "alice", "-k", "kr.txt", "-o", o, "--env-pass"], apw.to_vec(), None, o, None);
    add("encrypt/bad-args-unknown-option", vec!["encrypt", "plain.bin", "-t", "bob", "-f", "alice", "-k", "kr.txt", "-o", o, "--env-pass", "--bogus"], apw.to_vec(), None, o, None);
    add("encrypt/bad-args-two-inputs", vec!["encrypt", "plain.bin", "kr.txt", "-t", "bob", "-f", "alice", "-k", "kr.txt", "-o", o, "--env-pass"], apw.to_vec(), None, o, None);
    add("encrypt/missing-input", vec!["encrypt", "nosuch.bin", "-t", "bob", "-f", "alice", "-k", "kr.txt", "-o", o, "--env-pass"], apw.to_vec(), None, o, None);
    add("encrypt/missing-keyring", vec!["encrypt", "plain.bin", "-t", "bob", "-f", "alice", "-k", "nosuch.txt", "-o", o, "--env-pass"], apw.to_vec(), None, o, None);
    add("encrypt/no-keyring-given", vec!["encrypt", "plain.bin", "-t", "bob", "-f", "alice", "-o", o, "--env-pass"], apw.to_vec(), None, o, None);
    add("encrypt/malformed-keyring", vec!["encrypt", "plain.bin", "-t", "bob", "-f", "alice", "-k", "bad-kr.txt", "-o", o, "--env-pass"], apw.to_vec(), None, o, None);
    add("encrypt/unknown-recipient", vec!["encrypt", "plain.bin", "-t", "nobody", "-f", "alice", "-k", "kr.txt", "-o", o, "--env-pass"], apw.to_vec(), None, o, None);
    add("encrypt/unknown-sender", vec!["encrypt", "plain.bin", "-t", "bob", "-f", "nobody", "-k", "kr.txt", "-o", o, "--env-pass"], apw.to_vec(), None, o, None);
    add("encrypt/sender-without-private-key", vec!["encrypt", "plain.bin", "-t", "bob", "-f", "carol-public-only", "-k", "kr.txt", "-o", o, "--env-pass"], apw.to_vec(), None, o, None);
    add("encrypt/wrong-password", vec!["encrypt", "plain.bin", "-t", "bob", "-f", "alice", "-k", "kr.txt", "-o", o, "--env-pass"], bpw.to_vec(), None, o, None);
    add("encrypt/password-variable-unset", vec!["encrypt", "plain.bin", "-t", "bob", "-f", "alice", "-k", "kr.txt", "-o", o, "--env-pass"], vec![], None, o, None);
    add("encrypt/no-password-source", vec!["encrypt", "plain.bin", "-t", "bob", "-f", "alice", "-k", "kr.txt", "-o", o], vec![], None, o, None);
    add("encrypt/low-order-recipient", vec!["encrypt", "plain.bin", "-t", "lowkey", "-f", "alice", "-k", "kr.txt", "-o", o, "--env-pass"], apw.to_vec(), None, o, None);
    add("encrypt/output-equals-input", vec!["encrypt", "plain.bin", "-t", "bob", "-f", "alice", "-k", "kr.txt", "-o", "plain.bin", "--env-pass"], apw.to_vec(), None, "plain.bin", None);
    // ---- decrypt
    add("decrypt/bad-args-missing-to", vec!["decrypt", "key1.ktl", "-k", "kr.txt", "-o", o, "--env-pass"], bpw.to_vec(), None, o, None);
    add("decrypt/bad-args-from-given", vec!["decrypt", "key1.ktl", "-t", "bob", "-f", "alice", "-k", "kr.txt", "-o", o, "--env-pass"], bpw.to_vec(), None, o, None);
    add("decrypt/missing-input", vec!["decrypt", "nosuch.ktl", "-t", "bob", "-k", "kr.txt", "-o", o, "--env-pass"], bpw.to_vec(), None, o, None);
    add("decrypt/missing-keyring", vec!["decrypt", "key1.ktl", "-t", "bob", "-k", "nosuch.txt", "-o", o, "--env-pass"], bpw.to_vec(), None, o, None);
    add("decrypt/malformed-keyring", vec!["decrypt", "key1.ktl", "-t", "bob", "-k", "bad-kr.txt", "-o", o, "--env-pass"], bpw.to_vec(), None, o, None);
    add("decrypt/unknown-key-name", vec!["decrypt", "key1.ktl", "-t", "nobody", "-k", "kr.txt", "-o", o, "--env-pass"], bpw.to_vec(), None, o, None);
    add("decrypt/missing-private-key", vec!["decrypt", "key1.ktl", "-t", "carol-public-only", "-k", "kr.txt", "-o", o, "--env-pass"], bpw.to_vec(), None, o, None);
    add("decrypt/wrong-password", vec!["decrypt", "key1.ktl", "-t", "bob", "-k", "kr.txt", "-o", o, "--env-pass"], apw.to_vec(), None, o, None);
    add("decrypt/password-variable-unset", vec!["decrypt", "key1.ktl", "-t", "bob", "-k", "kr.txt", "-o", o, "--env-pass"], vec![], None, o, None);
    add("decrypt/wrong-recipient-key", vec!["decrypt", "key1.ktl", "-t", "alice", "-k", "kr.txt", "-o", o, "--env-pass"], apw.to_vec(), None, o, None);
    add("decrypt/output-equals-input", vec!["decrypt", "key1.ktl", "-t", "bob", "-k", "kr.txt", "-o", "key1.ktl", "--env-pass"], bpw.to_vec(), None, "key1.ktl", None);
    add("decrypt/password-file-given", vec!["decrypt", "pass1.ktl", "-t", "bob", "-k", "kr.txt", "-o", o, "--env-pass"], bpw.to_vec(), None, o, None);
    for t in ["badmagic", "badheader", "badheader-last", "badchunk1", "badchunk1-tag", "badchunk1-len", "badchunk1-flag", "truncchunk1", "trunc-header", "empty"] {
        let f = format!("key-{}.ktl", t);
        add(&format!("decrypt/{}", t), vec!["decrypt", &f, "-t", "bob", "-k", "kr.txt", "-o", o, "--env-pass"], bpw.to_vec(), None, o, None);
        let f = format!("pass-{}.ktl", t);
        add(&format!("pass-decrypt/{}", t), vec!["password", "decrypt", &f, "-o", o, "--env-pass"], fpw.to_vec(), None, o, None);
    }
    // empty-plaintext files: a wrong password / key and a changed tag fail before any authenticated output exists
    add("decrypt/emptyplain-wrong-recipient-key", vec!["decrypt", "key-emptyplain.ktl", "-t", "alice", "-k", "kr.txt", "-o", o, "--env-pass"], apw.to_vec(), None, o, None);
    add("pass-decrypt/emptyplain-wrong-password", vec!["password", "decrypt", "pass-emptyplain.ktl", "-o", o, "--env-pass"], apw.to_vec(), None, o, None);
    for t in ["emptyplain-badtag", "emptyplain-badtag0"] {
        let f = format!("key-{}.ktl", t);
        add(&format!("decrypt/{}", t), vec!["decrypt", &f, "-t", "bob", "-k", "kr.txt", "-o", o, "--env-pass"], bpw.to_vec(), None, o, None);
        let f = format!("pass-{}.ktl", t);
        add(&format!("pass-decrypt/{}", t), vec!["password", "decrypt", &f, "-o", o, "--env-pass"], fpw.to_vec(), None, o, None);
    }
    // first-chunk corruption arriving through stdin
    {
        let f = fx.files.iter().find(|f| f.0 == "key-badchunk1.ktl").unwrap().1.clone();
        add("decrypt/badchunk1-via-stdin", vec!["decrypt", "-t", "bob", "-k", "kr.txt", "-o", o, "--env-pass"], bpw.to_vec(), Some(&f), o, None);
    }
    // later chunks: exit 1 and exactly the authenticated prefix
    let p3 = &fx.plain3;
    for (t, alts) in [
        ("badchunk2", vec![p3[..CS].to_vec()]),
        ("truncchunk3", vec![p3[..2 * CS].to_vec()]),
        ("badchunk3", vec![p3[..2 * CS].to_vec()]),
        ("trailing", vec![p3[..2 * CS].to_vec(), p3.clone()]),
    ] {
        let f = format!("key-{}.ktl", t);
        add(&format!("decrypt/later-{}", t), vec!["decrypt", &f, "-t", "bob", "-k", "kr.txt", "-o", o, "--env-pass"], bpw.to_vec(), None, o, Some(alts.clone()));
        let f = format!("pass-{}.ktl", t);
        add(&format!("pass-decrypt/later-{}", t), vec!["password", "decrypt", &f, "-o", o, "--env-pass"], fpw.to_vec(), None, o, Some(alts));
    }
    {
        let alts = vec![fx.plain17[..9 * CS].to_vec()];
        add("decrypt/later-big-badchunk10", vec!["decrypt", "key-big-badchunk10.ktl", "-t", "bob", "-k", "kr.txt", "-o", o, "--env-pass"], bpw.to_vec(), None, o, Some(alts.clone()));
        add("pass-decrypt/later-big-badchunk10", vec!["password", "decrypt", "pass-big-badchunk10.ktl", "-o", o, "--env-pass"], fpw.to_vec(), None, o, Some(alts));
    }
    // no --env-pass, no terminal, but a line that equals the password at the head of a stdin pipe: still no password source
    add("encrypt/password-line-on-stdin-pipe", vec!["encrypt", "-t", "bob", "-f", "alice", "-k", "kr.txt", "-o", o], vec![], Some(b"alicepw\nthe rest of stdin is the plaintext\n"), o, None);
    add("decrypt/password-line-on-stdin-pipe", vec!["decrypt", "key1.ktl", "-t", "bob", "-k", "kr.txt", "-o", o], vec![], Some(b"bobpw\n"), o, None);
    add("pass-encrypt/password-lines-on-stdin-pipe", vec!["password", "encrypt", "-o", o], vec![], Some(b"filepw\nfilepw\nplaintext follows\n"), o, None);
    add("pass-decrypt/password-line-on-stdin-pipe", vec!["password", "decrypt", "pass1.ktl", "-o", o], vec![], Some(b"filepw\n"), o, None);
    // ---- password encrypt / decrypt
    add("pass-encrypt/bad-args", vec!["password", "encrypt", "plain.bin", "kr.txt", "-o", o, "--env-pass"], fpw.to_vec(), None, o, None);
    add("pass-encrypt/unknown-option", vec!["password", "encrypt", "plain.bin", "-o", o, "--env-pass", "-t", "bob"], fpw.to_vec(), None, o, None);
    add("pass-encrypt/missing-input", vec!["password", "encrypt", "nosuch.bin", "-o", o, "--env-pass"], fpw.to_vec(), None, o, None);
    add("pass-encrypt/password-variable-unset", vec!["password", "encrypt", "plain.bin", "-o", o, "--env-pass"], vec![], None, o, None);
    add("pass-encrypt/no-password-source", vec!["password", "encrypt", "plain.bin", "-o", o], vec![], None, o, None);
    add("pass-encrypt/output-equals-input", vec!["password", "encrypt", "plain.bin", "-o", "plain.bin", "--env-pass"], fpw.to_vec(), None, "plain.bin", None);
    add("pass-decrypt/missing-input", vec!["password", "decrypt", "nosuch.ktl", "-o", o, "--env-pass"], fpw.to_vec(), None, o, None);
    add("pass-decrypt/wrong-password", vec!["password", "decrypt", "pass1.ktl", "-o", o, "--env-pass"], apw.to_vec(), None, o, None);
    add("pass-decrypt/password-variable-unset", vec!["password", "decrypt", "pass1.ktl", "-o", o, "--env-pass"], vec![], None, o, None);
    add("pass-decrypt/key-file-given", vec!["password", "decrypt", "key1.ktl", "-o", o, "--env-pass"], fpw.to_vec(), None, o, None);
    add("pass-decrypt/output-equals-input", vec!["password", "decrypt", "pass1.ktl", "-o", "pass1.ktl", "--env-pass"], fpw.to_vec(), None, "pass1.ktl", None);
    add("pass-decrypt/bad-subcommand", vec!["password", "decode", "pass1.ktl", "-o", o, "--env-pass"], fpw.to_vec(), None, o, None);
    // ---- key generate
    add("key-generate/empty-name", vec!["key", "generate", "-o", o, "--env-pass"], fpw.to_vec(), Some(b"\n"), o, None);
    add("key-generate/blank-name", vec!["key", "generate", "-o", o, "--env-pass"], fpw.to_vec(), Some(b"   \n"), o, None);
    let long = format!("{}\n", "n".repeat(129));
    add("key-generate/name-too-long", vec!["key", "generate", "-o", o, "--env-pass"], fpw.to_vec(), Some(long.as_bytes()), o, None);
    add("key-generate/password-variable-unset", vec!["key", "generate", "-o", o, "--env-pass"], vec![], Some(b"newkey\n"), o, None);
    add("key-generate/no-password-source", vec!["key", "generate", "-o", o], vec![], Some(b"newkey\n"), o, None);
    add("key-generate/unknown-option", vec!["key", "generate", "-o", o, "--env-pass", "-t", "x"], fpw.to_vec(), Some(b"newkey\n"), o, None);
    add("key-generate/no-stdin", vec!["key", "generate", "-o", o, "--env-pass"], fpw.to_vec(), None, o, None);
    v
}

fn run_case(fx: &Fx, c: &Case, prior: Option<&[u8]>) -> Result<(), String> {
    let sc = Scratch::new();
    for (n, d) in &fx.files {
        sc.write(n, d);
    }
    // the file at risk: a fixture (output == input) keeps its own content as "prior"
    let is_fixture = fx.files.iter().any(|f| f.0 == c.out_path);
    let before: Option<Vec<u8>> = if is_fixture {
        sc.read(&c.out_path)
    } else {
        if let Some(p) = prior {
            sc.write(&c.out_path, p);
        }
        prior.map(|p| p.to_vec())
    };
    let out = proc::run(&c.cmd, &sc.0);
    out.well_behaved()?;
    if out.code != Some(1) {
        return Err(format!("expected the command to fail with exit 1, got {:?} ({})", out.code, out.summary()));
    }
    let after = sc.read(&c.out_path);
    match &c.expect_content {
        None => {
            if after != before {
                return Err(match (&before, &after) {
                    (None, Some(a)) => format!("the command failed before any authenticated output existed but created '{}' ({} bytes)", c.out_path, a.len()),
                    (Some(b), Some(a)) => format!("the command failed before any authenticated output existed but the existing file '{}' was changed ({} -> {} bytes)", c.out_path, b.len(), a.len()),
                    (Some(_), None) => format!("the existing file '{}' was removed", c.out_path),
                    _ => unreachable!(),
                });
            }
        }
        Some(alts) => match after {
            None => return Err("a later chunk failed: the output path should hold the authenticated prefix but does not exist".into()),
            Some(a) => {
                if !alts.iter().any(|x| *x == a) {
                    return Err(format!(
                        "a later chunk failed: the output path holds {} bytes, expected exactly the authenticated prefix ({} bytes){}",
                        a.len(),
                        alts.iter().map(|x| x.len().to_string()).collect::<Vec<_>>().join(" or "),
                        if alts.iter().any(|x| a.starts_with(x)) { " — it starts with the prefix but stale/extra bytes follow" } else { "" }
                    ));
                }
            }
        },
    }
    Ok(())
}

/// Damage sweep: every single-byte change and every truncation of a small authentic file, and a grid of positions in
/// the later records of a 3-chunk file. REF (the acceptance automaton, run on the chunk region under the file's key)
/// says which prefix is authenticated before the damage: empty -> the output path must be untouched, otherwise it must
/// hold exactly that prefix; always exit 1. Variants REF still accepts (e.g. a changed counter field) carry no expectation here.
fn damage_sweep(rep: &'static Report, alice: &Party, bob: &Party) {
    use crate::report::Tier;
    let seed = rep.seed;
    let e = derive32(seed, "c13-sweep-e");
    let pay = derive32(seed, "c13-sweep-pay");
    let salt = derive32(seed, "c13-sweep-salt");
    let pkey = r::pass_key(b"filepw", &salt);
    let kr = crate::fx::keyring(&[(alice, true), (bob, true)]);
    struct Base {
        mode: &'static str,
        hlen: usize,
        file: Vec<u8>,
        key: [u8; 32],
        aad: Vec<u8>,
        label: String,
    }
    let mut bases: Vec<Base> = vec![];
    // "short-chunks": an authentic file whose non-final chunks are short (what an encryptor reading from a pipe produces)
    let mut plains: Vec<(String, Vec<u8>, Vec<usize>)> = vec![
        ("small16".into(), plaintext(seed ^ 0xe1, 16), vec![16]),
        ("three-chunks".into(), plaintext(seed ^ 0xe3, 2 * CS + 77), vec![CS, CS, 77]),
        ("short-chunks".into(), plaintext(seed ^ 0xe5, 2000 + 3000 + 1 + 4000 + 77), vec![2000, 3000, 1, 4000, 77]),
        // authenticated chunks that consist of zero bytes only (a writer that skips or defers zero blocks shows here)
        ("zero-middle-chunk".into(), { let mut z = plaintext(seed ^ 0xe6, 2 * CS + 77); z[CS..2 * CS].iter_mut().for_each(|b| *b = 0); z }, vec![CS, CS, 77]),
        ("all-zero".into(), vec![0u8; 2 * CS + 77], vec![CS, CS, 77]),
    ];
    if rep.tier == Tier::Thorough {
        plains.push(("one-chunk-1000".into(), plaintext(seed ^ 0xe2, 1000), vec![1000]));
        plains.push(("exactly-two-full-chunks".into(), plaintext(seed ^ 0xe4, 2 * CS), vec![CS, CS]));
    }
    for (label, p, ch) in &plains {
        let kf = r::write_key_file(&alice.sk, &bob.pk, &e, &pay, p, ch).unwrap();
        let fk = r::read_key_file(&bob.sk, &kf).unwrap().file_key;
        bases.push(Base { mode: "key", hlen: 132, file: kf, key: fk, aad: vec![], label: label.clone() });
        let pf = r::write_pass_file_with_key(&pkey, &salt, p, ch);
        bases.push(Base { mode: "pass", hlen: 36, file: pf, key: pkey, aad: r::PASS_MAGIC.to_vec(), label: label.clone() });
    }
    // (base index, description, damaged file)
    let mut jobs: Vec<(usize, String, Vec<u8>)> = vec![];
    for (bi, b) in bases.iter().enumerate() {
        let n = b.file.len();
        let mut flip_at: Vec<usize> = vec![];
        let mut cut_at: Vec<usize> = vec![];
        if n <= 2000 {
            flip_at.extend(0..n);
            cut_at.extend(0..n);
        } else {
            // header and first record boundaries, then a position grid inside every later record
            flip_at.extend([0, 3, 4, b.hlen - 1, b.hlen, b.hlen + 8, b.hlen + 12, b.hlen + 16]);
            cut_at.extend([0, 3, b.hlen - 1, b.hlen, b.hlen + 15, b.hlen + 16, b.hlen + 17]);
            let mut rec = b.hlen;
            let (recs, _) = r::split_records(&b.file[b.hlen..]);
            for (ri, rc) in recs.iter().enumerate() {
                let rlen = 16 + rc.body.len() + 16;
                let dense = rep.tier == Tier::Thorough;
                let mut pos: Vec<usize> = if dense { (0..16).collect() } else { vec![0, 7, 8, 11, 12, 15] };
                pos.extend([16, 17, rlen / 2, rlen - 17, rlen - 16, rlen - 1]);
                if dense {
                    pos.extend(rlen - 16..rlen);
                }
                pos.sort();
                pos.dedup();
                for &o in &pos {
                    if o < rlen && (ri > 0 || o >= 16) {
                        flip_at.push(rec + o);
                    }
                    if ri > 0 || o > 17 {
                        cut_at.push(rec + o);
                    }
                }
                cut_at.push(rec + rlen); // exactly at the boundary after record ri (no final record follows)
                rec += rlen;
            }
            cut_at.retain(|&c| c < n);
        }
        flip_at.sort();
        flip_at.dedup();
        cut_at.sort();
        cut_at.dedup();
        for at in flip_at {
            let mut v = b.file.clone();
            v[at] ^= 0x01;
            jobs.push((bi, format!("byte {} changed", at), v));
        }
        for at in cut_at {
            jobs.push((bi, format!("cut to {} bytes", at), b.file[..at].to_vec()));
        }
    }
    let priors: Vec<(&str, Option<Vec<u8>>)> = if rep.tier == Tier::Thorough { vec![("absent", None), ("present", Some(vec![b'X'; 200_000])), ("present-empty", Some(vec![])), ("present-short", Some(b"short".to_vec()))] } else { vec![("present", Some(vec![b'X'; 200_000]))] };
    let skipped = std::sync::atomic::AtomicU64::new(0);
    let early = std::sync::atomic::AtomicU64::new(0);
    let later = std::sync::atomic::AtomicU64::new(0);
    jobs.par_iter().for_each(|(bi, what, data)| {
        let b = &bases[*bi];
        // expectation
        let header_damaged = data.len() < b.hlen || data[..b.hlen] != b.file[..b.hlen];
        let prefix: Vec<u8> = if header_damaged {
            vec![]
        } else {
            match r::read_chunks(&b.key, &b.aad, &data[b.hlen..], 65536) {
                Ok(_) | Err((r::Reject::Trailing, _)) => {
                    skipped.fetch_add(1, std::sync::atomic::Ordering::Relaxed);
                    return;
                }
                Err((_, parsed)) => parsed.plaintext,
            }
        };
        if prefix.is_empty() {
            early.fetch_add(1, std::sync::atomic::Ordering::Relaxed);
        } else {
            later.fetch_add(1, std::sync::atomic::Ordering::Relaxed);
        }
        for (pn, prior) in &priors {
            rep.eval(1);
            rep.nontrivial(format!("sweep-{}-{}-{}-{}", b.mode, b.label, what, pn).as_bytes());
            let attempt = || -> Result<(), String> {
                let sc = Scratch::new();
                sc.write("kr.txt", kr.as_bytes());
                sc.write("in.ktl", data);
                if let Some(p) = prior {
                    sc.write("out.bin", p);
                }
                let cmd = if b.mode == "key" { Cmd::new(&["decrypt", "in.ktl", "-t", "bob", "-k", "kr.txt", "-o", "out.bin", "--env-pass"]).env("KESTREL_PASSWORD", "bobpw") } else { Cmd::new(&["password", "decrypt", "in.ktl", "-o", "out.bin", "--env-pass"]).env("KESTREL_PASSWORD", "filepw") };
                let out = proc::run(&cmd, &sc.0);
                out.well_behaved()?;
                if out.code != Some(1) {
                    return Err(format!("expected exit 1, got {:?} ({})", out.code, out.summary()));
                }
                let after = sc.read("out.bin");
                if prefix.is_empty() {
                    if after != *prior {
                        return Err(format!("failure before any authenticated output existed, but the output path went from {:?} to {:?} bytes", prior.as_ref().map(|p| p.len()), after.as_ref().map(|p| p.len())));
                    }
                } else if after.as_deref() != Some(&prefix[..]) {
                    return Err(format!("a later chunk failed: the output path holds {:?} bytes, expected exactly the {} authenticated bytes", after.as_ref().map(|p| p.len()), prefix.len()));
                }
                Ok(())
            };
            if attempt().is_err() {
                if let Err(e2) = attempt() {
                    rep.violation(
                        &format!("sweep/{}-{}/{}", b.mode, if prefix.is_empty() { "early" } else { "later" }, pn),
                        json!({"kind":"sweep","mode":b.mode,"base":b.label,"damage":what,"prior":pn}),
                        format!("{} decrypt of the {} file with {} [output path {}]: {}", b.mode, b.label, what, pn, e2),
                    );
                }
            }
        }
    });
    rep.extra("damage_sweep", json!({"bases":bases.len(),"damaged_files":jobs.len(),"still_accepted_by_REF_no_expectation":skipped.load(std::sync::atomic::Ordering::Relaxed),"early_failures":early.load(std::sync::atomic::Ordering::Relaxed),"later_chunk_failures":later.load(std::sync::atomic::Ordering::Relaxed),"prior_states":priors.iter().map(|p| p.0).collect::<Vec<_>>()}));
}

pub fn run(rep: &'static Report) {
    rep.set_rule("E-PROC product: every listed failure cause of every output-writing command (encrypt, decrypt, password encrypt, password decrypt, key generate) x prior state of the output path {absent, present with 200000 sentinel bytes, symbolic link to an existing file}; the real CLI runs in a scratch directory and the path is compared before/after. Later-chunk failures must leave exactly the authenticated prefix. distinct non-trivial = distinct (command, cause, prior state) cases");
    rep.rule_add("every case also with the output path being a symbolic link; damage sweep (every byte / truncation of small files; position grid in later records) with REF deciding the authenticated prefix.");
    rep.assume("inode and mtime are not compared (the statement speaks of bytes); for trailing data after the final chunk both 'all of P' and 'P without its last chunk' are accepted");
    let (fx, alice, bob) = fixtures(rep.seed);
    let cs = cases(&fx);
    let sentinel = vec![b'X'; 200_000];
    let mut jobs = vec![];
    for c in &cs {
        jobs.push((c, None));
        jobs.push((c, Some(&sentinel[..])));
    }
    // third prior state: the output path is a symbolic link to an existing file
    let link_jobs: Vec<&Case> = cs.iter().filter(|c| c.out_path == "out.bin").collect();
    link_jobs.par_iter().for_each(|c| {
        rep.eval(1);
        rep.nontrivial(format!("{}-symlink", c.name).as_bytes());
        let attempt = || -> Result<(), String> {
            let sc = Scratch::new();
            for (n, d) in &fx.files {
                sc.write(n, d);
            }
            sc.write("link-target.bin", &sentinel[..1000]);
            std::os::unix::fs::symlink("link-target.bin", sc.path("out.bin")).map_err(|e| format!("MACHINERY symlink: {}", e))?;
            let out = proc::run(&c.cmd, &sc.0);
            out.well_behaved()?;
            if out.code != Some(1) {
                return Err(format!("expected the command to fail with exit 1, got {:?}", out.code));
            }
            let still_link = std::fs::symlink_metadata(sc.path("out.bin")).map(|m| m.file_type().is_symlink()).unwrap_or(false);
            let target = sc.read("link-target.bin");
            match &c.expect_content {
                None => {
                    if !still_link {
                        return Err("the command failed before any authenticated output existed, but the symbolic link at the output path was removed or replaced".into());
                    }
                    if target.as_deref() != Some(&sentinel[..1000]) {
                        return Err("the command failed before any authenticated output existed, but the file the output path links to was changed".into());
                    }
                }
                Some(alts) => {
                    // later-chunk failure: the path (through the link or replaced by a file) holds exactly the authenticated prefix
                    let a = sc.read("out.bin").ok_or("a later chunk failed: nothing at the output path")?;
                    if !alts.iter().any(|x| *x == a) {
                        return Err(format!("a later chunk failed: the output path holds {} bytes, expected exactly the authenticated prefix", a.len()));
                    }
                }
            }
            Ok(())
        };
        if let Err(e) = attempt() {
            if e.starts_with("MACHINERY") {
                crate::report::machinery(&e);
            }
            if let Err(e2) = attempt() {
                rep.violation(&format!("{}/symlink", c.name), json!({"kind":"case-symlink","name":c.name}), format!("{} [output path is a symbolic link to an existing file]: {} — command: {}", c.name, e2, c.cmd.display()));
            }
        }
    });
    rep.extra("symlink_prior_state_cases", json!(link_jobs.len()));
    jobs.par_iter().for_each(|(c, prior)| {
        rep.eval(1);
        let pn = if prior.is_some() { "present" } else { "absent" };
        rep.nontrivial(format!("{}-{}", c.name, pn).as_bytes());
        if let Err(e) = run_case(&fx, c, *prior) {
            // CLI runs: confirm once more
            if let Err(e2) = run_case(&fx, c, *prior) {
                let _ = e;
                rep.violation(
                    &format!("{}/{}", c.name, pn),
                    json!({"kind":"case","name":c.name,"prior":pn}),
                    format!("{} [output path {}]: {} — command: {}", c.name, pn, e2, c.cmd.display()),
                );
            }
        }
    });
    // interactive variant of the later-chunk failures: password typed (three times) at a terminal that is stdin / the
    // controlling terminal; the command must still fail once with exit 1 and leave exactly the authenticated prefix
    let mut tty_jobs = vec![];
    for c in cs.iter().filter(|c| c.name.contains("/later-") && !c.name.contains("big")) {
        for (tn, controlling, stdin_tty) in [("tty-is-stdin", false, true), ("tty-controlling", true, false)] {
            tty_jobs.push((c.clone(), tn, controlling, stdin_tty));
        }
    }
    tty_jobs.par_iter().for_each(|(c, tn, controlling, stdin_tty)| {
        rep.eval(1);
        rep.nontrivial(format!("{}-{}", c.name, tn).as_bytes());
        let mut c2 = c.clone();
        c2.cmd.args.retain(|a| a != b"--env-pass");
        let pw = c2.cmd.env.iter().find(|(k, _)| k == "KESTREL_PASSWORD").map(|(_, v)| v.clone()).unwrap_or_default();
        c2.cmd.env.retain(|(k, _)| k != "KESTREL_PASSWORD");
        c2.cmd.pty = Some(proc::PtySpec { typed: format!("{}\n{}\n{}\n", pw, pw, pw).into_bytes(), controlling: *controlling, stdin_is_tty: *stdin_tty, stdout_is_tty: false });
        if let Err(_e) = run_case(&fx, &c2, None) {
            if let Err(e2) = run_case(&fx, &c2, None) {
                rep.violation(&format!("{}/{}", c.name, tn), json!({"kind":"case-tty","name":c.name,"tty":tn}), format!("{} with the password typed at a terminal ({}): {}", c.name, tn, e2));
            }
        }
    });
    // the plaintext source fails in the middle (stdin is a socket whose peer dies after 1000 / 70000 bytes, inside a chunk):
    // the encryption must end with exit 1, and whatever is at the output path must not be a complete file that decrypts
    // cleanly to a PART of the input (an error swallowed and turned into "end of input")
    {
        let mut rj = vec![];
        for mode in ["key", "pass"] {
            for cut in [1000usize, 70_000] {
                rj.push((mode, cut));
            }
        }
        rj.par_iter().for_each(|&(mode, cut)| {
            rep.eval(1);
            rep.nontrivial(format!("encrypt-source-fails-{}-{}", mode, cut).as_bytes());
            let data = plaintext(rep.seed ^ 0xd9, cut);
            let attempt = || -> Result<(), String> {
                let sc = Scratch::new();
                for (n, d) in &fx.files {
                    sc.write(n, d);
                }
                let args: Vec<&str> = if mode == "key" { vec!["encrypt", "-t", "bob", "-f", "alice", "-k", "kr.txt", "-o", "out.bin", "--env-pass"] } else { vec!["password", "encrypt", "-o", "out.bin", "--env-pass"] };
                let mut c = Cmd::new(&args).env("KESTREL_PASSWORD", if mode == "key" { "alicepw" } else { "filepw" }).stdin(&data);
                c.stdin_socket_reset = Some(true);
                let o = proc::run(&c, &sc.0);
                o.well_behaved()?;
                let f = sc.read("out.bin");
                let complete = match (&f, mode) {
                    (Some(f), "key") => r::read_key_file(&bob.sk, f).map(|k| k.parsed.plaintext.len()).ok(),
                    (Some(f), _) if f.len() >= 36 => r::read_pass_file_with_key(&r::pass_key(b"filepw", f[4..36].try_into().unwrap()), f).map(|k| k.plaintext.len()).ok(),
                    _ => None,
                };
                if o.ok() || complete.is_some() {
                    return Err(format!("exit status {:?}; the output path holds {}", o.code, match complete { Some(n) => format!("a complete file that decrypts cleanly to {} bytes although the source failed after {}", n, cut), None => "no complete file".to_string() }));
                }
                Ok(())
            };
            if attempt().is_err() {
                if let Err(e) = attempt() {
                    rep.violation(&format!("{}-encrypt/source-fails-inside-a-chunk", mode), json!({"kind":"sweep","source_fails":cut,"mode":mode}), format!("kestrel {} encrypt from a stdin socket whose peer dies after {} bytes: {}", mode, cut, e));
                }
            }
        });
    }
    damage_sweep(rep, &alice, &bob);
    rep.extra("interactive_later_chunk_cases", json!(tty_jobs.len()));
    rep.extra("cases", json!(cs.len()));
    rep.extra("commands", json!(["encrypt", "decrypt", "password encrypt", "password decrypt", "key generate"]));
    rep.sample(json!({"case":"encrypt/low-order-recipient","prior":"present","expect":"exit 1; the 200000 sentinel bytes at out.bin are untouched"}));
    rep.sample(json!({"case":"decrypt/later-badchunk2","prior":"present","expect":"exit 1; out.bin holds exactly the first 65536 plaintext bytes"}));
    rep.set_exhaustive(true);
}

pub fn replay(rep: &'static Report, case: &Value) {
    let (fx, _, _) = fixtures(rep.seed);
    let cs = cases(&fx);
    let name = case["name"].as_str().unwrap_or("");
    if case["kind"] == "case-tty" || case["kind"] == "sweep" || case["kind"] == "case-symlink" {
        println!("  re-running C13 (interactive cases are part of it)");
        run(rep);
        return;
    }
    let c = cs.iter().find(|c| c.name == name).unwrap_or_else(|| crate::report::machinery("unknown case"));
    let sentinel = vec![b'X'; 200_000];
    let prior = if case["prior"] == "present" { Some(&sentinel[..]) } else { None };
    match run_case(&fx, c, prior) {
        Ok(()) => println!("  {}: holds", name),
        Err(e) => rep.violation("replay", case.clone(), e),
    }
}
