//! C19 — exported primitives == their RFC definitions (E-GRID vs OpenSSL).
use crate::refspec as r;
use crate::report::{Report, Tier};
use crate::util::*;
use kestrel_crypto as kc;
use rayon::prelude::*;
use serde_json::{json, Value};

pub fn special_points() -> Vec<(String, [u8; 32])> {
    let mut v: Vec<(String, [u8; 32])> = vec![];
    let small = [
        "0000000000000000000000000000000000000000000000000000000000000000",
        "0100000000000000000000000000000000000000000000000000000000000000",
        "e0eb7a7c3b41b8ae1656e3faf19fc46ada098deb9c32b1fd866205165f49b800",
        "5f9c95bca3508c24b1d0b1559c83ef5b04445cc4581c8e86d8224eddd09f1157",
        "ecffffffffffffffffffffffffffffffffffffffffffffffffffffffffffff7f",
        "edffffffffffffffffffffffffffffffffffffffffffffffffffffffffffff7f",
        "eeffffffffffffffffffffffffffffffffffffffffffffffffffffffffffff7f",
    ];
    for (i, s) in small.iter().enumerate() {
        let mut b: [u8; 32] = unhx(s).try_into().unwrap();
        v.push((format!("small-order-{}", i), b));
        b[31] |= 0x80;
        v.push((format!("small-order-{}-bit255", i), b));
    }
    // non-canonical encodings p .. 2^255-1 (p = 2^255-19): low byte 0xed..0xff
    for k in 0..19u8 {
        let mut b = [0xffu8; 32];
        b[0] = 0xed + k;
        b[31] = 0x7f;
        v.push((format!("noncanonical-p+{}", k), b));
        b[31] = 0xff;
        v.push((format!("noncanonical-p+{}-bit255", k), b));
    }
    v
}

fn aead_case(rep: &Report, key: &[u8; 32], nonce: &[u8; 12], aad: &[u8], pt: &[u8]) {
    rep.eval(1);
    let case = json!({"kind":"aead","key":hx(key),"nonce":hx(nonce),"aad":hx(aad),"pt":hx(pt)});
    let want = r::aead_seal(key, nonce, aad, pt);
    match guarded(|| kc::chapoly_encrypt_ietf(key, nonce, pt, aad)) {
        Ok(got) => {
            if got != want {
                rep.violation("aead-seal-differs", case.clone(), format!("seal differs from RFC 8439 for |pt|={} |aad|={}", pt.len(), aad.len()));
            }
        }
        Err(p) => rep.violation("aead-seal-panic", case.clone(), format!("seal panicked: {}", p)),
    }
    match guarded(|| kc::chapoly_decrypt_ietf(key, nonce, &want, aad)) {
        Ok(Ok(got)) => {
            if got != pt {
                rep.violation("aead-open-wrong", case.clone(), "open(seal(pt)) != pt".into());
            }
        }
        Ok(Err(_)) => rep.violation("aead-open-rejects-authentic", case.clone(), "open rejects an authentic ciphertext".into()),
        Err(p) => rep.violation("aead-open-panic", case, format!("open panicked: {}", p)),
    }
}

fn aead_alter_case(rep: &Report, key: &[u8; 32], nonce: &[u8; 12], aad: &[u8], pt: &[u8]) {
    let ct = r::aead_seal(key, nonce, aad, pt);
    let try_open = |what: &str, bit: usize, k: &[u8], n: &[u8], a: &[u8], c: &[u8]| {
        rep.eval(1);
        let case = json!({"kind":"aead-alter","what":what,"bit":bit,"key":hx(key),"nonce":hx(nonce),"aad":hx(aad),"pt":hx(pt)});
        match guarded(|| kc::chapoly_decrypt_ietf(k, n, c, a)) {
            Ok(Err(_)) => {}
            Ok(Ok(_)) => rep.violation(&format!("aead-accepts-altered-{}", what), case, format!("open accepts altered {} (bit {})", what, bit)),
            Err(p) => rep.violation("aead-open-panic", case, format!("open panicked on altered {}: {}", what, p)),
        }
    };
    for bit in 0..ct.len() * 8 {
        let mut c = ct.clone();
        c[bit / 8] ^= 1 << (bit % 8);
        let what = if bit / 8 < pt.len() { "ciphertext" } else { "tag" };
        try_open(what, bit, key, nonce, aad, &c);
    }
    for bit in 0..96 {
        let mut n = *nonce;
        n[bit / 8] ^= 1 << (bit % 8);
        try_open("nonce", bit, key, &n, aad, &ct);
    }
    for bit in 0..256 {
        let mut k = *key;
        k[bit / 8] ^= 1 << (bit % 8);
        try_open("key", bit, &k, nonce, aad, &ct);
    }
    for bit in 0..aad.len() * 8 {
        let mut a = aad.to_vec();
        a[bit / 8] ^= 1 << (bit % 8);
        try_open("aad", bit, key, nonce, &a, &ct);
    }
    // aad extended / truncated
    let mut a = aad.to_vec();
    a.push(0);
    try_open("aad-extended", 0, key, nonce, &a, &ct);
    if !aad.is_empty() {
        try_open("aad-truncated", 0, key, nonce, &aad[..aad.len() - 1], &ct);
    }
    // truncated / extended ciphertext
    try_open("ct-truncated", 0, key, nonce, aad, &ct[..ct.len() - 1]);
    let mut c = ct.clone();
    c.push(0);
    try_open("ct-extended", 0, key, nonce, aad, &c);
}

/// Every tag that differs from the authentic one in exactly two bits (8128 of them), every exchange of two tag bytes, every
/// rotation of the tag and its reversal: an opener that folds, sums or reorders tag bytes before comparing accepts some of
/// these although it refuses every single-bit change. `open` is the subject's opener for (key, nonce/counter, aad).
pub fn tag_variants(tag: &[u8; 16]) -> Vec<(String, [u8; 16])> {
    let mut v: Vec<(String, [u8; 16])> = vec![];
    for a in 0..128usize {
        for b in a + 1..128 {
            let mut t = *tag;
            t[a / 8] ^= 1 << (a % 8);
            t[b / 8] ^= 1 << (b % 8);
            v.push((format!("tag bits {} and {} flipped", a, b), t));
        }
    }
    for i in 0..16usize {
        for j in i + 1..16 {
            let mut t = *tag;
            t.swap(i, j);
            v.push((format!("tag bytes {} and {} exchanged", i, j), t));
            for m in [0xffu8, 0x5a] {
                let mut t = *tag;
                t[i] ^= m;
                t[j] ^= m;
                v.push((format!("tag bytes {} and {} both xor {:#x}", i, j, m), t));
            }
        }
    }
    for k in 1..16usize {
        let mut t = *tag;
        t.rotate_left(k);
        v.push((format!("tag rotated by {} bytes", k), t));
    }
    let mut t = *tag;
    t.reverse();
    v.push(("tag reversed".into(), t));
    v.retain(|(_, t)| t != tag);
    v
}

fn tag_variant_case(rep: &Report, which: &str, key: &[u8; 32], ctr: u64, aad: &[u8], pt: &[u8]) {
    let nonce = r::noise_nonce(ctr);
    let ct = r::aead_seal(key, &nonce, aad, pt);
    let tag: [u8; 16] = ct[pt.len()..].try_into().unwrap();
    for (what, t) in tag_variants(&tag) {
        rep.eval(1);
        let mut c = ct.clone();
        c[pt.len()..].copy_from_slice(&t);
        let res = if which == "ietf" { guarded(|| kc::chapoly_decrypt_ietf(key, &nonce, &c, aad).is_ok()) } else { guarded(|| kc::verif_chapoly_decrypt_noise(key, ctr, aad, &c).is_ok()) };
        let case = json!({"kind":"tag-variant","which":which,"key":hx(key),"counter":ctr.to_string(),"aad":hx(aad),"pt":hx(pt),"what":what});
        match res {
            Ok(false) => {}
            Ok(true) => {
                rep.violation("aead-accepts-altered-tag", case, format!("{} open accepts a ciphertext whose {} (|pt|={}, |aad|={})", which, what, pt.len(), aad.len()));
                return;
            }
            Err(p) => {
                rep.violation("aead-open-panic", case, format!("open panicked with {}: {}", what, p));
                return;
            }
        }
    }
}

fn short_case(rep: &Report, key: &[u8; 32], nonce: &[u8; 12], len: usize, fill: u8) {
    rep.eval(1);
    let ct = vec![fill; len];
    let case = json!({"kind":"aead-short","len":len,"fill":fill,"key":hx(key),"nonce":hx(nonce)});
    match guarded(|| kc::chapoly_decrypt_ietf(key, nonce, &ct, &[])) {
        Ok(Err(_)) => {}
        Ok(Ok(_)) => rep.violation("aead-accepts-short", case, format!("open accepts a {}-byte input", len)),
        Err(p) => rep.violation("aead-short-panic", case, format!("open panics on a {}-byte input (shorter than a tag): {}", len, p)),
    }
}

fn x25519_case(rep: &Report, kname: &str, k: &[u8; 32], uname: &str, u: &[u8; 32]) {
    rep.eval(1);
    let case = json!({"kind":"x25519","scalar":hx(k),"u":hx(u),"u_name":uname,"k_name":kname});
    let want = r::x25519(k, u);
    match guarded(|| kc::x25519(k, u)) {
        Ok(Ok(got)) => match want {
            Some(w) => {
                if got != w {
                    rep.violation("x25519-differs", case, format!("X25519({}, {}) differs from RFC 7748", kname, uname));
                }
            }
            None => rep.violation("x25519-allzero-accepted", case, format!("X25519({}, {}) is all-zero but no DhError", kname, uname)),
        },
        Ok(Err(_)) => {
            if want.is_some() {
                rep.violation("x25519-spurious-error", case, format!("X25519({}, {}) fails though the RFC result is non-zero", kname, uname));
            }
        }
        Err(p) => rep.violation("x25519-panic", case, format!("x25519 panicked: {}", p)),
    }
}

fn noise_case(rep: &Report, key: &[u8; 32], ctr: u64, ad: &[u8], pt: &[u8]) {
    rep.eval(1);
    let case = json!({"kind":"noise-aead","key":hx(key),"counter":ctr.to_string(),"ad":hx(ad),"pt":hx(pt)});
    let want = r::aead_seal(key, &r::noise_nonce(ctr), ad, pt);
    match guarded(|| kc::verif_chapoly_encrypt_noise(key, ctr, ad, pt)) {
        Ok(got) => {
            if got != want {
                rep.violation("noise-nonce-layout-enc", case.clone(), format!("Noise AEAD encrypt: nonce for counter {} is not 00000000||LE64(counter)", ctr));
            }
        }
        Err(p) => rep.violation("noise-enc-panic", case.clone(), format!("panic: {}", p)),
    }
    match guarded(|| kc::verif_chapoly_decrypt_noise(key, ctr, ad, &want)) {
        Ok(Ok(got)) => {
            if got != pt {
                rep.violation("noise-dec-wrong", case.clone(), "wrong plaintext".into());
            }
        }
        Ok(Err(_)) => rep.violation("noise-nonce-layout-dec", case.clone(), format!("Noise AEAD decrypt: rejects a record sealed under nonce 00000000||LE64({})", ctr)),
        Err(p) => rep.violation("noise-dec-panic", case.clone(), format!("panic: {}", p)),
    }
    // the record opens under its own counter ONLY: byte-swapped, rotated, shifted and neighbouring counters are refused
    let mut others: Vec<u64> = vec![ctr.swap_bytes(), ctr.rotate_left(8), ctr.rotate_right(8), ctr.rotate_left(32), ctr.wrapping_add(1), ctr.wrapping_sub(1), ctr ^ 0x100, ctr ^ (1 << 63), (ctr as u32 as u64).swap_bytes() >> 32, !ctr];
    others.retain(|&o| o != ctr && o != u64::MAX);
    others.sort();
    others.dedup();
    for o in others {
        rep.eval(1);
        match guarded(|| kc::verif_chapoly_decrypt_noise(key, o, ad, &want)) {
            Ok(Ok(_)) => rep.violation("noise-dec-accepts-another-counter", case.clone(), format!("Noise AEAD decrypt: a record sealed under counter {:#x} opens under counter {:#x}", ctr, o)),
            Ok(Err(_)) => {}
            Err(p) => rep.violation("noise-dec-panic", case.clone(), format!("panic: {}", p)),
        }
    }
}

pub fn counters() -> Vec<u64> {
    let mut cs: Vec<u64> = vec![];
    for k in 0..64u32 {
        let p = 1u64 << k;
        cs.push(p - 1);
        cs.push(p);
        cs.push(p.wrapping_add(1));
    }
    for j in 0..8 {
        cs.push(1u64 << (8 * j));
        cs.push(0xffu64 << (8 * j));
        cs.push(0x80u64 << (8 * j));
    }
    cs.push(u64::MAX - 1);
    cs.push(0x0102030405060708);
    cs.retain(|&c| c != u64::MAX);
    cs.sort();
    cs.dedup();
    cs
}

/// Supplementary, free-running (a SAMPLE of schedules, labelled so): four threads call the stateless primitives at the same
/// time, each with its own inputs -- HMAC keys longer and shorter than a block, HKDF, SHA-256, the AEAD -- 2000 rounds
/// each; every call must return the value of its own inputs. (State shared between calls -- a cache -- would show here.)
/// Thorough tier only (about 13 GiB of memory for a minute): one message of exactly 2^32 bytes through seal and open --
/// RFC 8439 limits a message to 2^32 - 1 BLOCKS of 64 bytes, not bytes.
fn four_gib_message(rep: &Report) {
    let n: usize = 1 << 32;
    let key = derive32(rep.seed, "c19-4gib-key");
    let nonce = [7u8; 12];
    let mut pt = vec![0u8; n];
    for (i, c) in pt.chunks_mut(1 << 20).enumerate() {
        c[0] = i as u8;
        c[(1 << 20) - 1] = (i >> 8) as u8;
    }
    rep.eval(2);
    rep.nontrivial(b"aead-4gib");
    let case = json!({"kind":"aead-4gib"});
    match guarded(|| kc::chapoly_encrypt_ietf(&key, &nonce, &pt, b"aad")) {
        Err(m) => rep.violation("aead-seal-panic", case, format!("seal of a message of 2^32 bytes panicked: {}", m)),
        Ok(ct) => {
            let want = r::aead_seal(&key, &nonce, b"aad", &pt);
            if ct != want {
                rep.violation("aead-seal-differs", case.clone(), "seal of a message of 2^32 bytes differs from RFC 8439".into());
            }
            drop(want);
            match guarded(|| kc::chapoly_decrypt_ietf(&key, &nonce, &ct, b"aad")) {
                Ok(Ok(back)) if back == pt => {}
                Ok(Ok(_)) => rep.violation("aead-open-wrong", case, "open(seal(pt)) != pt for a message of 2^32 bytes".into()),
                Ok(Err(_)) => rep.violation("aead-open-rejects-authentic", case, "open rejects an authentic ciphertext of 2^32 + 16 bytes".into()),
                Err(m) => rep.violation("aead-open-panic", case, format!("open of 2^32 + 16 bytes panicked: {}", m)),
            }
        }
    }
}

fn concurrent_primitives(rep: &Report) {
    use std::sync::atomic::{AtomicU64, Ordering};
    let seed = rep.seed;
    let nthreads = 4usize;
    let rounds = 2000usize;
    struct In {
        key_long: Vec<u8>,
        key_short: Vec<u8>,
        data: Vec<u8>,
        hm_long: Vec<u8>,
        hm_short: Vec<u8>,
        hk: Vec<u8>,
        sha: Vec<u8>,
        aead: Vec<u8>,
        akey: [u8; 32],
    }
    let inputs: Vec<In> = (0..nthreads)
        .map(|i| {
            let key_long = derive(seed, &format!("c19-conc-kl-{}", i), 65 + 7 * i);
            let key_short = derive(seed, &format!("c19-conc-ks-{}", i), 20 + i);
            let data = derive(seed, &format!("c19-conc-d-{}", i), 100 + i);
            let akey = derive32(seed, &format!("c19-conc-ak-{}", i));
            In { hm_long: r::hmac_sha256(&key_long, &data).to_vec(), hm_short: r::hmac_sha256(&key_short, &data).to_vec(), hk: r::hkdf_sha256(&key_long, &data, &key_short, 48), sha: r::sha256(&data).to_vec(), aead: r::aead_seal(&akey, &[0u8; 12], &key_short, &data), key_long, key_short, data, akey }
        })
        .collect();
    let wrong = AtomicU64::new(0);
    let first = std::sync::Mutex::new(String::new());
    let barrier = std::sync::Barrier::new(nthreads);
    std::thread::scope(|sc| {
        for inp in &inputs {
            let (wrong, first, barrier) = (&wrong, &first, &barrier);
            sc.spawn(move || {
                barrier.wait();
                for _ in 0..rounds {
                    let checks: [(&str, bool); 5] = [
                        ("hmac_sha256 with a key longer than a block", kc::hmac_sha256(&inp.key_long, &inp.data) == inp.hm_long),
                        ("hmac_sha256 with a short key", kc::hmac_sha256(&inp.key_short, &inp.data) == inp.hm_short),
                        ("hkdf_sha256", kc::hkdf_sha256(&inp.key_long, &inp.data, &inp.key_short, 48) == inp.hk),
                        ("sha256", kc::sha256(&inp.data) == inp.sha),
                        ("chapoly_encrypt_ietf", kc::chapoly_encrypt_ietf(&inp.akey, &[0u8; 12], &inp.data, &inp.key_short) == inp.aead),
                    ];
                    for (n, ok) in checks {
                        if !ok {
                            wrong.fetch_add(1, Ordering::Relaxed);
                            let mut f = first.lock().unwrap();
                            if f.is_empty() {
                                *f = n.to_string();
                            }
                        }
                    }
                }
            });
        }
    });
    rep.eval((nthreads * rounds * 5) as u64);
    rep.nontrivial(b"concurrent-primitives");
    let w = wrong.load(Ordering::Relaxed);
    if w > 0 {
        rep.violation("concurrent/wrong-value", json!({"kind":"concurrent"}), format!("{} of {} calls made by {} threads at the same time returned a value that is not the RFC value of their own inputs (first: {})", w, nthreads * rounds * 5, nthreads, first.lock().unwrap()));
    }
    rep.extra("concurrent_primitive_calls", json!({"threads":nthreads,"rounds":rounds,"note":"free-running threads: a sample of schedules"}));
}

pub fn run(rep: &Report) {
    let seed = rep.seed;
    rep.set_rule("E-GRID: every (primitive, input shape) point of the stated grids is evaluated once against OpenSSL; a case is non-trivial when at least one output byte or an accept/reject decision is compared; distinct = distinct (primitive, shape, value-set) tuples");
    rep.rule_add("one-byte neighbours of the small-order points; HKDF length x fill grid.");
    rep.rule_add("Supplementary free-running pass: 4 threads x 2000 rounds x 5 primitives with their own inputs (a sample of schedules). Thorough: one AEAD message of 2^32 bytes.");
    rep.rule_add("Tags at Hamming distance two (all 8128), exchanged / equally masked byte pairs, rotations and reversal, both AEAD openers.");
    rep.assume("data values (keys, nonces, message bytes) come from fixed seed-derived alphabets; the arithmetic is orion's and is exercised over the shape grid only");
    rep.assume("OpenSSL 3 libcrypto is the reference for RFC 8439/7748/2104/FIPS 180-4; HKDF reference is RFC 5869 built on OpenSSL HMAC");
    let kn: Vec<([u8; 32], [u8; 12])> = (0..3)
        .map(|i| (derive32(seed, &format!("c19-key-{}", i)), derive(seed, &format!("c19-nonce-{}", i), 12).try_into().unwrap()))
        .collect();
    let kn_special: ([u8; 32], [u8; 12]) = ([0xff; 32], [0xff; 12]);

    // (a) seal/open grid
    let mut grid = vec![];
    for ptl in 0..=130usize {
        for aadl in 0..=40usize {
            grid.push((ptl, aadl));
        }
    }
    grid.par_iter().for_each(|&(ptl, aadl)| {
        let pt = plaintext(seed, ptl);
        let aad = derive(seed, "c19-aad", aadl);
        for (k, n) in kn.iter().chain(std::iter::once(&kn_special)) {
            aead_case(rep, k, n, &aad, &pt);
        }
        rep.nontrivial(format!("aead-{}-{}", ptl, aadl).as_bytes());
    });
    // lengths around and beyond the file format's chunk size (the primitive itself has no such limit)
    let big: Vec<usize> = rep.tier.pick(vec![255, 256, 257, 4096, 65535, 65536, 65537, 70000], vec![255, 256, 257, 4095, 4096, 4097, 65535, 65536, 65537, 65552, 70000, 131072, 200000, 1 << 20]);
    big.par_iter().for_each(|&ptl| {
        let pt = plaintext(seed, ptl);
        for aadl in [0usize, 13] {
            aead_case(rep, &kn[0].0, &kn[0].1, &derive(seed, "c19-aad", aadl), &pt);
        }
        rep.nontrivial(format!("aead-big-{}", ptl).as_bytes());
    });
    rep.sample(json!({"kind":"aead","pt_len":130,"aad_len":40,"key":hx(&kn[0].0),"nonce":hx(&kn[0].1)}));

    // (b) alterations
    let alt_lens: Vec<usize> = rep.tier.pick(vec![0, 1, 16, 17, 64, 65], vec![0, 1, 15, 16, 17, 63, 64, 65, 130]);
    alt_lens.par_iter().for_each(|&l| {
        for aadl in [0usize, 5, 17] {
            let pt = plaintext(seed, l);
            let aad = derive(seed, "c19-aad", aadl);
            aead_alter_case(rep, &kn[0].0, &kn[0].1, &aad, &pt);
            rep.nontrivial(format!("aead-alter-{}-{}", l, aadl).as_bytes());
        }
    });
    rep.sample(json!({"kind":"aead-alter","what":"every single bit of ciphertext, tag, nonce, key, aad","pt_lens":alt_lens}));

    // (b2) tags of Hamming distance two, exchanged / paired / rotated tag bytes, both openers
    {
        let mut tj = vec![];
        for which in ["ietf", "noise"] {
            for (l, aadl) in rep.tier.pick(vec![(0usize, 0usize), (32, 4), (65, 17)], vec![(0, 0), (1, 0), (32, 4), (48, 4), (65, 17), (1000, 12)]) {
                tj.push((which, l, aadl));
            }
        }
        tj.par_iter().for_each(|&(which, l, aadl)| {
            tag_variant_case(rep, which, &kn[0].0, if which == "ietf" { 0 } else { 5 }, &derive(seed, "c19-aad", aadl), &plaintext(seed ^ 0x7a9, l));
            rep.nontrivial(format!("tag-variants-{}-{}-{}", which, l, aadl).as_bytes());
        });
        rep.extra("tag_variants_per_case", json!(tag_variants(&[7u8; 16]).len().max(8128)));
    }

    // (c) inputs shorter than a tag
    for len in 0..16usize {
        for fill in [0u8, 0xa5] {
            short_case(rep, &kn[0].0, &kn[0].1, len, fill);
        }
        rep.nontrivial(format!("aead-short-{}", len).as_bytes());
    }

    // (d) X25519
    let ids = idents(seed);
    let mut scalars: Vec<(String, [u8; 32])> = ids.iter().map(|i| (i.name.to_string(), i.sk)).collect();
    if rep.tier == Tier::Thorough {
        scalars.push(("zero-scalar".into(), [0u8; 32]));
        scalars.push(("ff-scalar".into(), [0xff; 32]));
    }
    let mut points = special_points();
    for i in 0..8 {
        points.push((format!("ordinary-{}", i), r::x25519_base(&derive32(seed, &format!("c19-pt-{}", i)))));
    }
    for i in 0..4 {
        // arbitrary u-coordinates (may be on the twist)
        points.push((format!("arbitrary-u-{}", i), derive32(seed, &format!("c19-u-{}", i))));
    }
    // neighbours of the small-order points: every encoding that agrees with one of them except in ONE byte (all 255 other
    // values of byte 31, and of byte 0), i.e. valid points that a sloppy blacklist comparison would catch
    {
        let sp = special_points();
        for (name, b) in sp.iter().filter(|(n, _)| n.starts_with("small-order-") && !n.ends_with("bit255")) {
            for pos in [0usize, 31] {
                for v in 0..=255u8 {
                    if v != b[pos] {
                        let mut u = *b;
                        u[pos] = v;
                        points.push((format!("{}-byte{}={:02x}", name, pos, v), u));
                    }
                }
            }
        }
    }
    // u-coordinates RELATED to the scalars: each scalar's own public key (also with bit 255 set) -- every scalar meets it
    for (n, k) in scalars.clone() {
        let mut own = r::x25519_base(&k);
        points.push((format!("public-key-of-{}", n), own));
        own[31] |= 0x80;
        points.push((format!("public-key-of-{}-bit255", n), own));
    }
    for (kn_, k) in &scalars {
        for (un, u) in &points {
            x25519_case(rep, kn_, k, un, u);
            rep.nontrivial(format!("x25519-{}-{}", kn_, un).as_bytes());
        }
    }
    rep.sample(json!({"kind":"x25519","scalar":"S","u_name":points[5].0,"u":hx(&points[5].1)}));
    // symmetry and public derivation
    for (an, a) in &scalars {
        rep.eval(1);
        let case = json!({"kind":"x25519-derive","scalar":hx(a)});
        match guarded(|| kc::x25519_derive_public(a)) {
            Ok(Ok(p)) => {
                if p != r::x25519_base(a) {
                    rep.violation("derive-public-differs", case, format!("x25519_derive_public({}) != X25519(k, 9)", an));
                }
            }
            Ok(Err(_)) => {
                if r::x25519_base(a) != [0u8; 32] {
                    rep.violation("derive-public-error", case, "derive_public failed".into());
                }
            }
            Err(p) => rep.violation("derive-public-panic", case, p),
        }
        for (bn, b) in &scalars {
            rep.eval(1);
            let pa = r::x25519_base(a);
            let pb = r::x25519_base(b);
            let ab = guarded(|| kc::x25519(a, &pb).ok());
            let ba = guarded(|| kc::x25519(b, &pa).ok());
            if ab != ba {
                rep.violation("x25519-asymmetric", json!({"kind":"x25519-sym","a":hx(a),"b":hx(b)}), format!("DH({},{}) != DH({},{})", an, bn, bn, an));
            }
            rep.nontrivial(format!("x25519-sym-{}-{}", an, bn).as_bytes());
        }
    }

    // scalars related by the bits that X25519 clamping clears/sets, derived one after the other on one thread
    // (same public key iff the clamped scalars are equal; no state may be carried between calls)
    {
        let base = ids[0].sk;
        let mut seq: Vec<[u8; 32]> = vec![base];
        for bit in [0usize, 1, 2, 3, 4, 7, 8, 248, 253, 254, 255] {
            let mut k = base;
            k[bit / 8] ^= 1 << (bit % 8);
            seq.push(k);
            seq.push(base);
        }
        for byte0 in [0x00u8, 0x07, 0x08, 0x0f, 0xf8, 0xff] {
            let mut k = base;
            k[0] = byte0;
            seq.push(k);
        }
        for (i, k) in seq.iter().enumerate() {
            rep.eval(1);
            let want = r::x25519_base(k);
            match guarded(|| kestrel_crypto::x25519_derive_public(k)) {
                Ok(Ok(p)) if p == want => {}
                other => rep.violation("derive-public-sequence", json!({"kind":"x25519-derive","scalar":hx(k)}), format!("call {} of a sequence of related scalars: x25519_derive_public({}) = {:?}, expected k*G = {}", i, hx(k), other.map(|r| r.map(|p| hx(&p)).map_err(|_| "DhError")), hx(&want))),
            }
            // DH against a fixed peer as well
            let peer = ids[2].pk;
            if guarded(|| kestrel_crypto::x25519(k, &peer).ok()).ok().flatten() != r::x25519(k, &peer).map(|v| v.to_vec()) {
                rep.violation("x25519-sequence", json!({"kind":"x25519","scalar":hx(k),"u":hx(&peer),"k_name":"related","u_name":"R"}), format!("call {} of a sequence of related scalars: x25519 differs from RFC 7748", i));
            }
            rep.nontrivial(format!("derive-seq-{}", i).as_bytes());
        }
    }
    // RFC 8439 over many (key, nonce) pairs with 1-, 2- and 3-byte plaintexts: whatever the first keystream bytes are
    // (zero included: then ciphertext == plaintext), open inverts seal
    {
        let keys: Vec<[u8; 32]> = (0..4).map(|i| derive32(seed, &format!("c19-tiny-key-{}", i))).collect();
        let nn = rep.tier.pick(2048u32, 16384);
        let jobs: Vec<(usize, u32)> = (0..keys.len()).flat_map(|k| (0..nn).map(move |n| (k, n))).collect();
        jobs.par_iter().for_each(|&(k, n)| {
            let mut nonce = [0u8; 12];
            nonce[4..8].copy_from_slice(&n.to_le_bytes());
            for pt in [&b"\x00"[..], &b"a"[..], &b"\x00\x00"[..], &b"ab"[..], &b"abc"[..]] {
                aead_case(rep, &keys[k], &nonce, b"", pt);
            }
        });
        rep.add_distinct(jobs.len() as u64 * 5);
        rep.extra("tiny_plaintext_nonce_sweep", json!({"keys":keys.len(),"nonces":nn,"plaintexts":5}));
    }
    // (e00) SHA-256 of inputs around and beyond 1 MiB (not multiples of any convenient block), HKDF at its last lengths
    {
        let big = plaintext(seed ^ 0x19b, (3 << 20) + 100);
        let lens = [(1usize << 20) - 1, 1 << 20, (1 << 20) + 1, (1 << 20) + 64, (2 << 20) - 1, (2 << 20) + 17, (3 << 20) + 100];
        lens.par_iter().for_each(|&l| {
            rep.eval(1);
            rep.nontrivial(format!("sha256-big-{}", l).as_bytes());
            match guarded(|| kc::sha256(&big[..l])) {
                Ok(got) if got[..] == r::sha256(&big[..l])[..] => {}
                Ok(_) => rep.violation("sha256-differs", json!({"kind":"sha-big","len":l}), format!("SHA-256 of a {}-byte input differs from FIPS 180-4", l)),
                Err(p) => rep.violation("sha256-panic", json!({"kind":"sha-big","len":l}), format!("SHA-256 of a {}-byte input panicked: {}", l, p)),
            }
        });
        let ikm = derive(seed, "c19-hkdf-max-ikm", 32);
        for l in [8129usize, 8159, 8160] {
            rep.eval(1);
            rep.nontrivial(format!("hkdf-max-{}", l).as_bytes());
            let want = r::hkdf_sha256(b"salt", &ikm, b"info", l);
            match guarded(|| kc::hkdf_sha256(b"salt", &ikm, b"info", l)) {
                Ok(got) if got == want => {}
                Ok(got) => rep.violation("hkdf-differs", json!({"kind":"hkdf","shape":"max-length","len":l,"salt":hx(b"salt"),"ikm":hx(&ikm),"info":hx(b"info")}), format!("HKDF output of length {} differs from RFC 5869 ({} bytes returned)", l, got.len())),
                Err(p) => rep.violation("hkdf-panic", json!({"kind":"hkdf","shape":"max-length","len":l,"salt":hx(b"salt"),"ikm":hx(&ikm),"info":hx(b"info")}), format!("HKDF at length {} panicked: {}", l, p)),
            }
        }
    }
    // (e0) HKDF outputs chosen by VALUE: among 4096 (length 1) and 262144 (length 2) different infos, those whose correct
    // output is all zero (about 16 and 4 of them) -- and every other one -- must come out as RFC 5869 says
    {
        let ikm = derive(seed, "c19-hkdf-zero-ikm", 32);
        let salt = derive(seed, "c19-hkdf-zero-salt", 16);
        let zeros = std::sync::atomic::AtomicU64::new(0);
        for (len, count) in [(1usize, 4096u32), (2, 262_144)] {
            (0..count).into_par_iter().for_each(|i| {
                let info = i.to_le_bytes();
                let want = r::hkdf_sha256(&salt, &ikm, &info, len);
                if want.iter().all(|&b| b == 0) {
                    zeros.fetch_add(1, std::sync::atomic::Ordering::Relaxed);
                }
                rep.eval(1);
                match guarded(|| kc::hkdf_sha256(&salt, &ikm, &info, len)) {
                    Ok(got) if got == want => {}
                    Ok(_) => rep.violation("hkdf-differs", json!({"kind":"hkdf","shape":"by-value","len":len,"salt":hx(&salt),"ikm":hx(&ikm),"info":hx(&info)}), format!("HKDF output of length {} differs from RFC 5869 (correct output {})", len, hx(&want))),
                    Err(p) => rep.violation("hkdf-panic", json!({"kind":"hkdf","shape":"by-value","len":len,"salt":hx(&salt),"ikm":hx(&ikm),"info":hx(&info)}), format!("HKDF panicked for an input whose correct output of length {} is {}: {}", len, hx(&want), p)),
                }
            });
        }
        rep.nontrivial(b"hkdf-by-value");
        rep.extra("hkdf_all_zero_outputs_met", json!(zeros.load(std::sync::atomic::Ordering::Relaxed)));
    }
    // (e) HKDF
    let shapes: Vec<(&str, Vec<u8>, Vec<u8>, Vec<u8>)> = vec![
        ("empty-salt-info", vec![], derive(seed, "ikm", 32), vec![]),
        ("short", derive(seed, "salt", 7), derive(seed, "ikm", 5), derive(seed, "info", 3)),
        ("64", derive(seed, "salt", 64), derive(seed, "ikm", 64), derive(seed, "info", 64)),
        ("100", derive(seed, "salt", 100), derive(seed, "ikm", 100), derive(seed, "info", 100)),
    ];
    // length x fill grid for each of the three inputs (block boundaries of HMAC: 63/64/65, 127/128/129), other inputs short
    {
        let mut grid: Vec<(String, Vec<u8>, Vec<u8>, Vec<u8>)> = vec![];
        for which in 0..3usize {
            for fill in [0x00u8, 0xff, 0x36, 0x5c] {
                for l in [0usize, 1, 31, 32, 33, 55, 56, 63, 64, 65, 66, 100, 127, 128, 129, 200] {
                    let v = vec![fill; l];
                    let (mut salt, mut ikm, mut info) = (derive(seed, "gsalt", 8), derive(seed, "gikm", 16), derive(seed, "ginfo", 4));
                    match which {
                        0 => salt = v,
                        1 => ikm = v,
                        _ => info = v,
                    }
                    grid.push((format!("grid-{}-{:02x}-{}", ["salt", "ikm", "info"][which], fill, l), salt, ikm, info));
                }
            }
        }
        grid.par_iter().for_each(|(name, salt, ikm, info)| {
            for l in [1usize, 32, 33, 64, 100] {
                rep.eval(1);
                let want = r::hkdf_sha256(salt, ikm, info, l);
                match guarded(|| kc::hkdf_sha256(salt, ikm, info, l)) {
                    Ok(got) if got == want => {}
                    Ok(_) => rep.violation("hkdf-differs", json!({"kind":"hkdf","shape":name,"len":l,"salt":hx(salt),"ikm":hx(ikm),"info":hx(info)}), format!("HKDF output differs from RFC 5869 ({}, len {})", name, l)),
                    Err(p) => rep.violation("hkdf-panic", json!({"kind":"hkdf","shape":name,"len":l,"salt":hx(salt),"ikm":hx(ikm),"info":hx(info)}), format!("HKDF panicked ({}, len {}): {}", name, l, p)),
                }
                rep.nontrivial(format!("hkdf-{}-{}", name, l).as_bytes());
            }
        });
    }
    let lens: Vec<usize> = (1..=8160).collect();
    for (name, salt, ikm, info) in &shapes {
        // one long derivation is the prefix-closed reference for all lengths
        let full = r::hkdf_sha256(salt, ikm, info, 8160);
        lens.par_iter().for_each(|&l| {
            rep.eval(1);
            match guarded(|| kc::hkdf_sha256(salt, ikm, info, l)) {
                Ok(got) => {
                    if got != full[..l] {
                        rep.violation("hkdf-differs", json!({"kind":"hkdf","shape":name,"len":l,"salt":hx(salt),"ikm":hx(ikm),"info":hx(info)}), format!("HKDF output differs from RFC 5869 at len {}", l));
                    }
                }
                Err(p) => rep.violation("hkdf-panic", json!({"kind":"hkdf","shape":name,"len":l,"salt":hx(salt),"ikm":hx(ikm),"info":hx(info)}), format!("HKDF panicked at len {}: {}", l, p)),
            }
            rep.nontrivial(format!("hkdf-{}-{}", name, l).as_bytes());
        });
    }
    rep.sample(json!({"kind":"hkdf","shape":"short","len":8160}));

    // (f) HMAC / SHA-256
    for kl in [0usize, 1, 63, 64, 65, 200] {
        let key = derive(seed, "hmac-key", kl);
        for ml in 0..=200usize {
            rep.eval(2);
            let msg = plaintext(seed, ml);
            match guarded(|| kc::hmac_sha256(&key, &msg)) {
                Ok(got) => {
                    if got != r::hmac_sha256(&key, &msg) {
                        rep.violation("hmac-differs", json!({"kind":"hmac","key":hx(&key),"msg":hx(&msg)}), format!("HMAC differs (|key|={}, |msg|={})", kl, ml));
                    }
                }
                Err(p) => rep.violation("hmac-panic", json!({"kind":"hmac","key":hx(&key),"msg":hx(&msg)}), format!("HMAC panicked (|key|={}, |msg|={}): {}", kl, ml, p)),
            }
            if kl == 0 {
                match guarded(|| kc::sha256(&msg)) {
                    Ok(got) => {
                        if got != r::sha256(&msg) {
                            rep.violation("sha256-differs", json!({"kind":"sha256","msg":hx(&msg)}), format!("SHA-256 differs (|msg|={})", ml));
                        }
                    }
                    Err(p) => rep.violation("sha256-panic", json!({"kind":"sha256","msg":hx(&msg)}), p),
                }
            }
            rep.nontrivial(format!("hmac-{}-{}", kl, ml).as_bytes());
        }
    }

    // (g) Noise AEAD counter sweep
    let cs = counters();
    for &c in &cs {
        for (ptl, adl) in [(0usize, 0usize), (5, 8), (33, 12)] {
            noise_case(rep, &kn[1].0, c, &derive(seed, "noise-ad", adl), &plaintext(seed, ptl));
        }
        rep.nontrivial(format!("noise-{}", c).as_bytes());
    }
    rep.extra("noise_counters_swept", json!(cs.len()));
    rep.sample(json!({"kind":"noise-aead","counter":(u64::MAX-1).to_string(),"pt_len":33,"ad_len":12}));
    concurrent_primitives(rep);
    if rep.tier == Tier::Thorough {
        four_gib_message(rep);
    }
    rep.set_exhaustive(true);
}

pub fn replay(rep: &Report, case: &Value) {
    let g = |k: &str| unhx(case[k].as_str().unwrap_or(""));
    let a32 = |v: Vec<u8>| -> [u8; 32] { v.try_into().unwrap_or([0; 32]) };
    let a12 = |v: Vec<u8>| -> [u8; 12] { v.try_into().unwrap_or([0; 12]) };
    match case["kind"].as_str().unwrap_or("") {
        "aead" => aead_case(rep, &a32(g("key")), &a12(g("nonce")), &g("aad"), &g("pt")),
        "aead-alter" => aead_alter_case(rep, &a32(g("key")), &a12(g("nonce")), &g("aad"), &g("pt")),
        "aead-short" => short_case(rep, &a32(g("key")), &a12(g("nonce")), case["len"].as_u64().unwrap() as usize, case["fill"].as_u64().unwrap() as u8),
        "x25519" => x25519_case(rep, case["k_name"].as_str().unwrap_or("k"), &a32(g("scalar")), case["u_name"].as_str().unwrap_or("u"), &a32(g("u"))),
        "sha-big" => {
            let l = case["len"].as_u64().unwrap() as usize;
            let big = plaintext(rep.seed ^ 0x19b, (3 << 20) + 100);
            if kc::sha256(&big[..l])[..] != r::sha256(&big[..l])[..] {
                rep.violation("sha256-differs", case.clone(), "differs".into());
            }
        }
        "concurrent" => concurrent_primitives(rep),
        "aead-4gib" => four_gib_message(rep),
        "tag-variant" => tag_variant_case(rep, case["which"].as_str().unwrap(), &a32(g("key")), case["counter"].as_str().unwrap().parse().unwrap(), &g("aad"), &g("pt")),
        "noise-aead" => noise_case(rep, &a32(g("key")), case["counter"].as_str().unwrap().parse().unwrap(), &g("ad"), &g("pt")),
        "hkdf" => {
            let l = case["len"].as_u64().unwrap() as usize;
            let want = r::hkdf_sha256(&g("salt"), &g("ikm"), &g("info"), l);
            match guarded(|| kc::hkdf_sha256(&g("salt"), &g("ikm"), &g("info"), l)) {
                Ok(got) if got == want => {}
                Ok(_) => rep.violation("hkdf-differs", case.clone(), "HKDF differs".into()),
                Err(p) => rep.violation("hkdf-panic", case.clone(), p),
            }
        }
        "hmac" => match guarded(|| kc::hmac_sha256(&g("key"), &g("msg"))) {
            Ok(got) if got == r::hmac_sha256(&g("key"), &g("msg")) => {}
            Ok(_) => rep.violation("hmac-differs", case.clone(), "HMAC differs".into()),
            Err(p) => rep.violation("hmac-panic", case.clone(), p),
        },
        "sha256" => match guarded(|| kc::sha256(&g("msg"))) {
            Ok(got) if got == r::sha256(&g("msg")) => {}
            Ok(_) => rep.violation("sha256-differs", case.clone(), "SHA-256 differs".into()),
            Err(p) => rep.violation("sha256-panic", case.clone(), p),
        },
        "x25519-sym" | "x25519-derive" => {
            let a = a32(g(if case["kind"] == "x25519-sym" { "a" } else { "scalar" }));
            let pa = r::x25519_base(&a);
            if guarded(|| kc::x25519_derive_public(&a).ok()) != Ok(Some(pa.to_vec())) {
                rep.violation("derive-public-differs", case.clone(), "derive_public differs".into());
            }
            if case["kind"] == "x25519-sym" {
                let b = a32(g("b"));
                let pb = r::x25519_base(&b);
                if guarded(|| kc::x25519(&a, &pb).ok()) != guarded(|| kc::x25519(&b, &pa).ok()) {
                    rep.violation("x25519-asymmetric", case.clone(), "asymmetric".into());
                }
            }
        }
        k => crate::report::machinery(&format!("unknown replay kind {}", k)),
    }
}
