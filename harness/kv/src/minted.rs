//! Minted records — the record-level acceptance automaton of the chunk stream (E-GRID, C03/C04).
//!
//! REF seals records under arbitrary (key, nonce, flag, aad prefix, aad fields); the real decrypt loop
//! is run on deviation-bounded words over that alphabet; the 12-line automaton below is the model,
//! and every one of its traces is replayed on the implementation.
use crate::graph::{Obs, Which};
use crate::refspec as r;
use crate::report::{Report, Tier};
use crate::streams::*;
use crate::util::*;
use rayon::prelude::*;
use serde_json::{json, Value};
use std::sync::atomic::{AtomicU64, Ordering};

#[derive(Clone, Debug)]
pub struct Letter {
    pub id: usize,
    pub key: u8,        // 0 = file key, 1 = other key
    pub nonce: u64,     // nonce used to seal
    pub prefix: u8,     // 0 = empty aad prefix, 1 = magic
    pub hdr_flag: u32,  // flag field as written
    pub aad_flag: u32,  // flag value authenticated
    pub aad_len_delta: i32, // authenticated length = body length + delta
    pub plain: Vec<u8>,
    pub bytes: Vec<u8>,
}

pub fn letters(seed: u64, keys: &[[u8; 32]; 2], cs: usize, full: bool) -> Vec<Letter> {
    let mut v = vec![];
    let _ = full;
    let lens: Vec<usize> = vec![0, 1, cs];
    for key in 0..2u8 {
        for nonce in 0..4u64 {
            for prefix in 0..2u8 {
                for hdr_flag in 0..2u32 {
                    for (aad_flag_same, dl) in [(true, 0i32), (false, 0), (true, 1)] {
                        for &l in &lens {
                            // keep the alphabet bounded: foreign-key letters only in their plain form
                            if key == 1 && (!aad_flag_same || dl != 0) {
                                continue;
                            }
                            if l != cs && (!aad_flag_same || dl != 0) && !full {
                                continue;
                            }
                            let id = v.len();
                            let plain = plaintext(seed ^ (id as u64) << 3, l);
                            let aad_flag = if aad_flag_same { hdr_flag } else { 1 - hdr_flag };
                            let pre: &[u8] = if prefix == 1 { &r::PASS_MAGIC } else { &[] };
                            let rec = r::seal_record(&keys[key as usize], nonce, pre, aad_flag, (l as i32 + dl) as u32, nonce, hdr_flag, l as u32, &plain);
                            v.push(Letter { id, key, nonce, prefix, hdr_flag, aad_flag, aad_len_delta: dl, plain, bytes: rec.bytes() });
                        }
                    }
                }
            }
        }
    }
    v
}

/// The acceptance automaton (the model). Returns (accept, plaintext that MUST have been written,
/// plaintext that MAY additionally have been written (final chunk before a trailing-data error)).
pub fn model(word: &[&Letter], trailing: bool, prefix: u8) -> (bool, Vec<u8>, Vec<u8>) {
    let mut must = vec![];
    for (i, l) in word.iter().enumerate() {
        let ok = l.key == 0 && l.nonce == i as u64 && l.prefix == prefix && l.aad_flag == l.hdr_flag && l.aad_len_delta == 0;
        if !ok {
            return (false, must, vec![]);
        }
        if l.hdr_flag == 1 {
            let more = i + 1 < word.len() || trailing;
            if more {
                return (false, must, l.plain.clone());
            }
            must.extend_from_slice(&l.plain);
            return (true, must, vec![]);
        }
        must.extend_from_slice(&l.plain);
    }
    (false, must, vec![]) // ran out of records without a final one
}

fn judge_word(rep: &Report, which: Which, key: &[u8; 32], prefix: u8, cs: u32, word: &[&Letter], trailing: bool) -> bool {
    let mut x = vec![];
    let mut ends = vec![];
    for l in word {
        x.extend_from_slice(&l.bytes);
        ends.push(x.len());
    }
    if trailing {
        x.push(0x5a);
    }
    let aad: &[u8] = if prefix == 1 { &r::PASS_MAGIC } else { &[] };
    let sub = Subject::TinyDec { key: hx(key), aad: hx(aad), cs };
    let (mut src, pos) = crate::env::PosReader::new(&x);
    let mut sink = crate::env::RecSink::new(pos);
    let res = run_rw(&sub, &mut src, &mut sink);
    let obs = Obs { res, out: sink.data, writes: sink.writes };
    let (accept, must, may) = model(word, trailing, prefix);
    let ids: Vec<usize> = word.iter().map(|l| l.id).collect();
    let case = || json!({"kind":"minted","prefix":prefix,"cs":cs,"word":ids,"trailing":trailing});
    let descr = || {
        word.iter()
            .map(|l| format!("(k{},n{},p{},f{}/{},dl{},len{})", l.key, l.nonce, l.prefix, l.hdr_flag, l.aad_flag, l.aad_len_delta, l.plain.len()))
            .collect::<Vec<_>>()
            .join(" ")
            + if trailing { " +1 byte" } else { "" }
    };
    let mut ok = true;
    if let Res::Panic(m) = &obs.res {
        rep.violation("minted/panic", case(), format!("panic on word {}: {}", descr(), m));
        return false;
    }
    match which {
        Which::C03 => {
            if obs.res.is_ok() && !accept {
                rep.violation("minted/accepted-non-authentic", case(), format!("record sequence {} accepted; the format only accepts records sealed under (file key, nonce = position, framed flag/len) ending in exactly one final record", descr()));
                ok = false;
            } else if obs.res.is_ok() && obs.out != must {
                rep.violation("minted/accepted-wrong-output", case(), format!("sequence {} accepted with wrong output", descr()));
                ok = false;
            } else if !obs.res.is_ok() && accept {
                rep.violation("minted/authentic-rejected", case(), format!("authentic sequence {} rejected: {}", descr(), obs.res.brief()));
                ok = false;
            }
        }
        Which::C04 => {
            let mut full = must.clone();
            full.extend_from_slice(&may);
            if obs.res.is_ok() && !accept {
                rep.violation("minted/ok-on-incomplete", case(), format!("success reported for {}", descr()));
                ok = false;
            }
            if !(obs.out == must || (!may.is_empty() && obs.out == full)) {
                rep.violation(
                    "minted/released-bytes",
                    case(),
                    format!("for {} the bytes released ({}) are not exactly the plaintext of the authenticated leading records ({}{})", descr(), obs.out.len(), must.len(), if may.is_empty() { String::new() } else { format!(" or {}", full.len()) }),
                );
                ok = false;
            }
            // each write happens only after its whole record has been consumed
            let mut acc = 0usize;
            let mut bounds = vec![];
            for l in word.iter() {
                acc += l.plain.len();
                bounds.push(acc);
            }
            for &(off, len, src_pos) in &obs.writes {
                if len == 0 {
                    continue;
                }
                let j = bounds.iter().position(|&b| off < b).unwrap_or(usize::MAX);
                if j == usize::MAX || src_pos < ends[j] {
                    rep.violation("minted/write-before-authentication", case(), format!("for {} plaintext at offset {} was written before its record was fully consumed", descr(), off));
                    ok = false;
                    break;
                }
            }
        }
    }
    ok
}

#[derive(Clone)]
enum Dev<'a> {
    Rep(usize, &'a Letter),
    Ins(usize, &'a Letter),
    Del(usize),
}

fn apply_devs<'a>(base: &[&'a Letter], devs: &[&Dev<'a>]) -> Vec<&'a Letter> {
    // apply from the highest position down so indices stay valid
    let mut w: Vec<&'a Letter> = base.to_vec();
    let mut ds: Vec<&Dev<'a>> = devs.to_vec();
    ds.sort_by_key(|d| match d {
        Dev::Rep(p, _) | Dev::Del(p) => (*p, 1),
        Dev::Ins(p, _) => (*p, 0),
    });
    for d in ds.iter().rev() {
        match d {
            Dev::Rep(p, l) => w[*p] = *l,
            Dev::Del(p) => {
                w.remove(*p);
            }
            Dev::Ins(p, l) => w.insert(*p, *l),
        }
    }
    w
}

pub fn run(rep: &Report, which: Which) {
    let seed = rep.seed;
    let keys = [derive32(seed, "minted-k0"), derive32(seed, "minted-k1")];
    let cs = 2u32;
    let full = rep.tier == Tier::Thorough;
    let alpha = letters(seed, &keys, cs as usize, full);
    let n_alpha = alpha.len();
    let words = AtomicU64::new(0);
    let accepted = AtomicU64::new(0);
    // authentic letter for (prefix, position i, last?, len)
    let find = |prefix: u8, i: u64, last: bool, len: usize| -> &Letter {
        alpha
            .iter()
            .find(|l| l.key == 0 && l.nonce == i && l.prefix == prefix && l.hdr_flag == last as u32 && l.aad_flag == l.hdr_flag && l.aad_len_delta == 0 && l.plain.len() == len)
            .expect("authentic letter")
    };
    let mut jobs = vec![];
    for prefix in 0..2u8 {
        for n in 1..=4usize {
            jobs.push((prefix, n));
        }
    }
    let max_dev = 2usize;
    jobs.par_iter().for_each(|&(prefix, n)| {
        let base: Vec<&Letter> = (0..n).map(|i| find(prefix, i as u64, i + 1 == n, if i + 1 == n { 1 } else { cs as usize })).collect();
        // deviations: Replace(pos, letter) | Insert(before pos, letter) | Delete(pos); at most two
        let mut singles: Vec<Dev> = vec![];
        for pos in 0..n {
            for l in &alpha {
                singles.push(Dev::Rep(pos, l));
            }
            singles.push(Dev::Del(pos));
        }
        for pos in 0..=n {
            for l in &alpha {
                singles.push(Dev::Ins(pos, l));
            }
        }
        let key = &keys[0];
        let go = |w: Vec<&Letter>| {
            for trailing in [false, true] {
                words.fetch_add(1, Ordering::Relaxed);
                judge_word(rep, which, key, prefix, cs, &w, trailing);
                if model(&w, trailing, prefix).0 {
                    accepted.fetch_add(1, Ordering::Relaxed);
                }
            }
        };
        go(apply_devs(&base, &[]));
        for a in &singles {
            go(apply_devs(&base, &[a]));
        }
        if max_dev >= 2 {
            for (i, a) in singles.iter().enumerate() {
                for b in &singles[i + 1..] {
                    // two deviations at the same replaced/deleted position are redundant
                    let same = match (a, b) {
                        (Dev::Rep(p, _), Dev::Rep(q, _)) | (Dev::Rep(p, _), Dev::Del(q)) | (Dev::Del(p), Dev::Rep(q, _)) | (Dev::Del(p), Dev::Del(q)) => p == q,
                        _ => false,
                    };
                    if same {
                        continue;
                    }
                    go(apply_devs(&base, &[a, b]));
                }
            }
        }
    });
    let w = words.load(Ordering::Relaxed);
    rep.eval(w);
    rep.traces_validated.fetch_add(w, Ordering::Relaxed);
    rep.extra("minted_record_alphabet", json!(n_alpha));
    rep.extra("minted_words", json!(w));
    rep.extra("minted_words_model_accepts", json!(accepted.load(Ordering::Relaxed)));
    rep.extra("minted_bound", json!({"authentic_sequence_lengths":"1..4","max_deviations":max_dev,"deviation_kinds":"replace by any letter | insert any letter before position | delete","followed_by":"EOF | 1 trailing byte","aad_prefixes":2}));
    rep.add_distinct(w);
    rep.sample(json!({"kind":"minted","word":"authentic(k0,n0,f0) , letter(k0,n2,f0) , authentic(k0,n2,f1)","meaning":"record sealed for position 2 presented at position 1: must be rejected, one chunk released"}));
}

pub fn replay(rep: &Report, which: Which, case: &Value) {
    let seed = rep.seed;
    let keys = [derive32(seed, "minted-k0"), derive32(seed, "minted-k1")];
    let cs = case["cs"].as_u64().unwrap() as u32;
    let alpha = letters(seed, &keys, cs as usize, rep.tier == Tier::Thorough);
    let word: Vec<&Letter> = case["word"].as_array().unwrap().iter().map(|i| &alpha[i.as_u64().unwrap() as usize]).collect();
    let ok = judge_word(rep, which, &keys[0], case["prefix"].as_u64().unwrap() as u8, cs, &word, case["trailing"].as_bool().unwrap());
    println!("  minted word replayed: {}", if ok { "holds" } else { "violates" });
}
