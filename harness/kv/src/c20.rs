//! C20 — key containers erase their secret bytes when dropped (E-GRAPH over programs + allocator watch list).
use crate::mon;
use crate::report::Report;
use crate::util::*;
use kestrel_crypto::{PayloadKey, PrivateKey};
use serde_json::{json, Value};
use stateright::{Checker, Model, Property};
use std::sync::atomic::{AtomicU64, Ordering};
use std::sync::Arc;

#[derive(Clone, Copy, Debug, Hash, PartialEq, Eq)]
pub enum Op {
    NewPriv(u8, u8),
    GenPriv(u8),
    NewPay(u8, u8),
    Clone(u8, u8),
    /// dst.clone_from(&src) on two live instances of the same kind
    CloneFrom(u8, u8),
    /// PayloadKey stored at an odd address (field after a u8 in a boxed tuple; the type has alignment 1)
    NewPayOdd(u8, u8),
    Drop(u8),
    Use(u8),
    PanicDrop(u8),
    /// explicit `zeroize()` of a live instance (it stays alive and can be refilled by clone_from)
    Wipe(u8),
}

const SLOTS: usize = 3;

fn key_values(seed: u64) -> Vec<[u8; 32]> {
    let a = derive32(seed, "c20-key-a");
    let mut a = a;
    for b in a.iter_mut() {
        if *b == 0 {
            *b = 1;
        }
    }
    // a key with zero bytes inside (an "already wiped?" shortcut must not be fooled)
    let mut z = derive32(seed, "c20-key-z");
    z[0] = 0;
    z[7] = 0;
    z[31] = 0;
    vec![a, z]
}

enum Obj {
    Priv(Box<PrivateKey>),
    Pay(Box<PayloadKey>),
    PayOdd(Box<(u8, PayloadKey)>),
}

impl Obj {
    fn bytes(&self) -> &[u8] {
        match self {
            Obj::Priv(k) => k.as_bytes(),
            Obj::Pay(k) => k.as_bytes(),
            Obj::PayOdd(k) => k.1.as_bytes(),
        }
    }
    fn addr(&self) -> usize {
        self.bytes().as_ptr() as usize
    }
}

/// which slots are occupied (and by which kind) after a program prefix; None if `op` is not enabled
fn sim(prog: &[Op]) -> Option<[u8; SLOTS]> {
    let mut s = [0u8; SLOTS]; // 0 empty, 1 priv, 2 pay
    for op in prog {
        match *op {
            Op::NewPriv(i, _) | Op::GenPriv(i) => {
                if s[i as usize] != 0 {
                    return None;
                }
                s[i as usize] = 1;
            }
            Op::NewPay(i, _) => {
                if s[i as usize] != 0 {
                    return None;
                }
                s[i as usize] = 2;
            }
            Op::NewPayOdd(i, _) => {
                if s[i as usize] != 0 {
                    return None;
                }
                s[i as usize] = 3;
            }
            Op::CloneFrom(a, b) => {
                if a == b || s[a as usize] == 0 || s[a as usize] != s[b as usize] {
                    return None;
                }
            }
            Op::Clone(a, b) => {
                if s[a as usize] == 0 || s[b as usize] != 0 {
                    return None;
                }
                s[b as usize] = s[a as usize];
            }
            Op::Drop(i) | Op::PanicDrop(i) => {
                if s[i as usize] == 0 {
                    return None;
                }
                s[i as usize] = 0;
            }
            Op::Use(i) | Op::Wipe(i) => {
                if s[i as usize] == 0 {
                    return None;
                }
            }
        }
    }
    Some(s)
}

fn all_ops(nvals: u8) -> Vec<Op> {
    let mut v = vec![];
    for i in 0..SLOTS as u8 {
        for k in 0..nvals {
            v.push(Op::NewPriv(i, k));
            v.push(Op::NewPay(i, k));
            v.push(Op::NewPayOdd(i, k));
        }
        v.push(Op::GenPriv(i));
        for j in 0..SLOTS as u8 {
            if i != j {
                v.push(Op::Clone(i, j));
                v.push(Op::CloneFrom(i, j));
            }
        }
        v.push(Op::Drop(i));
        v.push(Op::Use(i));
        v.push(Op::PanicDrop(i));
        v.push(Op::Wipe(i));
    }
    v
}

pub struct Outcome {
    pub drops: usize,
    pub events: usize,
}

/// Execute a program from scratch on the real containers; check the release of every dropped instance.
pub fn execute(seed: u64, prog: &[Op]) -> Result<Outcome, String> {
    let vals = key_values(seed);
    let ids = idents(seed);
    mon::watch_clear();
    let mut slots: Vec<Option<(Obj, Vec<u8>)>> = (0..SLOTS).map(|_| None).collect();
    let mut out = Outcome { drops: 0, events: 0 };
    let release = |obj: Obj, expect: &[u8], how: &str, out: &mut Outcome| -> Result<(), String> {
        let a = obj.addr();
        if obj.bytes() != expect {
            return Err(format!("instance no longer holds its key bytes before {}", how));
        }
        let _ = mon::watch_events();
        if how == "drop" {
            match obj {
                Obj::Priv(b) => {
                    // run the destructor in place, then look at the bytes of the VALUE itself (the struct, not only the
                    // buffer `as_bytes()` points into): an inline copy of the key kept in another field would sit here
                    let raw = Box::into_raw(b);
                    let n = std::mem::size_of::<PrivateKey>();
                    let left: Vec<u8> = unsafe {
                        std::ptr::drop_in_place(raw);
                        let v = std::slice::from_raw_parts(raw as *const u8, n).to_vec();
                        std::alloc::dealloc(raw as *mut u8, std::alloc::Layout::new::<PrivateKey>());
                        v
                    };
                    if expect.len() == 32 && left.windows(32).any(|w| w == expect) {
                        return Err(format!("after drop the {}-byte PrivateKey value itself still contains the key bytes (a field other than the byte buffer holds a copy)", n));
                    }
                }
                other => drop(other),
            }
        } else {
            let _ = guarded(move || {
                let _owned = obj;
                panic!("unwinding with a live key container");
            });
        }
        out.drops += 1;
        let evs = mon::watch_events();
        mon::watch_remove(a);
        match evs.iter().find(|e| e.addr == a) {
            None => Err(format!("after {} of an instance its memory block was not released (no deallocation observed at its address)", how)),
            Some(e) => {
                out.events += 1;
                if e.bytes.iter().any(|&b| b != 0) {
                    Err(format!("memory of a {} instance was released with secret bytes intact ({} {}): {}", if expect.len() == 32 { "key" } else { "?" }, how, if e.bytes == expect { "- the whole key" } else { "- partially" }, hx(&e.bytes)))
                } else {
                    Ok(())
                }
            }
        }
    };
    for (pc, op) in prog.iter().enumerate() {
        let ctx = |m: String| format!("op {} {:?}: {}", pc, op, m);
        match *op {
            Op::NewPriv(i, k) => {
                let o = Obj::Priv(Box::new(PrivateKey::try_from(&vals[k as usize][..]).map_err(|e| ctx(e.to_string()))?));
                if !mon::watch_add(o.addr()) {
                    return Err("watch list full".into());
                }
                slots[i as usize] = Some((o, vals[k as usize].to_vec()));
            }
            Op::GenPriv(i) => {
                let o = Obj::Priv(Box::new(PrivateKey::generate()));
                let b = o.bytes().to_vec();
                if b.len() != 32 || b.iter().all(|&x| x == 0) {
                    return Err(ctx("generated key is not 32 non-zero bytes".into()));
                }
                mon::watch_add(o.addr());
                slots[i as usize] = Some((o, b));
            }
            Op::NewPay(i, k) => {
                let o = Obj::Pay(Box::new(PayloadKey::new(&vals[k as usize])));
                mon::watch_add(o.addr());
                slots[i as usize] = Some((o, vals[k as usize].to_vec()));
            }
            Op::NewPayOdd(i, k) => {
                let o = Obj::PayOdd(Box::new((0xEE, PayloadKey::new(&vals[k as usize]))));
                mon::watch_add(o.addr());
                slots[i as usize] = Some((o, vals[k as usize].to_vec()));
            }
            Op::CloneFrom(a, b) => {
                // a.clone_from(&b): the bytes a held before must not survive in released memory
                let (src_bytes, same) = {
                    let (src, exp) = slots[b as usize].as_ref().unwrap();
                    let _ = src;
                    (exp.clone(), a == b)
                };
                if same {
                    continue;
                }
                let (mut dst, _old) = slots[a as usize].take().unwrap();
                let old_addr = dst.addr();
                let _ = mon::watch_events();
                {
                    let (src, _) = slots[b as usize].as_ref().unwrap();
                    match (&mut dst, src) {
                        (Obj::Priv(d), Obj::Priv(s2)) => (**d).clone_from(&**s2),
                        (Obj::Pay(d), Obj::Pay(s2)) => (**d).clone_from(&**s2),
                        (Obj::PayOdd(d), Obj::PayOdd(s2)) => d.1.clone_from(&s2.1),
                        _ => return Err(ctx("clone_from between different kinds".into())),
                    }
                }
                for e in mon::watch_events() {
                    if e.addr == old_addr && e.bytes.iter().any(|&x| x != 0) {
                        return Err(ctx(format!("clone_from released the destination's previous buffer with secret bytes intact: {}", hx(&e.bytes))));
                    }
                }
                if dst.bytes() != &src_bytes[..] {
                    return Err(ctx("after clone_from the destination does not hold the source's key".into()));
                }
                if dst.addr() != old_addr {
                    mon::watch_remove(old_addr);
                    mon::watch_add(dst.addr());
                }
                slots[a as usize] = Some((dst, src_bytes));
            }
            Op::Clone(a, b) => {
                let (src, exp) = slots[a as usize].as_ref().unwrap();
                let c = match src {
                    Obj::Priv(k) => Obj::Priv(Box::new((**k).clone())),
                    Obj::Pay(k) => Obj::Pay(Box::new((**k).clone())),
                    Obj::PayOdd(k) => Obj::PayOdd(Box::new((k.0, k.1.clone()))),
                };
                if c.bytes() != &exp[..] {
                    return Err(ctx("clone does not hold the key bytes".into()));
                }
                if c.addr() != src.addr() {
                    mon::watch_add(c.addr());
                }
                let e2 = exp.clone();
                slots[b as usize] = Some((c, e2));
            }
            Op::Drop(i) => {
                let (o, exp) = slots[i as usize].take().unwrap();
                release(o, &exp, "drop", &mut out).map_err(ctx)?;
            }
            Op::PanicDrop(i) => {
                let (o, exp) = slots[i as usize].take().unwrap();
                release(o, &exp, "drop during unwinding", &mut out).map_err(ctx)?;
            }
            Op::Wipe(i) => {
                use zeroize::Zeroize;
                let (o, exp) = slots[i as usize].as_mut().unwrap();
                match o {
                    Obj::Priv(k) => k.zeroize(),
                    Obj::Pay(k) => k.zeroize(),
                    Obj::PayOdd(k) => k.1.zeroize(),
                }
                if o.bytes().iter().any(|&b| b != 0) {
                    return Err(ctx("zeroize() left secret bytes in the instance".into()));
                }
                *exp = o.bytes().to_vec();
            }
            Op::Use(i) => {
                let (o, exp) = slots[i as usize].as_ref().unwrap();
                if exp.len() != 32 {
                    continue; // an explicitly wiped private key (empty) is not passed to the handshake
                }
                let r = guarded(|| match o {
                    Obj::Priv(k) => {
                        let pk = k.to_public().map_err(|e| e.to_string())?;
                        kestrel_crypto::noise_encrypt(k, &pk, &ids[2].public(), None, None, b"c20", &PayloadKey::new(&[7u8; 32])).map(|_| ()).map_err(|e| e.to_string())
                    }
                    Obj::Pay(k) => kestrel_crypto::noise_encrypt(&ids[0].private(), &ids[0].public(), &ids[2].public(), None, None, b"c20", k).map(|_| ()).map_err(|e| e.to_string()),
                    Obj::PayOdd(k) => kestrel_crypto::noise_encrypt(&ids[0].private(), &ids[0].public(), &ids[2].public(), None, None, b"c20", &k.1).map(|_| ()).map_err(|e| e.to_string()),
                });
                match r {
                    Ok(Ok(())) => {}
                    Ok(Err(e)) => return Err(ctx(format!("noise_encrypt failed: {}", e))),
                    Err(m) => return Err(ctx(format!("panic: {}", m))),
                }
                if o.bytes() != &exp[..] {
                    return Err(ctx("the original was modified by passing it to noise_encrypt".into()));
                }
            }
        }
        // every live instance still holds its bytes (zeroing the wrong copy would show here)
        for (j, s) in slots.iter().enumerate() {
            if let Some((o, exp)) = s {
                if o.bytes() != &exp[..] {
                    return Err(ctx(format!("live instance in slot {} lost its key bytes", j)));
                }
            }
        }
    }
    // release whatever is left, in slot order
    for i in 0..SLOTS {
        if let Some((o, exp)) = slots[i].take() {
            release(o, &exp, "drop", &mut out).map_err(|m| format!("final drop of slot {}: {}", i, m))?;
        }
    }
    Ok(out)
}

struct PCtx {
    rep: &'static Report,
    seed: u64,
    max_len: usize,
    ops: Vec<Op>,
    executed: AtomicU64,
    drops: AtomicU64,
    events: AtomicU64,
}

#[derive(Clone)]
struct ProgModel(Arc<PCtx>);

impl Model for ProgModel {
    type State = Vec<Op>;
    type Action = Op;
    fn init_states(&self) -> Vec<Vec<Op>> {
        vec![vec![]]
    }
    fn actions(&self, s: &Vec<Op>, a: &mut Vec<Op>) {
        if s.len() >= self.0.max_len {
            return;
        }
        for op in &self.0.ops {
            let mut p = s.clone();
            p.push(*op);
            if sim(&p).is_some() {
                a.push(*op);
            }
        }
    }
    fn next_state(&self, s: &Vec<Op>, a: Op) -> Option<Vec<Op>> {
        let mut p = s.clone();
        p.push(a);
        sim(&p).map(|_| p)
    }
    fn properties(&self) -> Vec<Property<Self>> {
        vec![Property::always("every dropped key container is released with its secret bytes zeroed", |m: &ProgModel, s: &Vec<Op>| {
            m.0.executed.fetch_add(1, Ordering::Relaxed);
            match execute(m.0.seed, s) {
                Ok(o) => {
                    m.0.drops.fetch_add(o.drops as u64, Ordering::Relaxed);
                    m.0.events.fetch_add(o.events as u64, Ordering::Relaxed);
                    true
                }
                Err(e) => {
                    m.0.rep.violation(
                        &format!("program/{}", if e.contains("intact") { "released-intact" } else if e.contains("not released") { "not-released" } else { "other" }),
                        json!({"kind":"program","ops":s.iter().map(|o| format!("{:?}", o)).collect::<Vec<_>>()}),
                        format!("program {:?}: {}", s, e),
                    );
                    false
                }
            }
        })]
    }
}

fn parse_op(s: &str) -> Op {
    for o in all_ops(2) {
        if format!("{:?}", o) == s {
            return o;
        }
    }
    crate::report::machinery("bad op in replay file")
}

/// The operations that create key containers themselves: after key_encrypt / key_decrypt have returned, no heap block
/// they allocated and left alive may still hold the payload key the library generated (recovered from the file by REF),
/// the sender's or the recipient's private key. A container that is never dropped is never wiped.
fn operations_leave_nothing(rep: &Report) {
    use crate::refspec as r;
    use crate::streams::*;
    let ids = idents(rep.seed);
    let scan = |live: &[(usize, usize)], needle: &[u8; 32]| -> Option<(usize, usize)> {
        for &(a, n) in live {
            if n >= 32 {
                let sl = unsafe { std::slice::from_raw_parts(a as *const u8, n) };
                if let Some(off) = sl.windows(32).position(|w| w == needle) {
                    return Some((n, off));
                }
            }
        }
        None
    };
    for l in [0usize, 100, 70000] {
        for auto_payload in [true, false] {
            rep.eval(2);
            rep.nontrivial(format!("ops-{}-{}", l, auto_payload).as_bytes());
            let p = plaintext(rep.seed ^ 0x20, l);
            let pay = derive32(rep.seed, "c20-ops-pay");
            let enc = Subject::KeyEnc { s: hx(&ids[0].sk), s_pub: hx(&ids[0].pk), r_pub: hx(&ids[2].pk), e: String::new(), payload: if auto_payload { String::new() } else { hx(&pay) } };
            let mut file: Vec<u8> = Vec::with_capacity(l + 4096);
            let (res, live, overflow) = crate::mon::tracked(|| {
                let mut src = &p[..];
                run_rw(&enc, &mut src, &mut file)
            });
            let case = json!({"kind":"operations","op":"key_encrypt","len":l,"payload_left_to_library":auto_payload});
            if overflow {
                crate::report::machinery("allocation tracking table overflowed in C20 operations");
            }
            if !res.is_ok() {
                rep.violation("operations/encrypt-failed", case, res.brief());
                continue;
            }
            let kf = match r::read_key_file(&ids[2].sk, &file) {
                Ok(k) => k,
                Err(e) => {
                    rep.violation("operations/not-conforming", case, format!("{:?}", e));
                    continue;
                }
            };
            for (what, needle) in [("the payload key", kf.payload_key), ("the sender's private key", ids[0].sk)] {
                if let Some((n, off)) = scan(&live, &needle) {
                    rep.violation("operations/key-left-in-live-heap-after-encrypt", case.clone(), format!("after key_encrypt returned, a {}-byte heap block it allocated is still alive and holds {} at offset {} (never dropped, hence never wiped)", n, what, off));
                }
            }
            // decrypt
            let dec = Subject::KeyDec { r: hx(&ids[2].sk), r_pub: hx(&ids[2].pk) };
            let mut out: Vec<u8> = Vec::with_capacity(l + 4096);
            let (res, live, overflow) = crate::mon::tracked(|| {
                let mut src = &file[..];
                run_rw(&dec, &mut src, &mut out)
            });
            let case = json!({"kind":"operations","op":"key_decrypt","len":l});
            if overflow {
                crate::report::machinery("allocation tracking table overflowed in C20 operations");
            }
            if !res.is_ok() {
                rep.violation("operations/decrypt-failed", case, res.brief());
                continue;
            }
            for (what, needle) in [("the payload key", kf.payload_key), ("the recipient's private key", ids[2].sk)] {
                if let Some((n, off)) = scan(&live, &needle) {
                    rep.violation("operations/key-left-in-live-heap-after-decrypt", case.clone(), format!("after key_decrypt returned, a {}-byte heap block it allocated is still alive and holds {} at offset {}", n, what, off));
                }
            }
        }
    }
}

/// Process level: when the command-line program ends — normally, with an error, or because its output pipe broke — the
/// unlocked private key must not be left in its heap. An LD_PRELOAD monitor (harness/rngshim) searches the writable heap
/// mappings for the raw key at exit() and reports hits. (A process killed by a signal runs no exit handlers: no verdict.)
/// Blocks RELEASED during an operation: with every secret of the call known (sender private key, supplied ephemeral private
/// key, supplied payload key; recipient private key for decryption), each block of at most 4 KiB that key_encrypt /
/// key_decrypt hand back to the allocator is searched for each secret at the moment it is released. A
/// container that is emptied before it is dropped (so that its wipe covers nothing) releases its buffer with the key inside.
fn operations_release_nothing(rep: &Report) {
    use crate::refspec as r;
    use crate::streams::*;
    let seed = rep.seed;
    let ids = idents(seed);
    let e = derive32(seed, "c20-freed-e");
    let pay = derive32(seed, "c20-freed-pay");
    let p = plaintext(seed ^ 0x21, 200);
    let enc = Subject::KeyEnc { s: hx(&ids[0].sk), s_pub: hx(&ids[0].pk), r_pub: hx(&ids[2].pk), e: hx(&e), payload: hx(&pay) };
    let mut file: Vec<u8> = Vec::with_capacity(8192);
    {
        let mut src = &p[..];
        let _ = run_rw(&enc, &mut src, &mut file);
    }
    let dec = Subject::KeyDec { r: hx(&ids[2].sk), r_pub: hx(&ids[2].pk) };
    let secrets: Vec<(&str, &str, [u8; 32])> = vec![
        ("key_encrypt", "the sender's private key", ids[0].sk),
        ("key_encrypt", "the supplied ephemeral private key", e),
        ("key_encrypt", "the supplied payload key", pay),
        ("key_decrypt", "the recipient's private key", ids[2].sk),
    ];
    // every container the call needs is built BEFORE the watched region (the harness's own byte vectors must not be what
    // is found), and dropped after it
    let s_priv = ids[0].private();
    let s_pub = ids[0].public();
    let r_pub = ids[2].public();
    let r_priv = ids[2].private();
    let e_priv = PrivateKey::try_from(&e[..]).unwrap();
    let e_pubk = kestrel_crypto::PublicKey::try_from(&r::x25519_base(&e)[..]).unwrap();
    let pay_k = PayloadKey::new(&pay);
    for (op, what, secret) in secrets {
        rep.eval(1);
        rep.nontrivial(format!("freed-{}-{}", op, what).as_bytes());
        let mut sink: Vec<u8> = Vec::with_capacity(8192);
        let (res, hits, size) = crate::mon::freed_with_secret(&secret, || {
            if op == "key_encrypt" {
                let mut src = &p[..];
                guarded(|| kestrel_crypto::encrypt::key_encrypt(&mut src, &mut sink, &s_priv, &s_pub, &r_pub, Some(&e_priv), Some(&e_pubk), Some(&pay_k), kestrel_crypto::AsymFileFormat::V1).is_ok())
            } else {
                let mut src = &file[..];
                guarded(|| kestrel_crypto::decrypt::key_decrypt(&mut src, &mut sink, &r_priv, &r_pub, kestrel_crypto::AsymFileFormat::V1).is_ok())
            }
        });
        if res != Ok(true) {
            rep.violation("operations/encrypt-failed", json!({"kind":"operations","op":op}), format!("{:?}", res));
        } else if hits > 0 {
            rep.violation("operations/released-with-a-key-inside", json!({"kind":"operations","op":op,"secret":what}), format!("{}: {} heap block(s) were released while still holding {} (first: a block of {} bytes)", op, hits, what, size));
        }
    }
    // (The payload key that key_decrypt recovers passes through a plain byte vector -- NoiseHandshake.message -- before it is
    // put into a PayloadKey; that transient is released unwiped on the unchanged tree. It is not one of the containers the
    // property quantifies over and is deliberately not searched for here; see DESIGN.md section 8.)
    // many instances at once (more than any small pool would hold): 12 private keys and 12 payload keys of one value -- made
    // from bytes and by cloning -- all alive together, then dropped one after the other with nothing in between; and the same
    // with a clone made between the drops. No released block may hold the value.
    for interleave in [false, true] {
        rep.eval(1);
        rep.nontrivial(format!("many-instances-{}", interleave).as_bytes());
        let v = derive32(seed, "c20-many-value");
        let mut privs: Vec<Box<PrivateKey>> = vec![];
        let mut pays: Vec<Box<PayloadKey>> = vec![];
        for i in 0..12 {
            if i % 2 == 0 {
                privs.push(Box::new(PrivateKey::try_from(&v[..]).unwrap()));
                pays.push(Box::new(PayloadKey::new(&v)));
            } else {
                privs.push(Box::new((*privs[i - 1]).clone()));
                pays.push(Box::new((*pays[i - 1]).clone()));
            }
        }
        let (_, hits, size) = crate::mon::freed_with_secret(&v, || {
            while let Some(k) = privs.pop() {
                if interleave && privs.len() % 3 == 1 {
                    let extra = Box::new((*k).clone());
                    drop(extra);
                }
                drop(k);
            }
            while let Some(k) = pays.pop() {
                drop(k);
            }
        });
        if hits > 0 {
            rep.violation("operations/released-with-a-key-inside", json!({"kind":"operations","op":"many-instances","interleave":interleave}), format!("12 private keys and 12 payload keys of one value dropped in a row{}: {} released block(s) still held the value (first: {} bytes)", if interleave { " with clones made in between" } else { "" }, hits, size));
        }
    }
    rep.extra("released_blocks_searched_for", json!(4));
}

fn cli_exit_scan(rep: &Report) {
    use crate::fx::Party;
    use crate::proc::{self, Cmd, Scratch};
    use crate::refspec as r;
    let seed = rep.seed;
    let shim = crate::c07::RNG_SHIM;
    if !std::path::Path::new(shim).exists() {
        crate::report::machinery("exit-scan shim not built");
    }
    let alice = Party::new(seed, "alice", "alicepw");
    let bob = Party::new(seed, "bob", "bobpw");
    let kr = crate::fx::keyring(&[(&alice, true), (&bob, true)]);
    let p = plaintext(seed ^ 0x21, 200_000);
    let f = r::write_key_file(&alice.sk, &bob.pk, &derive32(seed, "c20-cli-e"), &derive32(seed, "c20-cli-p"), &p, &[65536, 65536, 65536, 3392]).unwrap();
    let mut bad = f.clone();
    let n = bad.len();
    bad[n - 5] ^= 1;
    // (name, args, password, stdout closed?, expect exit 0?)
    let cases: Vec<(&str, Vec<&str>, &str, bool)> = vec![
        ("encrypt-to-file", vec!["encrypt", "plain.bin", "-t", "bob", "-f", "alice", "-k", "kr.txt", "-o", "out.bin", "--env-pass"], "alicepw", false),
        ("decrypt-to-file", vec!["decrypt", "ct.ktl", "-t", "bob", "-k", "kr.txt", "-o", "out.bin", "--env-pass"], "bobpw", false),
        ("encrypt-to-closed-pipe", vec!["encrypt", "plain.bin", "-t", "bob", "-f", "alice", "-k", "kr.txt", "--env-pass"], "alicepw", true),
        ("decrypt-to-closed-pipe", vec!["decrypt", "ct.ktl", "-t", "bob", "-k", "kr.txt", "--env-pass"], "bobpw", true),
        ("decrypt-damaged-last-chunk", vec!["decrypt", "bad.ktl", "-t", "bob", "-k", "kr.txt", "-o", "out.bin", "--env-pass"], "bobpw", false),
        ("encrypt-output-dir-missing", vec!["encrypt", "plain.bin", "-t", "bob", "-f", "alice", "-k", "kr.txt", "-o", "nodir/out.bin", "--env-pass"], "alicepw", false),
        ("encrypt-to-dev-full", vec!["encrypt", "plain.bin", "-t", "bob", "-f", "alice", "-k", "kr.txt", "-o", "/dev/full", "--env-pass"], "alicepw", false),
        ("extract-pub", vec!["key", "extract-pub", &alice.locked, "--env-pass"], "alicepw", false),
        // success paths that end differently: the sender is not in the keyring; the file is for somebody else
        ("decrypt-sender-unknown", vec!["decrypt", "ct.ktl", "-t", "bob", "-k", "kr-bob-only.txt", "-o", "out.bin", "--env-pass"], "bobpw", false),
        ("decrypt-sender-unknown-to-stdout", vec!["decrypt", "ct.ktl", "-t", "bob", "-k", "kr-bob-only.txt", "--env-pass"], "bobpw", false),
        ("decrypt-as-the-wrong-recipient", vec!["decrypt", "ct.ktl", "-t", "alice", "-k", "kr.txt", "-o", "out.bin", "--env-pass"], "alicepw", false),
        ("encrypt-to-self", vec!["encrypt", "plain.bin", "-t", "alice", "-f", "alice", "-k", "kr.txt", "-o", "out.bin", "--env-pass"], "alicepw", false),
        ("encrypt-unknown-recipient", vec!["encrypt", "plain.bin", "-t", "nobody", "-f", "alice", "-k", "kr.txt", "-o", "out.bin", "--env-pass"], "alicepw", false),
        ("encrypt-missing-input", vec!["encrypt", "nosuch.bin", "-t", "bob", "-f", "alice", "-k", "kr.txt", "-o", "out.bin", "--env-pass"], "alicepw", false),
        ("decrypt-password-file-given", vec!["decrypt", "plain.bin", "-t", "bob", "-k", "kr.txt", "-o", "out.bin", "--env-pass"], "bobpw", false),
        // a print fails AFTER the key was unlocked: stdout is /dev/full or a pipe without a reader for the commands that print
        // a key, the reader of stderr is gone from the start for the commands that print progress
        ("extract-pub-stdout-dev-full", vec!["key", "extract-pub", "LOCKED-ALICE", "--env-pass"], "alicepw", false),
        ("change-pass-stdout-dev-full", vec!["key", "change-pass", "LOCKED-ALICE", "--env-pass"], "alicepw", false),
        ("extract-pub-stdout-closed-pipe", vec!["key", "extract-pub", "LOCKED-ALICE", "--env-pass"], "alicepw", true),
        ("encrypt-stderr-reader-gone", vec!["encrypt", "plain.bin", "-t", "bob", "-f", "alice", "-k", "kr.txt", "-o", "out.bin", "--env-pass"], "alicepw", false),
        ("decrypt-stderr-reader-gone", vec!["decrypt", "ct.ktl", "-t", "bob", "-k", "kr.txt", "-o", "out.bin", "--env-pass"], "bobpw", false),
        // the reader of stderr (a log collector) goes away after the progress text: printing the final status fails
        // (the input comes on stdin and is held back until that reader has left, so the order of events is fixed)
        ("encrypt-stderr-reader-leaves", vec!["encrypt", "-t", "bob", "-f", "alice", "-k", "kr.txt", "-o", "out.bin", "--env-pass"], "alicepw", false),
        ("decrypt-stderr-reader-leaves", vec!["decrypt", "-t", "bob", "-k", "kr.txt", "-o", "out.bin", "--env-pass"], "bobpw", false),
    ];
    let kr_bob_only = crate::fx::keyring(&[(&bob, true)]);
    use rayon::prelude::*;
    cases.par_iter().for_each(|(name, args, pw, closed)| {
        rep.eval(1);
        rep.nontrivial(format!("cli-exit-scan-{}", name).as_bytes());
        let attempt = || -> Result<(), String> {
            let sc = Scratch::new();
            sc.write("kr.txt", kr.as_bytes());
            sc.write("kr-bob-only.txt", kr_bob_only.as_bytes());
            sc.write("plain.bin", &p);
            sc.write("ct.ktl", &f);
            sc.write("bad.ktl", &bad);
            let log = sc.path("scan.log");
            let args: Vec<&str> = args.iter().map(|a| if *a == "LOCKED-ALICE" { alice.locked.as_str() } else { *a }).collect();
            let args = &args;
            let mut c = Cmd::new(args).env("KESTREL_PASSWORD", pw).env("KESTREL_NEW_PASSWORD", "another").env("LD_PRELOAD", shim).env("KV_SCAN_HEX", &format!("{},{}", hx(&alice.sk), hx(&bob.sk))).env("KV_SCAN_LOG", log.to_str().unwrap());
            c.stdout_closed_pipe = *closed;
            if name.ends_with("stdout-dev-full") {
                c.stdout_file = Some("/dev/full".into());
            }
            if name.ends_with("stderr-reader-gone") {
                c.stderr_reader_leaves_after = Some(0);
            }
            if name.ends_with("stderr-reader-leaves") {
                c.stderr_reader_leaves_after = Some(13); // "Encrypting..." / "Decrypting..."
                c = c.stdin(if name.starts_with("encrypt") { &p } else { &f });
            }
            let out = proc::run(&c, &sc.0);
            if let Some(sig) = out.signal {
                // killed by a signal of its own making (abort, segfault) while the key was unlocked: no destructor ran
                if [4, 6, 7, 8, 11].contains(&sig) {
                    return Err(format!("the process died by signal {} with the private key unlocked: no destructor ran, the key was released unwiped", sig));
                }
                return Ok(());
            }
            if out.timed_out {
                return Ok(()); // no exit handlers ran: nothing observed
            }
            let text = String::from_utf8_lossy(&std::fs::read(&log).unwrap_or_default()).to_string();
            if !text.contains("scan-done") {
                return Err(format!("MACHINERY: the exit-time monitor did not run ({}): {:?}", out.summary(), text));
            }
            let hits: Vec<&str> = text.lines().filter(|l| l.starts_with("hit")).collect();
            if !hits.is_empty() {
                return Err(format!("the process ended (exit status {:?}) with the raw private key still in its heap: {} hit(s), first: {} (secret 0 = sender alice, 1 = recipient bob)", out.code, hits.len(), hits[0]));
            }
            Ok(())
        };
        if let Err(e) = attempt() {
            if e.starts_with("MACHINERY") {
                crate::report::machinery(&e);
            }
            if let Err(e2) = attempt() {
                rep.violation(&format!("cli-exit/{}", name), json!({"kind":"cli-exit","name":name}), format!("kestrel {}: {}", name, e2));
            }
        }
    });
    rep.extra("cli_exit_scan_cases", json!(cases.len()));
}

/// `kv c20-envchild <seed> <max_ops>`: the program space again (all programs of <= max_ops operations) in a process for
/// which memory locking fails: RLIMIT_MEMLOCK = 0 and, after giving up root (uid/gid nobody), no CAP_IPC_LOCK. Prints one
/// line per violating program (`V <json>`) and a final `DONE <programs> <drops> <events> <mlock-fails>`.
pub fn envchild_main(a: &[String]) -> ! {
    let seed: u64 = a[0].parse().unwrap_or(1);
    let max_ops: usize = a[1].parse().unwrap_or(3);
    std::panic::set_hook(Box::new(|_| {})); // programs contain deliberate panics (drop during unwinding)
    let mlock_fails = unsafe {
        let rl = libc::rlimit { rlim_cur: 0, rlim_max: 0 };
        libc::setrlimit(libc::RLIMIT_MEMLOCK, &rl);
        libc::setgroups(0, std::ptr::null());
        libc::setgid(65534);
        libc::setuid(65534);
        let probe = vec![0u8; 4096];
        let rc = libc::mlock(probe.as_ptr() as *const libc::c_void, probe.len());
        if rc == 0 {
            libc::munlock(probe.as_ptr() as *const libc::c_void, probe.len());
        }
        rc != 0
    };
    let ops = all_ops(2);
    let mut stack: Vec<Vec<Op>> = vec![vec![]];
    let (mut programs, mut drops, mut events) = (0u64, 0u64, 0u64);
    let mut shown = 0;
    while let Some(p) = stack.pop() {
        if !p.is_empty() {
            programs += 1;
            match execute(seed, &p) {
                Ok(o) => {
                    drops += o.drops as u64;
                    events += o.events as u64;
                }
                Err(e) => {
                    if shown < 20 {
                        println!("V {}", json!({"ops":p.iter().map(|o| format!("{:?}", o)).collect::<Vec<_>>(),"what":e}));
                        shown += 1;
                    }
                    continue; // do not extend a violating program
                }
            }
        }
        if p.len() < max_ops {
            for op in &ops {
                let mut q = p.clone();
                q.push(*op);
                if sim(&q).is_some() {
                    stack.push(q);
                }
            }
        }
    }
    println!("DONE {} {} {} {}", programs, drops, events, mlock_fails);
    std::process::exit(0);
}

/// The program space under an environment in which locking memory fails (see envchild_main): a container that wipes only
/// through a guard it could not set up would show here.
fn under_failing_mlock(rep: &Report) {
    let exe = std::env::current_exe().unwrap_or_else(|_| crate::report::machinery("current_exe"));
    let max_ops = rep.tier.pick(3usize, 4);
    let o = match std::process::Command::new(&exe).args(["c20-envchild", &rep.seed.to_string(), &max_ops.to_string()]).stdin(std::process::Stdio::null()).stderr(std::process::Stdio::piped()).output() {
        Ok(o) => o,
        Err(e) => crate::report::machinery(&format!("cannot start the C20 environment child: {}", e)),
    };
    let text = String::from_utf8_lossy(&o.stdout).to_string();
    let done = text.lines().find_map(|l| l.strip_prefix("DONE "));
    for l in text.lines().filter_map(|l| l.strip_prefix("V ")) {
        let v: Value = serde_json::from_str(l).unwrap_or(json!({}));
        rep.violation("program-with-failing-mlock/released-intact", json!({"kind":"mlock","ops":v["ops"]}), format!("in a process where mlock fails, program {}: {}", v["ops"], v["what"].as_str().unwrap_or("")));
    }
    match done {
        Some(d) => {
            let f: Vec<&str> = d.split(' ').collect();
            let n: u64 = f[0].parse().unwrap_or(0);
            rep.eval(n);
            rep.add_distinct(n);
            rep.extra("programs_under_failing_mlock", json!({"max_ops":max_ops,"programs":n,"instances_dropped":f[1],"release_events_observed":f[2],"mlock_really_fails_there":f[3]}));
            if f[1] != f[2] && !text.lines().any(|l| l.starts_with("V ")) {
                crate::report::machinery(&format!("vacuous environment-child run: {}", d));
            }
        }
        None => {
            use std::os::unix::process::ExitStatusExt;
            rep.violation("program-with-failing-mlock/died", json!({"kind":"mlock"}), format!("the process enumerating the programs under a failing mlock ended early (signal {:?}, exit {:?}): {}", o.status.signal(), o.status.code(), String::from_utf8_lossy(&o.stderr).lines().last().unwrap_or("")));
        }
    }
}

pub fn run(rep: &'static Report) {
    rep.set_rule("E-GRAPH over programs: breadth-first search (stateright) over all programs of <= 4 (quick) / 5 (thorough) operations on 3 slots from {PrivateKey::try_from, PrivateKey::generate, PayloadKey::new (8-aligned box and odd address), clone, clone_from, drop, drop during panic unwinding, pass to noise_encrypt} with two key values (one containing zero bytes); every program is executed from scratch on the real containers (boxed, so the secret bytes always live in a heap block) under an allocator that copies the watched 32 bytes at the moment their block is deallocated. distinct non-trivial = programs that drop at least one instance");
    rep.rule_add("All programs of <= 3 (thorough 4) operations again in a child process in which mlock fails (RLIMIT_MEMLOCK 0, no privileges).");
    rep.rule_add("live-heap search after key_encrypt / key_decrypt (3 lengths x payload supplied or not); LD_PRELOAD exit-time heap monitor over 8 CLI wirings; a labelled two-thread sampling pass.");
    rep.assume("copies left on the stack by moves and non-container temporaries are out of scope (the property is about the containers); erasure is observed as far as this build profile (release) performs it");
    let max_len = rep.tier.pick(4, 5);
    let ctx = Arc::new(PCtx { rep, seed: rep.seed, max_len, ops: all_ops(2), executed: AtomicU64::new(0), drops: AtomicU64::new(0), events: AtomicU64::new(0) });
    let checker = ProgModel(ctx.clone()).checker().threads(rayon::current_num_threads()).spawn_bfs().join();
    for (name, path) in checker.discoveries() {
        println!("  counterexample for '{}': program {:?}", name, path.into_actions());
    }
    let states = checker.unique_state_count() as u64;
    rep.states.fetch_add(states, Ordering::Relaxed);
    rep.transitions.fetch_add(checker.state_count() as u64, Ordering::Relaxed);
    let ex = ctx.executed.load(Ordering::Relaxed);
    rep.traces_validated.fetch_add(ex, Ordering::Relaxed);
    rep.eval(ex);
    rep.add_distinct(states.saturating_sub(1));
    let (d, e) = (ctx.drops.load(Ordering::Relaxed), ctx.events.load(Ordering::Relaxed));
    rep.extra("program_space", json!({"max_ops":max_len,"slots":SLOTS,"alphabet":ctx.ops.len(),"programs_executed":ex,"instances_dropped":d,"release_events_observed":e}));
    if rep.violation_count() == 0 && (d == 0 || d != e) {
        crate::report::machinery(&format!("vacuous run: {} drops, {} release events", d, e));
    }
    operations_leave_nothing(rep);
    operations_release_nothing(rep);
    cli_exit_scan(rep);
    under_failing_mlock(rep);
    // Supplementary, NOT exhaustive (sampling, labelled as such): the containers contain no synchronisation operation, so there
    // is no interleaving space for a controlled scheduler; this free-running pass drops an original and its clone at the same
    // moment on two threads and inspects the released memory (a shared/ref-counted representation would race here).
    {
        use std::sync::atomic::{AtomicBool, AtomicUsize};
        let trials = rep.tier.pick(3000usize, 20000);
        let vals = key_values(rep.seed);
        let leaked = AtomicUsize::new(0);
        let observed = AtomicUsize::new(0);
        for kind in 0..2 {
            for t in 0..trials {
                let go = Arc::new(AtomicBool::new(false));
                let ready = Arc::new(AtomicUsize::new(0));
                let mk = |first: bool| -> Obj {
                    let _ = first;
                    if kind == 0 {
                        Obj::Priv(Box::new(PrivateKey::try_from(&vals[t % 2][..]).unwrap()))
                    } else {
                        Obj::Pay(Box::new(PayloadKey::new(&vals[t % 2])))
                    }
                };
                let a = mk(true);
                let b = match &a {
                    Obj::Priv(k) => Obj::Priv(Box::new((**k).clone())),
                    Obj::Pay(k) => Obj::Pay(Box::new((**k).clone())),
                    Obj::PayOdd(k) => Obj::PayOdd(Box::new((k.0, k.1.clone()))),
                };
                let expect = vals[t % 2];
                std::thread::scope(|sc| {
                    for o in [a, b] {
                        let (go, ready, leaked, observed) = (go.clone(), ready.clone(), &leaked, &observed);
                        sc.spawn(move || {
                            mon::watch_clear();
                            let addr = o.addr();
                            mon::watch_add(addr);
                            ready.fetch_add(1, Ordering::SeqCst);
                            while !go.load(Ordering::SeqCst) {
                                std::hint::spin_loop();
                            }
                            drop(o);
                            for e in mon::watch_events() {
                                if e.addr == addr {
                                    observed.fetch_add(1, Ordering::Relaxed);
                                    if e.bytes == expect {
                                        leaked.fetch_add(1, Ordering::Relaxed);
                                    }
                                }
                            }
                        });
                    }
                    while ready.load(Ordering::SeqCst) < 2 {
                        std::hint::spin_loop();
                    }
                    go.store(true, Ordering::SeqCst);
                });
            }
        }
        let l = leaked.load(Ordering::Relaxed);
        rep.extra("concurrent_drop_sampling", json!({"label":"sampling, supplementary (not the deciding step)","trials_per_kind":trials,"releases_observed":observed.load(Ordering::Relaxed),"released_with_key_intact":l}));
        if l > 0 {
            rep.violation("concurrent/released-intact", json!({"kind":"concurrent"}), format!("original and clone dropped concurrently on two threads: {} buffer(s) were released with the key intact", l));
        }
    }
    rep.sample(json!({"program":["NewPriv(0, 1)","Clone(0, 1)","Drop(0)","Use(1)","PanicDrop(1)"],"key":"value with zero bytes inside","expect":"both releases show 32 zero bytes; the clone still holds the key after the original is dropped"}));
    rep.sample(json!({"program":["NewPay(2, 0)","Clone(2, 0)","Drop(2)"],"expect":"inline 32 bytes of the boxed PayloadKey zeroed at release"}));
    rep.set_exhaustive(true);
}

pub fn replay(rep: &'static Report, case: &Value) {
    if case["kind"] == "mlock" {
        under_failing_mlock(rep);
        return;
    }
    if case["kind"] == "cli-exit" {
        cli_exit_scan(rep);
        return;
    }
    if case["kind"] == "operations" {
        operations_leave_nothing(rep);
        return;
    }
    if case["kind"] == "concurrent" {
        println!("  re-running C20 (the concurrent pass is sampling; its verdict may need several runs)");
        run(rep);
        return;
    }
    let ops: Vec<Op> = case["ops"].as_array().unwrap().iter().map(|o| parse_op(o.as_str().unwrap())).collect();
    let r1 = execute(rep.seed, &ops).map(|o| (o.drops, o.events));
    let r2 = execute(rep.seed, &ops).map(|o| (o.drops, o.events));
    if r1.is_ok() != r2.is_ok() {
        crate::report::machinery("replay not deterministic");
    }
    match r1 {
        Ok((d, e)) => println!("  program {:?}: {} drops, {} zeroed releases observed", ops, d, e),
        Err(e) => rep.violation("program/replay", case.clone(), e),
    }
}
