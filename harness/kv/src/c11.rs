//! C11 — streaming: constant memory, incremental output (E-GRID + MON; CLI supplementary).
use crate::fx::Party;
use crate::mon;
use crate::proc::{Scratch, KESTREL};
use crate::refspec as r;
use crate::report::{Report, Tier};
use crate::streams::*;
use crate::util::*;
use serde_json::{json, Value};
use std::cell::Cell;
use std::io::{Read, Write};
use std::rc::Rc;

const CS: usize = 65536;

#[inline]
fn pbyte(i: usize) -> u8 {
    ((i as u32).wrapping_mul(2654435761) >> 11) as u8 ^ (i as u8)
}

/// non-allocating plaintext source handing out `piece` bytes per read
struct GenReader {
    pos: usize,
    len: usize,
    piece: usize,
    handed: Rc<Cell<usize>>,
    reads: Rc<Cell<usize>>,
}
impl Read for GenReader {
    fn read(&mut self, buf: &mut [u8]) -> std::io::Result<usize> {
        let n = buf.len().min(self.len - self.pos).min(self.piece);
        for (k, b) in buf[..n].iter_mut().enumerate() {
            *b = pbyte(self.pos + k);
        }
        self.pos += n;
        self.handed.set(self.pos);
        if n > 0 {
            self.reads.set(self.reads.get() + 1);
        }
        Ok(n)
    }
}

/// ciphertext sink for the encrypt direction: parses the record framing on the fly and checks the lag
/// clause at every record completion; keeps only counters.
struct LagSink {
    header_left: usize,
    hdr: [u8; 16],
    hdr_have: usize,
    body_left: usize,
    plain_done: usize,
    records: usize,
    total: usize,
    handed: Rc<Cell<usize>>,
    reads: Rc<Cell<usize>>,
    max_rec: usize,
    max_lag: usize,
    /// worst lag measured in chunks: (reads of input beyond the completed records, bytes beyond, largest record so far)
    worst_chunks: (usize, usize, usize),
    first_write_at: Option<usize>,
    bad: Option<String>,
}
impl Write for LagSink {
    fn write(&mut self, mut buf: &[u8]) -> std::io::Result<usize> {
        let n = buf.len();
        if self.first_write_at.is_none() && n > 0 {
            self.first_write_at = Some(self.handed.get());
        }
        self.total += n;
        while !buf.is_empty() {
            if self.header_left > 0 {
                let k = self.header_left.min(buf.len());
                self.header_left -= k;
                buf = &buf[k..];
            } else if self.body_left > 0 {
                let k = self.body_left.min(buf.len());
                self.body_left -= k;
                buf = &buf[k..];
                if self.body_left == 0 {
                    // record complete
                    self.records += 1;
                    let lag = self.handed.get().saturating_sub(self.plain_done);
                    self.max_lag = self.max_lag.max(lag);
                    let lag_reads = self.reads.get().saturating_sub(self.records);
                    if lag_reads > 2 && lag > 2 * self.max_rec.max(1) && lag_reads > self.worst_chunks.0 {
                        self.worst_chunks = (lag_reads, lag, self.max_rec);
                    }
                }
            } else {
                let k = (16 - self.hdr_have).min(buf.len());
                self.hdr[self.hdr_have..self.hdr_have + k].copy_from_slice(&buf[..k]);
                self.hdr_have += k;
                buf = &buf[k..];
                if self.hdr_have == 16 {
                    let len = u32::from_be_bytes(self.hdr[12..16].try_into().unwrap()) as usize;
                    if len > CS {
                        self.bad = Some(format!("record with length field {}", len));
                        return Ok(n);
                    }
                    self.plain_done += len;
                    self.max_rec = self.max_rec.max(len);
                    self.body_left = len + 16;
                    self.hdr_have = 0;
                }
            }
        }
        Ok(n)
    }
    fn flush(&mut self) -> std::io::Result<()> {
        Ok(())
    }
}

/// lazily generated conforming ciphertext (REF) of `len` plaintext bytes in chunks of `chunk` bytes
struct CtReader {
    header: Vec<u8>,
    hpos: usize,
    key: [u8; 32],
    aad: Vec<u8>,
    len: usize,
    chunk: usize,
    next_plain: usize,
    idx: u64,
    cur: Vec<u8>,
    cpos: usize,
    done: bool,
    /// plaintext-equivalent bytes handed out (end of the last record touched)
    handed_plain: Rc<Cell<usize>>,
    /// number of records handed out completely or partially
    handed_recs: Rc<Cell<usize>>,
}
impl Read for CtReader {
    fn read(&mut self, buf: &mut [u8]) -> std::io::Result<usize> {
        if self.hpos < self.header.len() {
            let n = buf.len().min(self.header.len() - self.hpos);
            buf[..n].copy_from_slice(&self.header[self.hpos..self.hpos + n]);
            self.hpos += n;
            return Ok(n);
        }
        if self.cpos == self.cur.len() {
            if self.done {
                return Ok(0);
            }
            let l = self.chunk.min(self.len - self.next_plain);
            let last = self.next_plain + l == self.len;
            let mut p = vec![0u8; l];
            for (k, b) in p.iter_mut().enumerate() {
                *b = pbyte(self.next_plain + k);
            }
            self.cur = r::seal_conforming(&self.key, &self.aad, self.idx, last, &p).bytes();
            self.cpos = 0;
            self.idx += 1;
            self.next_plain += l;
            self.done = last;
        }
        let n = buf.len().min(self.cur.len() - self.cpos);
        buf[..n].copy_from_slice(&self.cur[self.cpos..self.cpos + n]);
        self.cpos += n;
        self.handed_plain.set(self.next_plain);
        self.handed_recs.set(self.idx as usize);
        Ok(n)
    }
}

/// plaintext sink for the decrypt direction: verifies bytes, checks the lag at every write
struct PlainSink {
    total: usize,
    len: usize,
    chunk: usize,
    handed_plain: Rc<Cell<usize>>,
    handed_recs: Rc<Cell<usize>>,
    max_lag: usize,
    /// worst lag in records at chunk-completion moments
    max_lag_recs: usize,
    /// bytes that had been written when flush was last called: what a buffering destination has really received
    flushed: usize,
    bad: Option<String>,
}
impl Write for PlainSink {
    fn write(&mut self, buf: &[u8]) -> std::io::Result<usize> {
        for (k, b) in buf.iter().enumerate() {
            if *b != pbyte(self.total + k) {
                self.bad = Some(format!("wrong plaintext byte at {}", self.total + k));
                break;
            }
        }
        // a destination that buffers until flush has, at this moment, received only what was flushed: records consumed
        // beyond the last record it has received in full
        if self.chunk > 0 && !buf.is_empty() {
            let received_recs = self.flushed / self.chunk;
            let behind = self.handed_recs.get().saturating_sub(received_recs + 1);
            self.max_lag_recs = self.max_lag_recs.max(behind.saturating_sub(1));
        }
        self.total += buf.len();
        let lag = self.handed_plain.get().saturating_sub(self.total);
        self.max_lag = self.max_lag.max(lag);
        if self.chunk > 0 && !buf.is_empty() {
            // chunks whose output completed with this write: first..last; the first one waited longest:
            // how many records beyond it had been consumed when its last byte was accepted?
            let before = self.total - buf.len();
            let first = before / self.chunk; // index of the chunk containing the first byte written
            let completes_first = self.total >= ((first + 1) * self.chunk).min(self.len);
            if completes_first {
                self.max_lag_recs = self.max_lag_recs.max(self.handed_recs.get().saturating_sub(first + 1));
            }
        }
        Ok(buf.len())
    }
    fn flush(&mut self) -> std::io::Result<()> {
        self.flushed = self.total;
        Ok(())
    }
}

#[derive(Clone, Debug)]
struct Point {
    dir: &'static str,
    via: &'static str,
    size: usize,
    piece: usize,
    peak: usize,
    big: usize,
    max_lag: usize,
    /// lag in chunks (0 if within two chunks), with a description
    lag_chunks: usize,
}

fn measure_point(rep: &Report, dir: &'static str, via: &'static str, size: usize, piece: usize, ids: &[Ident], pwkey: &([u8; 32], [u8; 32])) -> Option<Point> {
    rep.eval(1);
    let case = json!({"kind":"point","dir":dir,"via":via,"size":size,"piece":piece});
    let tkey = derive32(1, "c11-tiny");
    if dir == "enc" {
        let handed = Rc::new(Cell::new(0));
        let reads = Rc::new(Cell::new(0));
        let mut src = GenReader { pos: 0, len: size, piece, handed: handed.clone(), reads: reads.clone() };
        let (sub, hlen) = match via {
            "loop" => (Subject::TinyEnc { key: hx(&tkey), aad: String::new(), cs: CS as u32 }, 0),
            "key" => (Subject::KeyEnc { s: hx(&ids[0].sk), s_pub: hx(&ids[0].pk), r_pub: hx(&ids[2].pk), e: String::new(), payload: String::new() }, 132),
            _ => (Subject::PassEnc { pw: hx(b"c11 pw"), salt: hx(&pwkey.1) }, 36),
        };
        let mut sink = LagSink { header_left: hlen, hdr: [0; 16], hdr_have: 0, body_left: 0, plain_done: 0, records: 0, total: 0, handed, reads, max_rec: 0, max_lag: 0, worst_chunks: (0, 0, 0), first_write_at: None, bad: None };
        let (res, m) = mon::measured(|| run_rw(&sub, &mut src, &mut sink));
        if !res.is_ok() {
            rep.violation("mem/op-failed", case, format!("{} {} of {} bytes failed: {}", via, dir, size, res.brief()));
            return None;
        }
        if let Some(b) = &sink.bad {
            rep.violation("mem/bad-output", case, b.clone());
            return None;
        }
        if sink.plain_done != size || sink.total != hlen + size + 32 * sink.records {
            rep.violation("mem/output-incomplete", case, format!("output accounts for {} of {} plaintext bytes", sink.plain_done, size));
            return None;
        }
        Some(Point { dir, via, size, piece, peak: m.peak_above_mark, big: m.big_count, max_lag: sink.max_lag, lag_chunks: sink.worst_chunks.0 })
    } else {
        let handed = Rc::new(Cell::new(0));
        let hrecs = Rc::new(Cell::new(0));
        let (sub, header, key, aad): (Subject, Vec<u8>, [u8; 32], Vec<u8>) = match via {
            "loop" => (Subject::TinyDec { key: hx(&tkey), aad: String::new(), cs: CS as u32 }, vec![], tkey, vec![]),
            "key" => {
                let pay = derive32(1, "c11-pay");
                let m = r::noise_x_write(&r::XRoles::honest(&r::KEY_MAGIC, &ids[0].sk, &ids[2].pk, &derive32(1, "c11-e")), &pay).unwrap();
                let mut h = r::KEY_MAGIC.to_vec();
                h.extend_from_slice(&m.message);
                (Subject::KeyDec { r: hx(&ids[2].sk), r_pub: hx(&ids[2].pk) }, h, r::file_key_from_handshake(&pay, &m.h), vec![])
            }
            _ => {
                let mut h = r::PASS_MAGIC.to_vec();
                h.extend_from_slice(&pwkey.1);
                (Subject::PassDec { pw: hx(b"c11 pw") }, h, pwkey.0, r::PASS_MAGIC.to_vec())
            }
        };
        let mut src = CtReader { header, hpos: 0, key, aad, len: size, chunk: piece.min(CS), next_plain: 0, idx: 0, cur: vec![], cpos: 0, done: false, handed_plain: handed.clone(), handed_recs: hrecs.clone() };
        let mut sink = PlainSink { total: 0, len: size, chunk: piece.min(CS), handed_plain: handed, handed_recs: hrecs, max_lag: 0, max_lag_recs: 0, flushed: 0, bad: None };
        let (res, m) = mon::measured(|| run_rw(&sub, &mut src, &mut sink));
        if !res.is_ok() {
            rep.violation("mem/op-failed", case, format!("{} {} of {} bytes failed: {}", via, dir, size, res.brief()));
            return None;
        }
        if sink.bad.is_some() || sink.total != size {
            rep.violation("mem/bad-output", case, format!("{:?}; {} of {} bytes", sink.bad, sink.total, size));
            return None;
        }
        Some(Point { dir, via, size, piece, peak: m.peak_above_mark, big: m.big_count, max_lag: sink.max_lag, lag_chunks: if sink.max_lag_recs > 2 { sink.max_lag_recs } else { 0 } })
    }
}

pub fn run(rep: &'static Report) {
    let seed = rep.seed;
    rep.set_rule("E-GRID + MON: both directions x {hooked loop at production chunk size, key mode, password mode} x input sizes n*cs+d (n in {0,1,2,3,4,8,16,64}, thorough adds 1024 and 16384 = 1 GiB; d in {0,1}) x {full reads / 64 KiB chunks, 1 KiB pieces / 1 KiB chunks}, from non-allocating synthetic sources into counting sinks; peak live heap per call from the counting allocator and the read/write lag at every chunk completion. distinct non-trivial = distinct (direction, via, size, piece) points with >= 2 chunks");
    rep.rule_add("Input trickling in as 300 pieces of 200 bytes with -o FILE: the file holds all but the last three pieces' worth before stdin is closed (4 commands). The in-process lag is measured against what had been FLUSHED.");
    rep.rule_add("A damaged later chunk followed by 1/64/512(2048) more chunks: same peak heap, at most 4 records taken after it. FILE and -o naming one file through ./, a hard link, a symlink: peak RSS stays at the baseline.");
    rep.rule_add("Input as a regular FILE with stdout blocked: the input descriptor's offset (/proc/PID/fdinfo) once the program rests in its blocked write, all four commands, 48-chunk files.");
    rep.rule_add("CLI streams through stdin/stdout, FIFO, -o fresh/pre-existing (growth polled), non-blocking stdout with a stalled reader; streams of 16 vs 256/1024 chunks of pairwise different lengths.");
    rep.assume("extrapolation beyond the largest size rests on the loop state being independent of the chunk index; the synthetic decrypt source allocates one record at a time (constant, included in the measured peak)");
    let ids = idents(seed);
    let salt = derive32(seed, "c11-salt");
    let pwkey = (r::pass_key(b"c11 pw", &salt), salt);
    let mut ns: Vec<usize> = vec![0, 1, 2, 3, 4, 8, 16, 64];
    if rep.tier == Tier::Thorough {
        ns.push(1024);
        ns.push(16384);
    }
    let mut points: Vec<Point> = vec![];
    // measurements run on this thread only (per-thread accounting), sequentially
    for dir in ["enc", "dec"] {
        for via in ["loop", "key", "pass"] {
            for &n in &ns {
                for d in [0usize, 1] {
                    for piece in [CS, 1024] {
                        let size = n * CS + d;
                        if n >= 1024 && (via != "loop" || piece != CS || d != 1) && !(n == 1024 && piece == 1024 && d == 0) {
                            continue; // the 1 GiB / 64 MiB-in-1KiB runs once per direction through the loop
                        }
                        if piece == 1024 && n > 64 && n != 1024 {
                            continue;
                        }
                        if let Some(p) = measure_point(rep, dir, via, size, piece, &ids, &pwkey) {
                            if size >= 2 * piece.min(CS) {
                                rep.nontrivial(format!("{}-{}-{}-{}", dir, via, size, piece).as_bytes());
                            }
                            points.push(p);
                        }
                    }
                }
            }
        }
    }
    // oracle (i): independence of the input length, absolute cap
    for dir in ["enc", "dec"] {
        for via in ["loop", "key", "pass"] {
            for piece in [CS, 1024] {
                let grp: Vec<&Point> = points.iter().filter(|p| p.dir == dir && p.via == via && p.piece == piece && p.size >= 2 * CS).collect();
                if grp.len() < 2 {
                    continue;
                }
                let lo = grp.iter().map(|p| p.peak).min().unwrap();
                let hi = grp.iter().map(|p| p.peak).max().unwrap();
                let cap = if via == "pass" { (33 << 20) + (1 << 20) } else { 1 << 20 };
                let case = json!({"kind":"group","dir":dir,"via":via,"piece":piece,"peaks":grp.iter().map(|p| json!([p.size, p.peak])).collect::<Vec<_>>()});
                if hi - lo > 4096 {
                    let worst = grp.iter().max_by_key(|p| p.peak).unwrap();
                    rep.violation(
                        &format!("mem/grows-with-input-{}-{}", dir, via),
                        case.clone(),
                        format!("peak heap of {} ({}, {}-byte pieces) depends on the input length: {} bytes for the smallest vs {} bytes for a {}-byte input", dir, via, piece, lo, hi, worst.size),
                    );
                }
                if hi > cap {
                    rep.violation(&format!("mem/over-cap-{}-{}", dir, via), case, format!("peak heap {} exceeds the cap {}", hi, cap));
                }
                if via == "pass" && grp.iter().any(|p| p.big != 1) {
                    rep.violation("mem/scrypt-allocations", json!({"kind":"group","dir":dir,"via":via}), "password mode must perform exactly one >=16 MiB allocation (scrypt V) per call".into());
                }
                rep.extra(&format!("peak_{}_{}_{}", dir, via, piece), json!({"min":lo,"max":hi,"sizes":grp.len()}));
            }
        }
    }
    // rejecting trailing data must not buffer it: valid 1-chunk stream + N bytes of garbage
    {
        let tkey = derive32(1, "c11-tiny");
        let body = r::write_chunks(&tkey, &[], &(0..1000).map(pbyte).collect::<Vec<u8>>(), &[1000]);
        let mut peaks = vec![];
        for n in [1usize, 1 << 20, rep.tier.pick(16 << 20, 128 << 20)] {
            rep.eval(1);
            struct Tail<'a> {
                head: &'a [u8],
                pos: usize,
                extra: usize,
            }
            impl<'a> Read for Tail<'a> {
                fn read(&mut self, buf: &mut [u8]) -> std::io::Result<usize> {
                    let total = self.head.len() + self.extra;
                    let k = buf.len().min(total - self.pos);
                    for (i, b) in buf[..k].iter_mut().enumerate() {
                        let p = self.pos + i;
                        *b = if p < self.head.len() { self.head[p] } else { 0x77 };
                    }
                    self.pos += k;
                    Ok(k)
                }
            }
            let mut src = Tail { head: &body, pos: 0, extra: n };
            let mut sink = std::io::sink();
            let sub = Subject::TinyDec { key: hx(&tkey), aad: String::new(), cs: CS as u32 };
            let (res, m) = mon::measured(|| run_rw(&sub, &mut src, &mut sink));
            if res.is_ok() {
                rep.violation("trailing/accepted", json!({"kind":"trailing","n":n}), format!("stream followed by {} bytes of trailing data accepted", n));
            }
            peaks.push((n, m.peak_above_mark));
            rep.nontrivial(format!("trailing-{}", n).as_bytes());
        }
        let lo = peaks.iter().map(|p| p.1).min().unwrap();
        let hi = peaks.iter().map(|p| p.1).max().unwrap();
        if hi - lo > 4096 {
            rep.violation("mem/grows-with-trailing-data", json!({"kind":"trailing","peaks":peaks.iter().map(|p| json!([p.0,p.1])).collect::<Vec<_>>()}), format!("peak heap while rejecting trailing data depends on its amount: {:?}", peaks));
        }
        rep.extra("peak_dec_trailing_data", json!(peaks.iter().map(|p| json!([p.0,p.1])).collect::<Vec<_>>()));
    }
    // a later chunk fails to authenticate while much data is still behind it: rejecting must not take that data in.
    // Authentic chunks 0..k-1, chunk k with one bit changed, then N more (authentic) chunks; peak heap and the number of
    // bytes consumed after the bad chunk are the same for N = 1, 64 and 512 (thorough 2048)
    {
        let tkey = derive32(1, "c11-tiny");
        let mut peaks = vec![];
        for nafter in [1usize, 64, rep.tier.pick(512, 2048)] {
            for kbad in [1usize, 3] {
                rep.eval(1);
                struct Damaged {
                    key: [u8; 32],
                    idx: u64,
                    bad: u64,
                    total: u64,
                    cur: Vec<u8>,
                    cpos: usize,
                    taken_after_bad: usize,
                }
                impl Read for Damaged {
                    fn read(&mut self, buf: &mut [u8]) -> std::io::Result<usize> {
                        if self.cpos == self.cur.len() {
                            if self.idx == self.total {
                                return Ok(0);
                            }
                            let p: Vec<u8> = (0..CS).map(|i| pbyte(self.idx as usize * CS + i)).collect();
                            self.cur = r::seal_conforming(&self.key, &[], self.idx, self.idx + 1 == self.total, &p).bytes();
                            if self.idx == self.bad {
                                self.cur[100] ^= 1;
                            }
                            self.cpos = 0;
                            self.idx += 1;
                        }
                        let n = buf.len().min(self.cur.len() - self.cpos);
                        buf[..n].copy_from_slice(&self.cur[self.cpos..self.cpos + n]);
                        self.cpos += n;
                        if self.idx > self.bad + 1 {
                            self.taken_after_bad += n;
                        }
                        Ok(n)
                    }
                }
                let mut src = Damaged { key: tkey, idx: 0, bad: kbad as u64, total: (kbad + 1 + nafter) as u64, cur: vec![], cpos: 0, taken_after_bad: 0 };
                let mut sink = std::io::sink();
                let sub = Subject::TinyDec { key: hx(&tkey), aad: String::new(), cs: CS as u32 };
                let (res, m) = mon::measured(|| run_rw(&sub, &mut src, &mut sink));
                if res.is_ok() {
                    rep.violation("damaged/accepted", json!({"kind":"trailing","damaged":kbad,"after":nafter}), format!("a stream whose chunk {} has a changed bit is accepted", kbad));
                }
                peaks.push((kbad, nafter, m.peak_above_mark, src.taken_after_bad));
                rep.nontrivial(format!("damaged-{}-{}", kbad, nafter).as_bytes());
            }
        }
        let lo = peaks.iter().map(|p| p.2).min().unwrap();
        let hi = peaks.iter().map(|p| p.2).max().unwrap();
        let taken = peaks.iter().map(|p| p.3).max().unwrap();
        if hi - lo > 4096 || taken > 4 * (CS + 32) {
            rep.violation(
                "mem/grows-with-data-behind-a-bad-chunk",
                json!({"kind":"trailing","peaks":peaks.iter().map(|p| json!([p.0,p.1,p.2,p.3])).collect::<Vec<_>>()}),
                format!("rejecting a stream with a damaged later chunk depends on how much data follows it: (bad chunk, chunks after it, peak heap, bytes taken after the bad chunk) = {:?}", peaks),
            );
        }
        rep.extra("peak_dec_damaged_later_chunk", json!(peaks.iter().map(|p| json!([p.0, p.1, p.2, p.3])).collect::<Vec<_>>()));
    }
    // a hostile length field (just below 2^32, 2^31, chunk size + 1) followed by megabytes of data: rejected without
    // allocating or buffering in proportion to the claimed length or to the data that follows
    {
        let tkey = derive32(1, "c11-tiny");
        for lenv in [0xFFFF_FFF0u32, 0xFFFF_FFFF, 0xFFFF_FFF8, 0x8000_0000, CS as u32 + 1] {
            let mut peaks = vec![];
            for n in [1usize << 20, rep.tier.pick(16 << 20, 64 << 20)] {
                rep.eval(1);
                struct Hostile {
                    hdr: [u8; 16],
                    pos: usize,
                    extra: usize,
                    taken: usize,
                }
                impl Read for Hostile {
                    fn read(&mut self, buf: &mut [u8]) -> std::io::Result<usize> {
                        let total = 16 + self.extra;
                        let k = buf.len().min(total - self.pos);
                        for (i, b) in buf[..k].iter_mut().enumerate() {
                            let p = self.pos + i;
                            *b = if p < 16 { self.hdr[p] } else { 0x55 };
                        }
                        self.pos += k;
                        self.taken += k;
                        Ok(k)
                    }
                }
                let mut hdr = [0u8; 16];
                hdr[12..16].copy_from_slice(&lenv.to_be_bytes());
                let mut src = Hostile { hdr, pos: 0, extra: n, taken: 0 };
                let mut sink = std::io::sink();
                let sub = Subject::TinyDec { key: hx(&tkey), aad: String::new(), cs: CS as u32 };
                let (res, m) = mon::measured(|| run_rw(&sub, &mut src, &mut sink));
                if res.is_ok() {
                    rep.violation("hostile-length/accepted", json!({"kind":"varying-chunks","len_field":lenv}), "stream with a hostile length field accepted".into());
                }
                peaks.push((n, m.peak_above_mark, src.taken));
                rep.nontrivial(format!("hostile-len-{}-{}", lenv, n).as_bytes());
            }
            let hi = peaks.iter().map(|p| p.1).max().unwrap();
            let lo = peaks.iter().map(|p| p.1).min().unwrap();
            let taken = peaks.iter().map(|p| p.2).max().unwrap();
            if hi > (1 << 20) || hi - lo > 4096 || taken > 4 * CS {
                rep.violation("mem/hostile-length-field", json!({"kind":"varying-chunks","len_field":lenv}), format!("a chunk header claiming length {:#x}: peak heap {} bytes, {} bytes of the following data consumed before the rejection (per amount of following data: {:?})", lenv, hi, taken, peaks));
            }
        }
    }
    // authentic streams whose chunks all have DIFFERENT lengths (what an encryptor fed by short, varying reads writes):
    // the peak heap of decryption must not depend on how many such chunks there are
    {
        let tkey = derive32(1, "c11-tiny");
        let mut peaks = vec![];
        for nchunks in [16usize, rep.tier.pick(256, 1024)] {
            rep.eval(1);
            // chunk i has length 1000 + 61*i (all distinct, <= 65536)
            let lens: Vec<usize> = (0..nchunks).map(|i| 1000 + 61 * i).collect();
            let total: usize = lens.iter().sum();
            let plain: Vec<u8> = (0..total).map(pbyte).collect();
            let ct = r::write_chunks(&tkey, &[], &plain, &lens);
            drop(plain);
            let mut src = &ct[..];
            let mut sink = std::io::sink();
            let sub = Subject::TinyDec { key: hx(&tkey), aad: String::new(), cs: CS as u32 };
            let (res, m) = mon::measured(|| run_rw(&sub, &mut src, &mut sink));
            if !res.is_ok() {
                rep.violation("mem/op-failed", json!({"kind":"varying-chunks","chunks":nchunks}), format!("decryption of an authentic stream of {} chunks of distinct lengths failed: {}", nchunks, res.brief()));
            }
            peaks.push((nchunks, total, m.peak_above_mark));
            rep.nontrivial(format!("varying-chunks-{}", nchunks).as_bytes());
        }
        let lo = peaks.iter().map(|p| p.2).min().unwrap();
        let hi = peaks.iter().map(|p| p.2).max().unwrap();
        // the larger stream has larger chunks (up to 64 KiB): allow for the chunk buffers themselves, not for the stream
        if hi > lo + 4 * CS {
            rep.violation("mem/grows-with-number-of-distinct-chunk-lengths", json!({"kind":"varying-chunks","peaks":peaks.iter().map(|p| json!([p.0,p.1,p.2])).collect::<Vec<_>>()}), format!("peak heap of decryption grows with the number of chunks when their lengths differ: {:?} (chunks, plaintext bytes, peak heap)", peaks));
        }
        rep.extra("peak_dec_varying_chunk_lengths", json!(peaks.iter().map(|p| json!([p.0,p.1,p.2])).collect::<Vec<_>>()));
    }
    // oracle (ii): each chunk written before more than two further chunks of input were consumed
    for p in &points {
        if p.lag_chunks > 2 {
            rep.violation(
                &format!("lag-chunks/{}-{}", p.dir, p.via),
                json!({"kind":"point","dir":p.dir,"via":p.via,"size":p.size,"piece":p.piece}),
                format!("{} ({}, {} bytes in {}-byte chunks): a chunk's output completed only after {} further chunks of input had been consumed (allowed: 2)", p.dir, p.via, p.size, p.piece.min(CS), p.lag_chunks),
            );
        }
        if p.max_lag > 2 * CS {
            rep.violation(
                &format!("lag/{}-{}", p.dir, p.via),
                json!({"kind":"point","dir":p.dir,"via":p.via,"size":p.size,"piece":p.piece}),
                format!("{} ({}, {} bytes, {}-byte pieces): a chunk's output completed only after {} plaintext-equivalent bytes beyond it had been consumed (> 2 chunks = {})", p.dir, p.via, p.size, p.piece, p.max_lag, 2 * CS),
            );
        }
    }
    let max_lag = points.iter().map(|p| p.max_lag).max().unwrap_or(0);
    rep.extra("max_lag_bytes", json!(max_lag));
    rep.extra("largest_input_bytes", json!(points.iter().map(|p| p.size).max().unwrap_or(0)));
    rep.extra("points", json!(points.len()));
    rep.sample(json!({"dir":"dec","via":"key","size":64*CS+1,"piece":1024,"meaning":"REF-written file of 1 KiB chunks; peak heap and lag measured"}));
    rep.sample(json!({"dir":"enc","via":"loop","size":4*CS,"piece":CS,"expect":"peak heap equals that of 2*CS and 64*CS within 4 KiB; lag <= 1 chunk"}));

    cli_level(rep);
    cli_file_input_position(rep);
    cli_same_inode_rss(rep);
    cli_trickle(rep);
    cli_merged_stdio(rep);
    rep.set_exhaustive(true);
}

// ------------------------------------------------------------------------------------------- CLI level

struct CliRun {
    maxrss_kib: i64,
    out_when_paused: usize,
    sent_when_paused: usize,
    out_total: usize,
    code: i32,
    /// bytes of input the child had accepted when the stalled stdout reader woke up (blocking-pipe stall only)
    sent_when_reader_woke: usize,
}

/// Feed `size` bytes from `gen` to the CLI's stdin (first a short write, then 64 KiB writes), withholding
/// the last MiB until output has caught up; stdout is drained and counted; returns peak RSS from wait4.
fn cli_stream(args: &[&str], env: &[(&str, &str)], cwd: &std::path::Path, input: Box<dyn FnMut(&mut [u8]) -> usize + Send>, size: usize, via_fifo: bool) -> Result<CliRun, String> {
    cli_stream_opts(args, env, cwd, input, size, via_fifo, 0, false)
}

/// `stall_ms` > 0: the child's stdout is a NON-BLOCKING pipe whose reader does not start draining for that long
fn cli_stream_opts(args: &[&str], env: &[(&str, &str)], cwd: &std::path::Path, input: Box<dyn FnMut(&mut [u8]) -> usize + Send>, size: usize, via_fifo: bool, stall_ms: u64, blocking_stall: bool) -> Result<CliRun, String> {
    use std::os::unix::io::FromRawFd;
    use std::process::{Command, Stdio};
    use std::sync::atomic::{AtomicUsize, Ordering};
    use std::sync::Arc;
    let mut c = Command::new(KESTREL);
    c.args(args).env_clear().current_dir(cwd).stderr(Stdio::null());
    let mut own_read_end: Option<std::fs::File> = None;
    if stall_ms > 0 && !blocking_stall {
        let mut fds = [0i32; 2];
        unsafe {
            if libc::pipe2(fds.as_mut_ptr(), libc::O_CLOEXEC) != 0 {
                return Err("pipe2 failed".into());
            }
            let fl = libc::fcntl(fds[1], libc::F_GETFL);
            libc::fcntl(fds[1], libc::F_SETFL, fl | libc::O_NONBLOCK);
            c.stdout(Stdio::from_raw_fd(fds[1]));
            own_read_end = Some(std::fs::File::from_raw_fd(fds[0]));
        }
    } else {
        c.stdout(Stdio::piped());
    }
    let fifo_path = cwd.join("in.fifo");
    if via_fifo {
        // the input is a named pipe given as the FILE argument
        let cp = std::ffi::CString::new(fifo_path.to_str().unwrap()).unwrap();
        if unsafe { libc::mkfifo(cp.as_ptr(), 0o600) } != 0 {
            return Err("mkfifo failed".into());
        }
        c.arg("in.fifo").stdin(Stdio::null());
    } else {
        c.stdin(Stdio::piped());
    }
    for (k, v) in env {
        c.env(k, v);
    }
    let mut child = c.spawn().map_err(|e| format!("spawn: {}", e))?;
    let pid = child.id() as i32;
    let mut si: Box<dyn Write + Send> = if via_fifo {
        // opening the write end blocks until the CLI opens the pipe for reading
        match std::fs::OpenOptions::new().write(true).open(&fifo_path) {
            Ok(f) => Box::new(f),
            Err(e) => return Err(format!("open fifo: {}", e)),
        }
    } else {
        Box::new(child.stdin.take().unwrap())
    };
    drop(c); // releases the parent's copy of the non-blocking write end
    let mut so: Box<dyn Read + Send> = match own_read_end {
        Some(f) => Box::new(f),
        None => Box::new(child.stdout.take().unwrap()),
    };
    let outn = Arc::new(AtomicUsize::new(0));
    let o2 = outn.clone();
    // with `-o out.bin` the output is a file: its length, polled, is the amount of output that has appeared
    let out_is_file = args.iter().any(|a| *a == "-o");
    let stop_poll = Arc::new(std::sync::atomic::AtomicBool::new(false));
    let poller = if out_is_file {
        let path = cwd.join("out.bin");
        let o4 = outn.clone();
        let stop = stop_poll.clone();
        Some(std::thread::spawn(move || {
            while !stop.load(Ordering::SeqCst) {
                if let Ok(m) = std::fs::metadata(&path) {
                    o4.store(m.len() as usize, Ordering::SeqCst);
                }
                std::thread::sleep(std::time::Duration::from_millis(2));
            }
            if let Ok(m) = std::fs::metadata(&path) {
                o4.store(m.len() as usize, Ordering::SeqCst);
            }
        }))
    } else {
        None
    };
    let sent_now = Arc::new(AtomicUsize::new(0));
    let woke = Arc::new(AtomicUsize::new(0));
    let (sn2, wk2) = (sent_now.clone(), woke.clone());
    let reader = std::thread::spawn(move || {
        if stall_ms > 0 {
            std::thread::sleep(std::time::Duration::from_millis(stall_ms));
            wk2.store(sn2.load(Ordering::SeqCst), Ordering::SeqCst);
        }
        let mut buf = vec![0u8; 1 << 16];
        loop {
            match so.read(&mut buf) {
                Ok(0) | Err(_) => break,
                Ok(n) => {
                    o2.fetch_add(n, Ordering::SeqCst);
                }
            }
        }
    });
    let o3 = outn.clone();
    let sn3 = sent_now.clone();
    let feeder = std::thread::spawn(move || -> (usize, usize) {
        let mut input = input;
        let mut buf = vec![0u8; 1 << 16];
        let mut sent = 0usize;
        let hold = size.saturating_sub(1 << 20);
        let mut paused = (0usize, 0usize);
        let mut first = true;
        while sent < size {
            if stall_ms == 0 && sent >= hold && paused == (0, 0) && size > (4 << 20) {
                // withhold the tail until the output has caught up (or 10 s)
                let t0 = std::time::Instant::now();
                while o3.load(Ordering::SeqCst) + (2 << 20) < sent && t0.elapsed().as_secs() < 10 {
                    std::thread::sleep(std::time::Duration::from_millis(2));
                }
                paused = (o3.load(Ordering::SeqCst), sent);
            }
            let want = if first { 5000.min(size - sent) } else { buf.len().min(size - sent) };
            let n = input(&mut buf[..want]);
            if n == 0 {
                break;
            }
            if si.write_all(&buf[..n]).is_err() {
                break;
            }
            sent += n;
            sn3.store(sent, Ordering::SeqCst);
            if first {
                first = false;
                let _ = si.flush();
                std::thread::sleep(std::time::Duration::from_millis(30));
            }
        }
        drop(si);
        paused
    });
    let mut status: i32 = 0;
    let mut ru: libc::rusage = unsafe { std::mem::zeroed() };
    let rc = unsafe { libc::wait4(pid, &mut status, 0, &mut ru) };
    let paused = feeder.join().unwrap_or((0, 0));
    let _ = reader.join();
    stop_poll.store(true, std::sync::atomic::Ordering::SeqCst);
    if let Some(p) = poller {
        let _ = p.join();
    }
    std::mem::forget(child); // already reaped by wait4
    if rc != pid {
        return Err("wait4 failed".into());
    }
    let code = if libc::WIFEXITED(status) { libc::WEXITSTATUS(status) } else { -1 };
    Ok(CliRun { maxrss_kib: ru.ru_maxrss, out_when_paused: paused.0, sent_when_paused: paused.1, out_total: outn.load(std::sync::atomic::Ordering::SeqCst), code, sent_when_reader_woke: woke.load(std::sync::atomic::Ordering::SeqCst) })
}

/// Input named as a regular FILE, stdout a pipe that nobody reads: once the program has come to rest in its blocked write,
/// the read position of its input descriptor (from /proc/PID/fdinfo) says how much input it has consumed while at most
/// one pipe buffer of output (one chunk) has left it. Allowed: the chunks written or being written, and two further ones.
fn cli_file_input_position(rep: &Report) {
    use rayon::prelude::*;
    use std::process::{Command, Stdio};
    let seed = rep.seed;
    const CS: usize = 65536;
    const NCH: usize = 48;
    let alice = Party::new(seed, "alice", "alicepw");
    let bob = Party::new(seed, "bob", "bobpw");
    let kr = crate::fx::keyring(&[(&alice, true), (&bob, true)]);
    let p = plaintext(seed ^ 0xb1, NCH * CS);
    let salt = derive32(seed, "c11-pos-salt");
    let chunking = vec![CS; NCH];
    let pf = r::write_pass_file_with_key(&r::pass_key(b"clipw", &salt), &salt, &p, &chunking);
    let kf = r::write_key_file(&alice.sk, &bob.pk, &derive32(seed, "c11-pos-e"), &derive32(seed, "c11-pos-p"), &p, &chunking).unwrap();
    let jobs: Vec<(&str, Vec<&str>, &str, &Vec<u8>, usize)> = vec![
        ("encrypt", vec!["encrypt", "in.dat", "-t", "bob", "-f", "alice", "-k", "kr.txt", "--env-pass"], "alicepw", &p, 0),
        ("decrypt", vec!["decrypt", "in.dat", "-t", "bob", "-k", "kr.txt", "--env-pass"], "bobpw", &kf, 132),
        ("pass-encrypt", vec!["password", "encrypt", "in.dat", "--env-pass"], "clipw", &p, 0),
        ("pass-decrypt", vec!["password", "decrypt", "in.dat", "--env-pass"], "clipw", &pf, 36),
    ];
    jobs.par_iter().for_each(|(name, args, pw, data, hdr)| {
        rep.eval(1);
        rep.nontrivial(format!("cli-file-position-{}", name).as_bytes());
        let attempt = || -> Result<Option<u64>, String> {
            let sc = Scratch::new();
            sc.write("kr.txt", kr.as_bytes());
            sc.write("in.dat", data);
            let inpath = std::fs::canonicalize(sc.0.join("in.dat")).map_err(|e| e.to_string())?;
            let mut child = Command::new(KESTREL).args(args).env_clear().env("KESTREL_PASSWORD", pw).current_dir(&sc.0).stdin(Stdio::null()).stderr(Stdio::null()).stdout(Stdio::piped()).spawn().map_err(|e| format!("spawn: {}", e))?;
            let pid = child.id();
            let pipe_cap = {
                use std::os::unix::io::AsRawFd;
                unsafe { libc::fcntl(child.stdout.as_ref().unwrap().as_raw_fd(), libc::F_GETPIPE_SZ) }
            };
            let read_pos = || -> Option<u64> {
                for e in std::fs::read_dir(format!("/proc/{}/fd", pid)).ok()? {
                    let e = e.ok()?;
                    if std::fs::read_link(e.path()).ok().as_deref() == Some(inpath.as_path()) {
                        let info = std::fs::read_to_string(format!("/proc/{}/fdinfo/{}", pid, e.file_name().to_string_lossy())).ok()?;
                        return info.lines().find_map(|l| l.strip_prefix("pos:")).and_then(|v| v.trim().parse().ok());
                    }
                }
                None
            };
            // wait until the position has been the same (and non-zero) for 400 ms: the program rests in its blocked write
            let t0 = std::time::Instant::now();
            let mut last: Option<u64> = None;
            let mut since = std::time::Instant::now();
            let mut settled = None;
            while t0.elapsed().as_secs() < 15 {
                std::thread::sleep(std::time::Duration::from_millis(20));
                let now = read_pos();
                if now != last {
                    last = now;
                    since = std::time::Instant::now();
                } else if now.map(|v| v > 0).unwrap_or(false) && since.elapsed().as_millis() >= 400 {
                    settled = now;
                    break;
                }
                if let Ok(Some(_)) = child.try_wait() {
                    break;
                }
            }
            // drain and reap
            let mut so = child.stdout.take().unwrap();
            let mut sinkbuf = vec![0u8; 1 << 16];
            let mut total = 0usize;
            loop {
                match so.read(&mut sinkbuf) {
                    Ok(0) | Err(_) => break,
                    Ok(n) => total += n,
                }
            }
            let st = child.wait().map_err(|e| e.to_string())?;
            if !st.success() {
                return Err(format!("kestrel {} FILE to a stdout pipe fails (exit {:?}) after {} output bytes", name, st.code(), total));
            }
            if pipe_cap != 65536 {
                return Ok(None);
            }
            Ok(settled)
        };
        // records of output that fit the pipe: none completely for the encryptors (65568 > 65536), one for the decryptors;
        // the record being written, and two further ones
        let in_rec = if *hdr == 0 { CS } else { CS + 32 };
        let allowed = (*hdr + 4 * in_rec) as u64;
        let verdict = match attempt() {
            Ok(Some(pos)) if pos > allowed => attempt(),
            other => other,
        };
        match verdict {
            Ok(Some(pos)) => {
                rep.extra(&format!("cli_file_input_position_{}", name), json!({"input_offset_while_stdout_blocked":pos,"allowed":allowed}));
                if pos > allowed {
                    rep.violation(
                        &format!("cli-file-position/{}", name),
                        json!({"kind":"cli-stall","cmd":name,"file-position":true}),
                        format!("kestrel {} in.dat (a regular file of {} chunks) with nobody reading its stdout pipe: at most 65536 bytes of output have left the program, yet its input descriptor stands at offset {} = {:.1} chunks (allowed: written or being written + 2 further = {} bytes)", name, NCH, pos, pos as f64 / in_rec as f64, allowed),
                    );
                }
            }
            Ok(None) => {
                rep.extra(&format!("cli_file_input_position_{}", name), json!("not judged: the program never came to rest in a blocked write, or the pipe buffer is not 64 KiB"));
            }
            Err(e) => rep.violation(&format!("cli-file-position/{}", name), json!({"kind":"cli-stall","cmd":name,"file-position":true}), e),
        }
    });
}

/// FILE and -o name the same file under different spellings (./x, a hard link, a symbolic link): whatever the program makes
/// of that, its peak resident memory stays where it is for an ordinary run over a file of the same size (64 MiB).
/// `kv rss-child <cwd> <kestrel args...>`: runs the program (stdio on /dev/null, KESTREL_PASSWORD passed on) and prints
/// its peak resident set size in KiB and its exit status.
pub fn rss_child_main(a: &[String]) -> ! {
    use std::process::{Command, Stdio};
    let pw = std::env::var("KESTREL_PASSWORD").unwrap_or_default();
    let child = Command::new(KESTREL).args(&a[1..]).env_clear().env("KESTREL_PASSWORD", pw).current_dir(&a[0]).stdin(Stdio::null()).stdout(Stdio::null()).stderr(Stdio::null()).spawn();
    let child = match child {
        Ok(c) => c,
        Err(_) => std::process::exit(3),
    };
    let pid = child.id() as i32;
    let mut status: i32 = 0;
    let mut ru: libc::rusage = unsafe { std::mem::zeroed() };
    let rc = unsafe { libc::wait4(pid, &mut status, 0, &mut ru) };
    std::mem::forget(child);
    if rc != pid {
        std::process::exit(4);
    }
    println!("{} {}", ru.ru_maxrss, if libc::WIFEXITED(status) { libc::WEXITSTATUS(status) } else { -1 });
    std::process::exit(0);
}

fn cli_same_inode_rss(rep: &Report) {
    use std::process::{Command, Stdio};
    let size: usize = 64 << 20;
    // (a child's ru_maxrss starts from the resident size of the process that spawned it, so the program is started by a
    // small helper process -- `kv rss-child` -- and not by this one, which holds the test data)
    let exe = std::env::current_exe().unwrap_or_else(|_| crate::report::machinery("current_exe"));
    let run = |args: &[&str], cwd: &std::path::Path| -> Result<(i64, i32), String> {
        let o = Command::new(&exe).arg("rss-child").arg(cwd).args(args).env("KESTREL_PASSWORD", "clipw").stdin(Stdio::null()).stderr(Stdio::null()).output().map_err(|e| format!("spawn: {}", e))?;
        let t = String::from_utf8_lossy(&o.stdout).to_string();
        let mut it = t.split_whitespace();
        match (it.next().and_then(|x| x.parse::<i64>().ok()), it.next().and_then(|x| x.parse::<i32>().ok())) {
            (Some(rss), Some(code)) => Ok((rss, code)),
            _ => Err(format!("the rss helper printed {:?}", t)),
        }
    };
    let prepare = |sc: &Scratch| {
        let mut data = vec![0u8; size];
        for (i, b) in data.iter_mut().enumerate() {
            *b = pbyte(i);
        }
        sc.write("big", &data);
    };
    let sc0 = Scratch::new();
    prepare(&sc0);
    let base = match run(&["password", "encrypt", "big", "-o", "other.ktl", "--env-pass"], &sc0.0) {
        Ok((rss, 0)) => rss,
        other => {
            rep.violation("cli-same-inode/baseline-failed", json!({"kind":"cli-stall","same-inode":true}), format!("ordinary password encrypt of a 64 MiB file failed: {:?}", other));
            return;
        }
    };
    let variants = ["./ spelling", "hard link", "symbolic link", "absolute path"];
    use rayon::prelude::*;
    let res: Vec<(&str, Result<(i64, i32), String>)> = variants
        .par_iter()
        .map(|v| {
            rep.eval(1);
            rep.nontrivial(format!("cli-same-inode-{}", v).as_bytes());
            let sc = Scratch::new();
            prepare(&sc);
            let abs = sc.0.join("big").to_str().unwrap().to_string();
            let out: String = match *v {
                "./ spelling" => "./big".into(),
                "hard link" => {
                    let _ = std::fs::hard_link(sc.0.join("big"), sc.0.join("alias"));
                    "alias".into()
                }
                "symbolic link" => {
                    let _ = std::os::unix::fs::symlink("big", sc.0.join("slink"));
                    "slink".into()
                }
                _ => abs,
            };
            (*v, run(&["password", "encrypt", "big", "-o", &out, "--env-pass"], &sc.0))
        })
        .collect();
    let mut seen = vec![];
    for (v, r0) in res {
        match r0 {
            Err(e) => crate::report::machinery(&e),
            Ok((rss, code)) => {
                seen.push(json!([v, rss, code]));
                if rss > base + (16 << 10) {
                    rep.violation("cli-same-inode/memory", json!({"kind":"cli-stall","same-inode":v}), format!("kestrel password encrypt big -o <the same file through a {}>: peak RSS {} KiB, an ordinary run over a file of this size (64 MiB) peaks at {} KiB (exit status {})", v, rss, base, code));
                }
            }
        }
    }
    rep.extra("cli_same_inode_rss_kib", json!({"baseline":base,"variants":seen}));
}

/// Input that trickles in: 300 pieces of 200 bytes on stdin, one every 2 ms, output to `-o out.bin`. BEFORE stdin is closed the
/// output file must already hold all but the last three pieces' worth (each piece is a chunk of its own on the way in; on
/// the way out the input is a file of 300 chunks of 200 bytes delivered record by record).
fn cli_trickle(rep: &Report) {
    use rayon::prelude::*;
    use std::process::{Command, Stdio};
    let seed = rep.seed;
    const N: usize = 300;
    const PIECE: usize = 200;
    let alice = Party::new(seed, "alice", "alicepw");
    let bob = Party::new(seed, "bob", "bobpw");
    let kr = crate::fx::keyring(&[(&alice, true), (&bob, true)]);
    let p: Vec<u8> = (0..N * PIECE).map(pbyte).collect();
    let salt = derive32(seed, "c11-trickle-salt");
    let chunking = vec![PIECE; N];
    let pf = r::write_pass_file_with_key(&r::pass_key(b"clipw", &salt), &salt, &p, &chunking);
    let kf = r::write_key_file(&alice.sk, &bob.pk, &derive32(seed, "c11-trickle-e"), &derive32(seed, "c11-trickle-p"), &p, &chunking).unwrap();
    // (name, args, password, header bytes delivered first, piece size on the wire, bytes of output per piece, output header)
    let jobs: Vec<(&str, Vec<&str>, &str, Vec<u8>, usize, usize, usize)> = vec![
        ("encrypt", vec!["encrypt", "-t", "bob", "-f", "alice", "-k", "kr.txt", "-o", "out.bin", "--env-pass"], "alicepw", p.clone(), PIECE, PIECE + 32, 132),
        ("pass-encrypt", vec!["password", "encrypt", "-o", "out.bin", "--env-pass"], "clipw", p.clone(), PIECE, PIECE + 32, 36),
        ("decrypt", vec!["decrypt", "-t", "bob", "-k", "kr.txt", "-o", "out.bin", "--env-pass"], "bobpw", kf.clone(), PIECE + 32, PIECE, 0),
        ("pass-decrypt", vec!["password", "decrypt", "-o", "out.bin", "--env-pass"], "clipw", pf.clone(), PIECE + 32, PIECE, 0),
    ];
    jobs.par_iter().for_each(|(name, args, pw, data, wire_piece, out_piece, out_hdr)| {
        rep.eval(1);
        rep.nontrivial(format!("cli-trickle-{}", name).as_bytes());
        let attempt = || -> Result<usize, String> {
            let sc = Scratch::new();
            sc.write("kr.txt", kr.as_bytes());
            let mut child = Command::new(KESTREL).args(args).env_clear().env("KESTREL_PASSWORD", pw).current_dir(&sc.0).stdin(Stdio::piped()).stdout(Stdio::null()).stderr(Stdio::null()).spawn().map_err(|e| format!("spawn: {}", e))?;
            let mut si = child.stdin.take().unwrap();
            // the part before the first record (file header of the decrypt inputs) goes first, in one piece
            let in_hdr = data.len() - N * wire_piece;
            let mut pos = 0usize;
            if in_hdr > 0 {
                si.write_all(&data[..in_hdr]).map_err(|e| e.to_string())?;
                pos = in_hdr;
            }
            while pos < data.len() {
                let end = (pos + wire_piece).min(data.len());
                if si.write_all(&data[pos..end]).is_err() {
                    break;
                }
                let _ = si.flush();
                pos = end;
                std::thread::sleep(std::time::Duration::from_millis(2));
            }
            // everything has been offered; stdin stays open. The output must catch up to within three pieces.
            // (pieces may merge into one read, so for the encryptors the plaintext covered by the complete records in the file
            // is counted, not the file's size)
            let _ = out_piece;
            let need = (N - 3) * PIECE;
            let covered = |f: &[u8]| -> usize {
                if *out_hdr == 0 {
                    return f.len();
                }
                let mut at = *out_hdr;
                let mut sum = 0usize;
                while at + 16 <= f.len() {
                    let l = u32::from_be_bytes(f[at + 12..at + 16].try_into().unwrap()) as usize;
                    if at + 16 + l + 16 > f.len() {
                        break;
                    }
                    sum += l;
                    at += 32 + l;
                }
                sum
            };
            let t0 = std::time::Instant::now();
            let mut have = 0usize;
            while t0.elapsed().as_millis() < 4000 {
                have = covered(&std::fs::read(sc.0.join("out.bin")).unwrap_or_default());
                if have >= need {
                    break;
                }
                std::thread::sleep(std::time::Duration::from_millis(10));
            }
            drop(si);
            let st = child.wait().map_err(|e| e.to_string())?;
            if !st.success() {
                return Err(format!("the command fails (exit {:?})", st.code()));
            }
            if have < need {
                return Err(format!("4 s after all {} pieces of {} bytes had been delivered (stdin still open) the output file covered {} plaintext bytes; {} were due (everything but the last three pieces)", N, wire_piece, have, need));
            }
            Ok(have)
        };
        match attempt().or_else(|_| attempt()) {
            Ok(_) => {}
            Err(e) => rep.violation(&format!("cli-trickle/{}", name), json!({"kind":"cli-stall","cmd":name,"trickle":true}), format!("kestrel {} with input trickling in on stdin and -o out.bin: {}", name, e)),
        }
    });
    rep.extra("cli_trickle", json!({"pieces":N,"piece_bytes":PIECE,"commands":4}));
}

/// stdout and stderr are one and the same pipe (`kestrel ... 2>&1 | consumer`, or a supervisor that hands one pipe to both):
/// 16 MiB of input on stdin in 64 KiB pieces, stdin kept open afterwards: before stdin is closed the pipe has delivered all
/// but the last 4 MiB of the output (status text included in the count), so output is incremental in this wiring too.
fn cli_merged_stdio(rep: &Report) {
    use rayon::prelude::*;
    use std::os::unix::io::FromRawFd;
    use std::process::{Command, Stdio};
    use std::sync::atomic::{AtomicUsize, Ordering};
    use std::sync::Arc;
    let seed = rep.seed;
    let total: usize = 16 << 20;
    let salt = derive32(seed, "c11-merged-salt");
    let pkey = r::pass_key(b"clipw", &salt);
    let jobs = ["pass-encrypt", "pass-decrypt"];
    jobs.par_iter().for_each(|name| {
        rep.eval(1);
        rep.nontrivial(format!("cli-merged-stdio-{}", name).as_bytes());
        let attempt = || -> Result<(), String> {
            let sc = Scratch::new();
            let mut fds = [0i32; 2];
            if unsafe { libc::pipe2(fds.as_mut_ptr(), libc::O_CLOEXEC) } != 0 {
                return Err("MACHINERY: pipe2".into());
            }
            let w2 = unsafe { libc::dup(fds[1]) };
            let args: Vec<&str> = if *name == "pass-encrypt" { vec!["password", "encrypt", "--env-pass"] } else { vec!["password", "decrypt", "--env-pass"] };
            let mut c = Command::new(KESTREL);
            c.args(&args).env_clear().env("KESTREL_PASSWORD", "clipw").current_dir(&sc.0).stdin(Stdio::piped());
            unsafe {
                c.stdout(Stdio::from_raw_fd(fds[1]));
                c.stderr(Stdio::from_raw_fd(w2));
            }
            let mut child = c.spawn().map_err(|e| format!("spawn: {}", e))?;
            drop(c);
            let mut rd = unsafe { std::fs::File::from_raw_fd(fds[0]) };
            let got = Arc::new(AtomicUsize::new(0));
            let g2 = got.clone();
            let reader = std::thread::spawn(move || {
                let mut buf = vec![0u8; 1 << 16];
                loop {
                    match rd.read(&mut buf) {
                        Ok(0) | Err(_) => break,
                        Ok(n) => {
                            g2.fetch_add(n, Ordering::SeqCst);
                        }
                    }
                }
            });
            let mut si = child.stdin.take().unwrap();
            // input: plaintext, or a conforming ciphertext generated record by record
            let mut sent_plain = 0usize;
            if *name == "pass-encrypt" {
                let mut buf = vec![0u8; 1 << 16];
                while sent_plain < total {
                    for (k, b) in buf.iter_mut().enumerate() {
                        *b = pbyte(sent_plain + k);
                    }
                    if si.write_all(&buf).is_err() {
                        break;
                    }
                    sent_plain += buf.len();
                }
            } else {
                let mut hdr = r::PASS_MAGIC.to_vec();
                hdr.extend_from_slice(&salt);
                let _ = si.write_all(&hdr);
                let n = total / CS;
                for i in 0..n {
                    let p: Vec<u8> = (0..CS).map(|k| pbyte(i * CS + k)).collect();
                    // never the last record: the stream stays open
                    if si.write_all(&r::seal_conforming(&pkey, &r::PASS_MAGIC, i as u64, false, &p).bytes()).is_err() {
                        break;
                    }
                    sent_plain += CS;
                }
            }
            let _ = si.flush();
            let need = sent_plain.saturating_sub(4 << 20);
            let t0 = std::time::Instant::now();
            while got.load(Ordering::SeqCst) < need && t0.elapsed().as_millis() < 6000 {
                std::thread::sleep(std::time::Duration::from_millis(10));
            }
            let have = got.load(Ordering::SeqCst);
            drop(si);
            let _ = child.wait();
            let _ = reader.join();
            if have < need {
                return Err(format!("with {} MiB delivered on stdin (still open), the pipe shared by stdout and stderr had carried {} bytes; at least {} were due", sent_plain >> 20, have, need));
            }
            Ok(())
        };
        match attempt() {
            Ok(()) => {}
            Err(e) if e.starts_with("MACHINERY") => crate::report::machinery(&e),
            Err(_) => {
                if let Err(e) = attempt() {
                    rep.violation(&format!("cli-merged-stdio/{}", name), json!({"kind":"cli-stall","cmd":name,"merged":true}), format!("kestrel {} with stdout and stderr on one pipe: {}", name, e));
                }
            }
        }
    });
    rep.extra("cli_merged_stdio", json!({"input_mib":16,"commands":2}));
}

fn cli_level(rep: &Report) {
    let seed = rep.seed;
    let alice = Party::new(seed, "alice", "alicepw");
    let bob = Party::new(seed, "bob", "bobpw");
    let kr = crate::fx::keyring(&[(&alice, true), (&bob, true)]);
    let sizes: Vec<usize> = rep.tier.pick(vec![8 << 20, 64 << 20], vec![1 << 20, 64 << 20, 256 << 20]);
    let salt = derive32(seed, "c11-cli-salt");
    let pkey = r::pass_key(b"clipw", &salt);
    let cmds: Vec<(&str, Vec<&str>, &str)> = vec![
        ("encrypt", vec!["encrypt", "-t", "bob", "-f", "alice", "-k", "kr.txt", "--env-pass"], "alicepw"),
        ("decrypt", vec!["decrypt", "-t", "bob", "-k", "kr.txt", "--env-pass"], "bobpw"),
        ("pass-encrypt", vec!["password", "encrypt", "--env-pass"], "clipw"),
        ("pass-decrypt", vec!["password", "decrypt", "--env-pass"], "clipw"),
    ];
    let results: Vec<(String, usize, Result<CliRun, String>)> = {
        use rayon::prelude::*;
        let mut jobs = vec![];
        for (name, args, pw) in &cmds {
            for &sz in &sizes {
                for via_fifo in [false, true] {
                    jobs.push((format!("{}{}", name, if via_fifo { "-fifo-arg" } else { "" }), args.clone(), pw.to_string(), sz, via_fifo));
                }
                // output to -o FILE, fresh or already holding a (short) file: it must grow while the input is still arriving
                for pre in ["-o-fresh", "-o-preexisting"] {
                    let mut a = args.clone();
                    a.extend_from_slice(&["-o", "out.bin"]);
                    jobs.push((format!("{}{}", name, pre), a, pw.to_string(), sz, false));
                }
            }
        }
        jobs.par_iter()
            .map(|(name, args, pw, sz, via_fifo)| {
                let sc = Scratch::new();
                sc.write("kr.txt", kr.as_bytes());
                if name.ends_with("-o-preexisting") {
                    sc.write("out.bin", &vec![b'X'; 300]);
                }
                let sz = *sz;
                let (input, insize): (Box<dyn FnMut(&mut [u8]) -> usize + Send>, usize) = if name.contains("decrypt") {
                    // lazily generated conforming ciphertext
                    let (header, key, aad) = if name.starts_with("decrypt") {
                        let pay = derive32(seed, "c11-cli-pay");
                        let m = r::noise_x_write(&r::XRoles::honest(&r::KEY_MAGIC, &alice.sk, &bob.pk, &derive32(seed, "c11-cli-e")), &pay).unwrap();
                        let mut h = r::KEY_MAGIC.to_vec();
                        h.extend_from_slice(&m.message);
                        (h, r::file_key_from_handshake(&pay, &m.h), vec![])
                    } else {
                        let mut h = r::PASS_MAGIC.to_vec();
                        h.extend_from_slice(&salt);
                        (h, pkey, r::PASS_MAGIC.to_vec())
                    };
                    let total = header.len() + sz + 32 * ((sz + CS - 1) / CS).max(1);
                    let mut rd = CtReader { header, hpos: 0, key, aad, len: sz, chunk: CS, next_plain: 0, idx: 0, cur: vec![], cpos: 0, done: false, handed_plain: Rc::new(Cell::new(0)), handed_recs: Rc::new(Cell::new(0)) };
                    // CtReader holds an Rc: move it into a thread-confined closure
                    struct SendPtr(CtReader);
                    unsafe impl Send for SendPtr {}
                    impl SendPtr {
                        fn rd(&mut self, b: &mut [u8]) -> usize {
                            self.0.read(b).unwrap_or(0)
                        }
                    }
                    let mut w = SendPtr(rd_take(&mut rd));
                    (Box::new(move |b: &mut [u8]| w.rd(b)), total)
                } else {
                    let mut pos = 0usize;
                    (
                        Box::new(move |b: &mut [u8]| {
                            let n = b.len().min(sz - pos);
                            for (k, x) in b[..n].iter_mut().enumerate() {
                                *x = pbyte(pos + k);
                            }
                            pos += n;
                            n
                        }),
                        sz,
                    )
                };
                let r = cli_stream(args, &[("KESTREL_PASSWORD", pw)], &sc.0, input, insize, *via_fifo);
                (name.clone(), sz, r)
            })
            .collect()
    };
    // non-blocking stdout pipe with a reader that stalls for 1.5 s: whatever the exit status, memory must not absorb the stream
    {
        let big = *sizes.iter().max().unwrap();
        for (name, args, pw) in cmds.iter().filter(|c| c.0.ends_with("encrypt")) {
            rep.eval(1);
            rep.nontrivial(format!("cli-nonblock-{}", name).as_bytes());
            let sc = Scratch::new();
            sc.write("kr.txt", kr.as_bytes());
            let mut pos = 0usize;
            let input: Box<dyn FnMut(&mut [u8]) -> usize + Send> = Box::new(move |b: &mut [u8]| {
                let n = b.len().min(big - pos);
                for (k, x) in b[..n].iter_mut().enumerate() {
                    *x = pbyte(pos + k);
                }
                pos += n;
                n
            });
            match cli_stream_opts(args, &[("KESTREL_PASSWORD", pw)], &sc.0, input, big, false, 1500, false) {
                Err(e) => crate::report::machinery(&format!("CLI streaming run failed to start: {}", e)),
                Ok(c) => {
                    let base = results.iter().filter(|r| r.0 == *name).filter_map(|r| r.2.as_ref().ok()).map(|x| x.maxrss_kib).min().unwrap_or(0);
                    rep.extra(&format!("cli_nonblocking_stdout_{}", name), json!({"exit":c.code,"maxrss_kib":c.maxrss_kib,"baseline_kib":base}));
                    if base > 0 && c.maxrss_kib - base > 8 * 1024 {
                        rep.violation(
                            &format!("cli/rss-grows-nonblocking-stdout-{}", name),
                            json!({"kind":"cli-nonblock","cmd":name}),
                            format!("kestrel {} into a non-blocking stdout pipe whose reader stalls: peak RSS {} KiB vs {} KiB with a blocking pipe ({} bytes of input offered)", name, c.maxrss_kib, base, big),
                        );
                    }
                }
            }
        }
    }
    // BLOCKING stdout pipe whose reader does not read for 1.5 s: the tool must stop taking input once the pipes are full
    // (a writer thread fed through an unbounded queue would swallow the whole input meanwhile)
    {
        let big = *sizes.iter().max().unwrap();
        for (name, args, pw) in cmds.iter() {
            rep.eval(1);
            rep.nontrivial(format!("cli-stalled-reader-{}", name).as_bytes());
            let sc = Scratch::new();
            sc.write("kr.txt", kr.as_bytes());
            let (input, insize): (Box<dyn FnMut(&mut [u8]) -> usize + Send>, usize) = if name.contains("decrypt") {
                let (header, key, aad) = if name.starts_with("decrypt") {
                    let pay = derive32(seed, "c11-cli-pay");
                    let m = r::noise_x_write(&r::XRoles::honest(&r::KEY_MAGIC, &alice.sk, &bob.pk, &derive32(seed, "c11-cli-e")), &pay).unwrap();
                    let mut h = r::KEY_MAGIC.to_vec();
                    h.extend_from_slice(&m.message);
                    (h, r::file_key_from_handshake(&pay, &m.h), vec![])
                } else {
                    let mut h = r::PASS_MAGIC.to_vec();
                    h.extend_from_slice(&salt);
                    (h, pkey, r::PASS_MAGIC.to_vec())
                };
                let total = header.len() + big + 32 * ((big + CS - 1) / CS).max(1);
                let mut rd = CtReader { header, hpos: 0, key, aad, len: big, chunk: CS, next_plain: 0, idx: 0, cur: vec![], cpos: 0, done: false, handed_plain: Rc::new(Cell::new(0)), handed_recs: Rc::new(Cell::new(0)) };
                struct SendPtr2(CtReader);
                unsafe impl Send for SendPtr2 {}
                impl SendPtr2 {
                    fn rd(&mut self, b: &mut [u8]) -> usize {
                        self.0.read(b).unwrap_or(0)
                    }
                }
                let mut w = SendPtr2(rd_take(&mut rd));
                (Box::new(move |b: &mut [u8]| w.rd(b)), total)
            } else {
                let mut pos = 0usize;
                (
                    Box::new(move |b: &mut [u8]| {
                        let n = b.len().min(big - pos);
                        for (k, x) in b[..n].iter_mut().enumerate() {
                            *x = pbyte(pos + k);
                        }
                        pos += n;
                        n
                    }),
                    big,
                )
            };
            match cli_stream_opts(args, &[("KESTREL_PASSWORD", pw)], &sc.0, input, insize, false, 1500, true) {
                Err(e) => crate::report::machinery(&format!("CLI streaming run failed to start: {}", e)),
                Ok(c) => {
                    rep.extra(&format!("cli_stalled_reader_{}", name), json!({"exit":c.code,"input_taken_while_reader_stalled":c.sent_when_reader_woke,"maxrss_kib":c.maxrss_kib}));
                    if c.sent_when_reader_woke > (2 << 20) {
                        rep.violation(
                            &format!("cli/input-swallowed-while-output-is-not-taken-{}", name),
                            json!({"kind":"cli-stall","cmd":name}),
                            format!("kestrel {}: while nothing was read from its (blocking) stdout pipe for 1.5 s it took {} bytes of input (of {} offered); output is not produced incrementally against back-pressure, peak RSS {} KiB", name, c.sent_when_reader_woke, insize, c.maxrss_kib),
                        );
                    }
                }
            }
        }
    }
    let mut names: Vec<String> = results.iter().map(|r| r.0.clone()).collect();
    names.sort();
    names.dedup();
    for name in &names {
        let grp: Vec<(&usize, &CliRun)> = results.iter().filter(|r| &r.0 == name).filter_map(|r| r.2.as_ref().ok().map(|x| (&r.1, x))).collect();
        for r in results.iter().filter(|r| &r.0 == name) {
            rep.eval(1);
            rep.nontrivial(format!("cli-{}-{}", name, r.1).as_bytes());
            match &r.2 {
                Err(e) => crate::report::machinery(&format!("CLI streaming run failed to start: {}", e)),
                Ok(c) => {
                    let case = json!({"kind":"cli","cmd":name,"size":r.1});
                    if c.code != 0 {
                        rep.violation("cli/failed", case, format!("kestrel {} of a {}-byte stream through stdin/stdout exited {}", name, r.1, c.code));
                        continue;
                    }
                    if r.1 > (4 << 20) && c.out_when_paused + (2 << 20) < c.sent_when_paused {
                        rep.violation(
                            "cli/not-incremental",
                            case,
                            format!("kestrel {}: after {} input bytes had been supplied (last MiB withheld, 10 s grace) only {} output bytes had appeared", name, c.sent_when_paused, c.out_when_paused),
                        );
                    }
                }
            }
        }
        if grp.len() >= 2 {
            let lo = grp.iter().min_by_key(|g| *g.0).unwrap();
            let hi = grp.iter().max_by_key(|g| *g.0).unwrap();
            rep.extra(&format!("cli_maxrss_kib_{}", name), json!(grp.iter().map(|g| json!([g.0, g.1.maxrss_kib])).collect::<Vec<_>>()));
            if hi.1.maxrss_kib - lo.1.maxrss_kib > 8 * 1024 {
                rep.violation(
                    &format!("cli/rss-grows-{}", name),
                    json!({"kind":"cli-rss","cmd":name}),
                    format!("kestrel {}: peak RSS {} KiB for {} bytes vs {} KiB for {} bytes (stdin->stdout, first write short)", name, lo.1.maxrss_kib, lo.0, hi.1.maxrss_kib, hi.0),
                );
            }
        }
    }
    rep.sample(json!({"kind":"cli","cmd":"kestrel encrypt (stdin->stdout)","sizes":sizes,"feeder":"5000 bytes, pause, then 64 KiB writes, last MiB withheld until output catches up","measure":"ru_maxrss from wait4"}));
}

fn rd_take(r: &mut CtReader) -> CtReader {
    CtReader {
        header: std::mem::take(&mut r.header),
        hpos: r.hpos,
        key: r.key,
        aad: std::mem::take(&mut r.aad),
        len: r.len,
        chunk: r.chunk,
        next_plain: r.next_plain,
        idx: r.idx,
        cur: vec![],
        cpos: 0,
        done: r.done,
        handed_plain: Rc::new(Cell::new(0)),
        handed_recs: Rc::new(Cell::new(0)),
    }
}

pub fn replay(rep: &'static Report, case: &Value) {
    println!("  replaying the C11 measurement grid; case: {}", case);
    run(rep);
}
