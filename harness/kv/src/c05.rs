//! C05 — sender identity needs its private key; only the addressed key decrypts (E-GRID).
use crate::c19::special_points;
use crate::refspec as r;
use crate::refspec::XRoles;
use crate::report::Report;
use crate::streams::*;
use crate::util::*;
use serde_json::{json, Value};

fn dec(rc: &Ident, file: &[u8]) -> (Res, Vec<u8>) {
    run_plain(&Subject::KeyDec { r: hx(&rc.sk), r_pub: hx(&rc.pk) }, file)
}

fn forged_file(roles: &XRoles, payload: &[u8; 32], p: &[u8]) -> Option<Vec<u8>> {
    let m = r::noise_x_write(roles, payload)?;
    let fk = r::file_key_from_handshake(payload, &m.h);
    let mut f = r::KEY_MAGIC.to_vec();
    f.extend_from_slice(&m.message);
    f.extend_from_slice(&r::write_chunks(&fk, &[], p, &[p.len()]));
    Some(f)
}

fn expect(rep: &Report, clause: &str, case: Value, what: &str, should_accept: bool, want_sender: Option<&[u8; 32]>, p: &[u8], res: &Res, out: &[u8]) {
    rep.eval(1);
    match res {
        Res::Panic(m) => rep.violation(&format!("{}/panic", clause), case, format!("{}: panic {}", what, m)),
        Res::Ok(s) => {
            if !should_accept {
                rep.violation(&format!("{}/accepted", clause), case, format!("{}: accepted (reported sender {:?}) but must be rejected", what, s.as_ref().map(|k| hx(k))));
            } else if out != p {
                rep.violation(&format!("{}/wrong-plaintext", clause), case, format!("{}: wrong plaintext", what));
            } else if let Some(ws) = want_sender {
                if s.as_deref() != Some(&ws[..]) {
                    rep.violation(&format!("{}/wrong-sender", clause), case, format!("{}: reported sender {:?}, expected the public key of the private key used ({})", what, s.as_ref().map(|k| hx(k)), hx(ws)));
                }
            }
        }
        Res::Err(..) => {
            if should_accept {
                rep.violation(&format!("{}/rejected", clause), case, format!("{}: rejected ({}) but is an honest file for this key", what, res.brief()));
            } else if !out.is_empty() {
                rep.violation(&format!("{}/released", clause), case, format!("{}: rejected but {} bytes released", what, out.len()));
            }
        }
    }
}

/// A reader that holds NO private key tries every secret it can form from public data on `file`.
/// (The honest recipient, via REF, only tells us the handshake hash and the payload key actually used, to compare against.)
fn public_reader(rep: &Report, case: Value, file: &[u8], r_sk: &[u8; 32], r_pk: &[u8; 32], s_pk: &[u8; 32]) {
    let kf = match r::read_key_file(r_sk, file) {
        Ok(kf) => kf,
        Err(e) => {
            rep.violation("public/not-conforming", case, format!("REF cannot read the file: {:?}", e));
            return;
        }
    };
    let x = r::noise_x_read(&r::KEY_MAGIC, r_sk, r_pk, &file[4..132]).unwrap();
    let mut nine = [0u8; 32];
    nine[0] = 9;
    let zero_eph = r::x25519_base(&[0u8; 32]);
    let public: Vec<(&str, Vec<u8>)> = vec![
        ("all-zero", vec![0u8; 32]),
        ("all-ones", vec![0xff; 32]),
        ("sender public key", s_pk.to_vec()),
        ("recipient public key", r_pk.to_vec()),
        ("ephemeral public key", file[4..36].to_vec()),
        ("handshake hash", x.h.to_vec()),
        ("format magic padded", [r::KEY_MAGIC.to_vec(), vec![0u8; 28]].concat()),
        ("base point", nine.to_vec()),
        ("sha256(ephemeral public key)", r::sha256(&file[4..36]).to_vec()),
    ];
    for (name, cand) in &public {
        let fk = r::file_key_from_handshake(cand, &x.h);
        if kf.payload_key[..] == cand[..] || r::read_chunks(&fk, &[], &file[132..], 65536).is_ok() || r::read_chunks(cand.as_slice().try_into().unwrap(), &[], &file[132..], 65536).is_ok() {
            rep.violation(
                "public/file-key-derivable-from-public-data",
                case.clone(),
                format!("a file produced with randomness left to the implementation can be read without any private key: its payload/file key is derivable from public data ({})", name),
            );
            return;
        }
    }
    // an ephemeral key whose private half is a publicly known scalar gives away DH(e, rs), hence the payload key
    for (name, scalar) in [("all-zero scalar", [0u8; 32]), ("all-ones scalar", [0xffu8; 32])] {
        if file[4..36] == r::x25519_base(&scalar)[..] {
            rep.violation("public/ephemeral-private-key-is-public", case.clone(), format!("the file's ephemeral public key is the public key of the {}", name));
            return;
        }
    }
    let _ = zero_eph;
}

/// "Encryption to a recipient key that forces an all-zero shared secret is refused, so no file is ever produced", at the
/// program level: each small-order point (with a valid checksum) as a keyring entry named with -t; -o names a path
/// that is absent, or one that already holds a file. Refused means: exit 1, nothing created, the existing file untouched;
/// also nothing on a stdout pipe.
fn cli_refused_recipients(rep: &Report) {
    use rayon::prelude::*;
    use crate::fx::Party;
    use crate::proc::{self, Cmd, Scratch};
    let seed = rep.seed;
    let alice = Party::new(seed, "alice", "alicepw");
    let points: Vec<(String, [u8; 32])> = crate::c19::special_points().into_iter().filter(|(n, _)| n.starts_with("small-order")).collect();
    let mut jobs = vec![];
    for pi in 0..points.len() {
        for wiring in ["-o absent", "-o holding a file", "stdout pipe"] {
            jobs.push((pi, wiring));
        }
    }
    jobs.par_iter().for_each(|&(pi, wiring)| {
        rep.eval(1);
        rep.nontrivial(format!("cli-refused-recipient-{}-{}", pi, wiring).as_bytes());
        let (pname, u) = &points[pi];
        let attempt = || -> Result<(), String> {
            let sc = Scratch::new();
            sc.write("kr.txt", format!("{}\n{}", alice.entry(true), proc::keyring_entry("lowkey", &r::encode_pk(u), None)).as_bytes());
            sc.write("plain.bin", b"attack at dawn");
            let prior = vec![b'K'; 5000];
            let mut a = vec!["encrypt", "plain.bin", "-t", "lowkey", "-f", "alice", "-k", "kr.txt", "--env-pass"];
            if wiring != "stdout pipe" {
                a.extend_from_slice(&["-o", "out.ktl"]);
            }
            if wiring == "-o holding a file" {
                sc.write("out.ktl", &prior);
            }
            let o = proc::run(&Cmd::new(&a).env("KESTREL_PASSWORD", "alicepw"), &sc.0);
            o.well_behaved()?;
            if o.ok() {
                return Err(format!("exit status 0: a file was produced for the recipient key {} ({})", pname, hx(u)));
            }
            match (wiring, sc.read("out.ktl")) {
                ("-o absent", Some(f)) => Err(format!("the encryption was refused but a file of {} bytes was created at the -o path", f.len())),
                ("-o holding a file", Some(f)) if f != prior => Err(format!("the encryption was refused but the file at the -o path was changed ({} -> {} bytes)", prior.len(), f.len())),
                ("-o holding a file", None) => Err("the encryption was refused but the file at the -o path was removed".into()),
                ("stdout pipe", _) if !o.stdout.is_empty() => Err(format!("the encryption was refused but {} bytes were written to stdout", o.stdout.len())),
                _ => Ok(()),
            }
        };
        if attempt().is_err() {
            if let Err(e) = attempt() {
                rep.violation("cli/refused-recipient", json!({"kind":"cli-refused","point":pname,"wiring":wiring}), format!("kestrel encrypt -t <{}> [{}]: {}", pname, wiring, e));
            }
        }
    });
    rep.extra("cli_refused_recipient_runs", json!(jobs.len()));
}

/// The sender named is the keyring entry whose key is the authenticated sender key, wherever the entries stand: every order
/// of {alice (public), carol (public), bob (private), dave (private)}; a file from alice to bob, and one from dave to bob.
fn cli_keyring_orders(rep: &Report) {
    use rayon::prelude::*;
    use crate::fx::Party;
    use crate::proc::{self, Cmd, Scratch};
    let seed = rep.seed;
    let ps = [Party::new(seed, "alice", "x"), Party::new(seed, "carol", "x"), Party::new(seed, "bob", "bobpw"), Party::new(seed, "dave", "bobpw")];
    let with_priv = [false, false, true, true];
    let p = plaintext(seed ^ 0x5e, 40);
    let from_alice = r::write_key_file(&ps[0].sk, &ps[2].pk, &derive32(seed, "c05-ord-e"), &derive32(seed, "c05-ord-p"), &p, &[40]).unwrap();
    let from_dave = r::write_key_file(&ps[3].sk, &ps[2].pk, &derive32(seed, "c05-ord-e2"), &derive32(seed, "c05-ord-p2"), &p, &[40]).unwrap();
    let mut perms: Vec<Vec<usize>> = vec![];
    for a in 0..4 {
        for b in 0..4 {
            for c in 0..4 {
                for d in 0..4 {
                    let v = vec![a, b, c, d];
                    let mut s = v.clone();
                    s.sort();
                    if s == vec![0, 1, 2, 3] {
                        perms.push(v);
                    }
                }
            }
        }
    }
    perms.par_iter().for_each(|perm| {
        rep.eval(2);
        rep.nontrivial(format!("cli-keyring-order-{:?}", perm).as_bytes());
        let kr: String = perm.iter().map(|&i| ps[i].entry(with_priv[i])).collect::<Vec<_>>().join("\n");
        let order: Vec<&str> = perm.iter().map(|&i| ps[i].name.as_str()).collect();
        for (file, sender) in [(&from_alice, "alice"), (&from_dave, "dave")] {
            let attempt = || -> Result<(), String> {
                let sc = Scratch::new();
                sc.write("kr.txt", kr.as_bytes());
                sc.write("in.ktl", file);
                let o = proc::run(&Cmd::new(&["decrypt", "in.ktl", "-t", "bob", "-k", "kr.txt", "-o", "out.bin", "--env-pass"]).env("KESTREL_PASSWORD", "bobpw"), &sc.0);
                o.well_behaved()?;
                if !o.ok() || sc.read("out.bin").as_deref() != Some(&p[..]) {
                    return Err(format!("decrypt fails: {}", o.summary()));
                }
                let words: Vec<&str> = o.stderr.split(|c: char| !c.is_alphanumeric()).collect();
                let named: Vec<&str> = ["alice", "carol", "dave"].into_iter().filter(|n| words.contains(n)).collect();
                if named != vec![sender] {
                    return Err(format!("the sender is reported as {:?}, the authenticated sender key is {}'s", named, sender));
                }
                Ok(())
            };
            if attempt().is_err() {
                if let Err(e) = attempt() {
                    rep.violation("cli/sender-depends-on-keyring-order", json!({"kind":"cli-order","order":order,"sender":sender}), format!("keyring order {:?}, file from {} to bob: {}", order, sender, e));
                }
            }
        }
    });
    // a name that occurs twice, the two entries NOT next to each other (a received key block pasted at the end under a name
    // already in use): a file made with the second entry's private key must not come out as "from <that name>" -- the
    // keyring is ambiguous and is refused
    {
        let mallory = Party::new(seed, "mallory", "x");
        let from_mallory = r::write_key_file(&mallory.sk, &ps[2].pk, &derive32(seed, "c05-dup-e"), &derive32(seed, "c05-dup-p"), &p, &[40]).unwrap();
        let dup = proc::keyring_entry("alice", &mallory.pk_enc, None);
        for (label, kr) in [
            ("alice, bob, alice(other key)", format!("{}\n{}\n{}", ps[0].entry(false), ps[2].entry(true), dup)),
            ("alice, carol, bob, dave, alice(other key)", format!("{}\n{}\n{}\n{}\n{}", ps[0].entry(false), ps[1].entry(false), ps[2].entry(true), ps[3].entry(true), dup)),
            ("alice(other key), bob, alice", format!("{}\n{}\n{}", dup, ps[2].entry(true), ps[0].entry(false))),
        ] {
            rep.eval(1);
            rep.nontrivial(format!("cli-dup-name-{}", label).as_bytes());
            let sc = Scratch::new();
            sc.write("kr.txt", kr.as_bytes());
            sc.write("in.ktl", &from_mallory);
            let o = proc::run(&Cmd::new(&["decrypt", "in.ktl", "-t", "bob", "-k", "kr.txt", "-o", "out.bin", "--env-pass"]).env("KESTREL_PASSWORD", "bobpw"), &sc.0);
            if let Err(e) = o.well_behaved() {
                rep.violation("cli/duplicate-name", json!({"kind":"cli-order","dup":label}), format!("keyring [{}]: {}", label, e));
            } else if o.ok() {
                rep.violation("cli/duplicate-name", json!({"kind":"cli-order","dup":label}), format!("keyring [{}] (the name alice stands for two different keys): decrypt of a file made with the second key's private key succeeds: {}", label, o.stderr.lines().last().unwrap_or("")));
            }
        }
    }
    rep.extra("cli_keyring_orders", json!(perms.len()));
}

pub fn run(rep: &'static Report) {
    let seed = rep.seed;
    rep.set_rule("E-GRID: the full product of key-role assignments over K = {S, S', R, R'} for the real encryptor (4^4) and for the REF forger (roles x forging degrees), all 2^4 field mixes of pairs of authentic files, and all 52 special X25519 encodings as recipient and as ephemeral key; each point is one execution of the real key_encrypt/key_decrypt compared with the role model. distinct non-trivial = distinct tuples");
    rep.rule_add("CLI: each small-order point as the -t entry x {-o absent, -o holding a file, stdout pipe}: exit 1, nothing created, changed or written. All 24 orders of a 4-entry keyring (two public-only, two with private keys): the sender named does not depend on the order.");
    rep.rule_add("keyless reader on the CLI's output under every getrandom answer schedule; CLI keyring precedence (-k vs a decoy KESTREL_KEYRING) for encrypt and two decrypt cases.");
    rep.assume("key values from a seed-derived 4-key alphabet; DH hardness assumed (a forger cannot compute DH with a private key it does not hold)");
    let k = idents(seed);
    let p = b"c05 plaintext".to_vec();
    let e = derive32(seed, "c05-e");
    let pay = derive32(seed, "c05-pay");

    // (i) real key_encrypt over all (used, claimed, addressed, decrypting)
    for u in 0..4 {
        for c in 0..4 {
            for a in 0..4 {
                let enc = Subject::KeyEnc { s: hx(&k[u].sk), s_pub: hx(&k[c].pk), r_pub: hx(&k[a].pk), e: hx(&e), payload: hx(&pay) };
                let (eres, file) = run_plain(&enc, &p);
                if !eres.is_ok() {
                    rep.violation("real/encrypt-error", json!({"kind":"real","u":u,"c":c,"a":a}), format!("key_encrypt failed: {}", eres.brief()));
                    continue;
                }
                for d in 0..4 {
                    let (res, out) = dec(&k[d], &file);
                    let what = format!("key_encrypt(private={}, claimed public={}, recipient={}) decrypted with {}", k[u].name, k[c].name, k[a].name, k[d].name);
                    expect(rep, "real", json!({"kind":"real","u":u,"c":c,"a":a,"d":d}), &what, d == a && c == u, Some(&k[u].pk), &p, &res, &out);
                    rep.nontrivial(format!("real-{}-{}-{}-{}", u, c, a, d).as_bytes());
                }
            }
        }
    }
    rep.sample(json!({"kind":"real","private_used":"S","public_claimed":"S2","recipient":"R","decrypting":"R","expect":"reject (claimed sender key does not match the private key used)"}));

    // (ii) REF forger: roles x forging degrees
    let degrees = ["honest", "claimed-other", "skip-ss", "ss-zero", "ss-from-e", "hashed-other", "ss-to-other", "es-to-other", "e-pub-mismatch"];
    for u in 0..4 {
        for c in 0..4 {
            for a in 0..4 {
                for (di, deg) in degrees.iter().enumerate() {
                    let mut roles = XRoles::honest(&r::KEY_MAGIC, &k[u].sk, &k[a].pk, &e);
                    let o = (a + 1) % 4;
                    let mut honest = true;
                    match *deg {
                        "honest" => {
                            if c != u {
                                continue;
                            }
                        }
                        "claimed-other" => {
                            if c == u {
                                continue;
                            }
                            roles.s_pub = k[c].pk;
                            honest = false;
                        }
                        _ if c != u => continue,
                        "skip-ss" => {
                            roles.skip_ss = true;
                            honest = false;
                        }
                        "ss-zero" => {
                            roles.ss_override = Some([0u8; 32]);
                            honest = false;
                        }
                        "ss-from-e" => {
                            roles.ss_override = r::x25519(&e, &k[a].pk);
                            honest = false;
                        }
                        "hashed-other" => {
                            roles.rs_hashed = k[o].pk;
                            honest = false;
                        }
                        "ss-to-other" => {
                            roles.rs_ss = k[o].pk;
                            honest = false;
                        }
                        "es-to-other" => {
                            roles.rs_es = k[o].pk;
                            honest = false;
                        }
                        "e-pub-mismatch" => {
                            roles.e_pub = r::x25519_base(&derive32(seed, "c05-e-other"));
                            honest = false;
                        }
                        _ => unreachable!(),
                    }
                    let file = match forged_file(&roles, &pay, &p) {
                        Some(f) => f,
                        None => continue,
                    };
                    for d in 0..4 {
                        let (res, out) = dec(&k[d], &file);
                        let what = format!("REF-forged file [{}] (private={}, claimed={}, recipient={}) decrypted with {}", deg, k[u].name, k[c].name, k[a].name, k[d].name);
                        expect(rep, &format!("forged-{}", deg), json!({"kind":"forged","u":u,"c":c,"a":a,"d":d,"deg":di}), &what, honest && d == a, Some(&k[u].pk), &p, &res, &out);
                        rep.nontrivial(format!("forged-{}-{}-{}-{}-{}", deg, u, c, a, d).as_bytes());
                    }
                }
            }
        }
    }
    rep.sample(json!({"kind":"forged","degree":"hashed-other","meaning":"recipient key mixed into h differs from the key used for es/ss","expect":"reject"}));

    // (iii) field mixes of two authentic files to the same recipient
    let rc = &k[2];
    let mk = |s: &Ident, tag: &str, pl: &[u8]| r::write_key_file(&s.sk, &rc.pk, &derive32(seed, &format!("c05-mix-e-{}", tag)), &derive32(seed, &format!("c05-mix-p-{}", tag)), pl, &[pl.len()]).unwrap();
    let pairs = vec![
        ("same-sender", mk(&k[0], "x1", b"file X"), mk(&k[0], "y1", b"file Y")),
        ("different-sender", mk(&k[0], "x2", b"file X"), mk(&k[1], "y2", b"file Y")),
        ("same-sender-same-plaintext", mk(&k[0], "x3", b"same"), mk(&k[0], "y3", b"same")),
    ];
    let fields = [(4usize, 36usize), (36, 84), (84, 132), (132, usize::MAX)];
    for (pn, x, y) in &pairs {
        for mask in 0..16u32 {
            let mut f = x[..4].to_vec();
            for (i, (s, en)) in fields.iter().enumerate() {
                let src = if mask >> i & 1 == 1 { y } else { x };
                let en = (*en).min(src.len());
                f.extend_from_slice(&src[*s..en]);
            }
            let (res, out) = dec(rc, &f);
            let all_x = mask == 0;
            let all_y = mask == 15;
            let pl: &[u8] = if all_y { if *pn == "same-sender-same-plaintext" { b"same" } else { b"file Y" } } else if *pn == "same-sender-same-plaintext" { b"same" } else { b"file X" };
            let snd = if all_y && *pn == "different-sender" { &k[1].pk } else { &k[0].pk };
            expect(rep, "mix", json!({"kind":"mix","pair":pn,"mask":mask}), &format!("fields (e, enc_s, enc_payload, chunks) mixed from two authentic files ({}), mask {:04b}", pn, mask), all_x || all_y, Some(snd), pl, &res, &out);
            rep.nontrivial(format!("mix-{}-{}", pn, mask).as_bytes());
        }
    }

    // (iv) special X25519 encodings
    let sp = special_points();
    let mut small = 0;
    for (name, pt) in &sp {
        let is_small = name.starts_with("small-order");
        // as recipient of the real key_encrypt
        let enc = Subject::KeyEnc { s: hx(&k[0].sk), s_pub: hx(&k[0].pk), r_pub: hx(pt), e: hx(&e), payload: hx(&pay) };
        let (res, file) = run_plain(&enc, &p);
        rep.eval(1);
        let case = json!({"kind":"special-recipient","name":name,"point":hx(pt)});
        let want = r::write_key_file(&k[0].sk, pt, &e, &pay, &p, &[p.len()]);
        match (&res, &want) {
            (Res::Panic(m), _) => rep.violation("special/recipient-panic", case, format!("panic for recipient {}: {}", name, m)),
            (Res::Ok(_), None) => rep.violation(
                "special/low-order-recipient-accepted",
                case,
                format!("key_encrypt to recipient key {} ({}) forces an all-zero shared secret but a {}-byte file was produced", name, hx(pt), file.len()),
            ),
            (Res::Ok(_), Some(w)) => {
                if *w != file {
                    rep.violation("special/recipient-differs-from-rfc", case, format!("file for non-canonical recipient {} differs from RFC 7748 arithmetic", name));
                }
            }
            (Res::Err(..), None) => {
                if !file.is_empty() {
                    rep.violation("special/low-order-recipient-wrote-bytes", case, format!("key_encrypt to {} refused but {} bytes were already written", name, file.len()));
                }
            }
            (Res::Err(..), Some(_)) => rep.violation("special/recipient-spurious-refusal", case, format!("key_encrypt to full-order recipient {} refused", name)),
        }
        if is_small {
            small += 1;
            if want.is_some() {
                crate::report::machinery("REF accepts a small-order recipient");
            }
        }
        rep.nontrivial(format!("sp-rec-{}", name).as_bytes());
        // as ephemeral key: authentic file with e replaced, and REF-forged with es assumed zero
        let auth = r::write_key_file(&k[0].sk, &k[2].pk, &e, &pay, &p, &[p.len()]).unwrap();
        let mut f1 = auth.clone();
        f1[4..36].copy_from_slice(pt);
        let mut roles = XRoles::honest(&r::KEY_MAGIC, &k[0].sk, &k[2].pk, &e);
        roles.e_pub = *pt;
        roles.es_override = Some([0u8; 32]);
        let f2 = forged_file(&roles, &pay, &p).unwrap();
        // forger without any private key: claimed sender = base point (DH(r, 9) = r_pub is public)
        let mut roles3 = roles.clone();
        let mut nine = [0u8; 32];
        nine[0] = 9;
        roles3.s_pub = nine;
        roles3.ss_override = Some(k[2].pk);
        let f3 = forged_file(&roles3, &pay, &p).unwrap();
        for (vn, f) in [("e-replaced", &f1), ("forged-es-zero", &f2), ("forged-from-public-data", &f3)] {
            let (res, out) = dec(&k[2], f);
            let should_accept = if is_small {
                false
            } else {
                // full-order non-canonical point: what RFC arithmetic (REF) says
                r::read_key_file(&k[2].sk, f).is_ok()
            };
            expect(rep, &format!("special-ephemeral-{}", vn), json!({"kind":"special-ephemeral","name":name,"point":hx(pt),"variant":vn}), &format!("file whose ephemeral key is {} [{}]", name, vn), should_accept, None, &p, &res, &out);
            rep.nontrivial(format!("sp-eph-{}-{}", name, vn).as_bytes());
        }
    }
    // claimed sender = small-order point hidden in the encrypted s field; the forger cannot (and does not) mix ss
    for (name, pt) in sp.iter().filter(|(n, _)| n.starts_with("small-order")) {
        for variant in ["skip-ss", "ss-zero"] {
            let mut roles = XRoles::honest(&r::KEY_MAGIC, &k[0].sk, &k[2].pk, &e);
            roles.s_pub = *pt;
            if variant == "skip-ss" {
                roles.skip_ss = true;
            } else {
                roles.ss_override = Some([0u8; 32]);
            }
            if let Some(f) = forged_file(&roles, &pay, &p) {
                let (res, out) = dec(&k[2], &f);
                expect(rep, &format!("special-sender-{}", variant), json!({"kind":"special-sender","name":name,"variant":variant}), &format!("forged file whose claimed sender key is {} [{}]", name, variant), false, None, &p, &res, &out);
                rep.nontrivial(format!("sp-sender-{}-{}", name, variant).as_bytes());
            }
        }
    }
    // call sequences on one thread: what a decryption (or encryption) learned must not help the next call made with
    // OTHER keys. Every ordered pair (first, second) of recipients tried on the same authentic file, on a fresh thread;
    // likewise an honest encryption followed by a forged one claiming the same sender.
    {
        let p = plaintext(seed ^ 0x5a, 40);
        let e = derive32(seed, "c05-seq-e");
        let pay = derive32(seed, "c05-seq-pay");
        let file = r::write_key_file(&k[0].sk, &k[2].pk, &e, &pay, &p, &[40]).unwrap(); // S -> R
        let mut hs = vec![];
        for first in 0..4usize {
            for second in 0..4usize {
                let (kk, file, p) = (k.clone(), file.clone(), p.clone());
                hs.push(std::thread::spawn(move || -> Vec<String> {
                    let mut bad = vec![];
                    for (step, who) in [first, second, first].into_iter().enumerate() {
                        let (res, out) = dec(&kk[who], &file);
                        let should = who == 2;
                        let ok = matches!(&res, Res::Ok(snd) if snd.as_deref() == Some(&kk[0].pk[..])) && out == p;
                        if should && !ok {
                            bad.push(format!("step {} of the sequence of recipients [{}, {}, {}] on one thread: the addressed key no longer decrypts ({})", step + 1, kk[first].name, kk[second].name, kk[first].name, res.brief()));
                        }
                        if !should && (res.is_ok() || !out.is_empty()) {
                            bad.push(format!("step {} of the sequence of recipients [{}, {}, {}] on one thread: the file opens under the key of {} , which it was not encrypted to ({} bytes released)", step + 1, kk[first].name, kk[second].name, kk[first].name, kk[who].name, out.len()));
                        }
                    }
                    bad
                }));
            }
        }
        for h in hs {
            rep.eval(3);
            match h.join() {
                Ok(bad) => {
                    for b in bad {
                        rep.violation("sequence/decrypt-depends-on-earlier-calls", json!({"kind":"sequence","part":"recipients"}), b);
                    }
                }
                Err(_) => rep.violation("sequence/panic", json!({"kind":"sequence"}), "worker thread panicked".into()),
            }
        }
        rep.nontrivial(b"recipient-sequences");
    }
    // "no file is ever produced under keys derivable from public data": with the payload key and ephemeral key left
    // to the implementation, a reader that holds NO private key tries every secret it can form from public data
    for (si, ri) in [(0usize, 2usize), (1, 3), (0, 0)] {
        for l in [0usize, 13, 70000] {
            rep.eval(1);
            let pl = plaintext(seed ^ 0x5b, l);
            let enc = Subject::KeyEnc { s: hx(&k[si].sk), s_pub: hx(&k[si].pk), r_pub: hx(&k[ri].pk), e: String::new(), payload: String::new() };
            let (eres, file) = run_plain(&enc, &pl);
            let case = json!({"kind":"public-data","s":si,"r":ri,"len":l});
            if !eres.is_ok() || file.len() < 132 {
                rep.violation("public/encrypt-error", case, format!("key_encrypt failed: {}", eres.brief()));
                continue;
            }
            public_reader(rep, case, &file, &k[ri].sk, &k[ri].pk, &k[si].pk);
            rep.nontrivial(format!("public-{}-{}-{}", si, ri, l).as_bytes());
        }
    }
    {
        let nseq = 48usize;
        let mut seen: Vec<(usize, [u8; 32], [u8; 32], Vec<u8>)> = vec![]; // (recipient, payload key, file key, chunk region)
        for i in 0..nseq {
            rep.eval(1);
            // aperiodic recipient pattern: for every lag d <= 24 some pair (i, i+d) has different recipients
            let ri = (i + i / 4 + i / 16) % 4;
            let si = [0usize, 1][i % 2];
            let pl = plaintext(seed ^ 0x5d ^ i as u64, 20 + i);
            let enc = Subject::KeyEnc { s: hx(&k[si].sk), s_pub: hx(&k[si].pk), r_pub: hx(&k[ri].pk), e: String::new(), payload: String::new() };
            let (eres, file) = run_plain(&enc, &pl);
            if !eres.is_ok() {
                rep.violation("sequence/encrypt-error", json!({"kind":"sequence","i":i}), eres.brief());
                break;
            }
            let kf = match r::read_key_file(&k[ri].sk, &file) {
                Ok(kf) => kf,
                Err(e) => {
                    rep.violation("sequence/not-conforming", json!({"kind":"sequence","i":i}), format!("{:?}", e));
                    break;
                }
            };
            // every earlier recipient tries what it learned (payload key / file key of its own file) on this file
            for (j, (rj, pk_j, fk_j, _)) in seen.iter().enumerate() {
                if *rj == ri {
                    continue;
                }
                let x_h = r::noise_x_read(&r::KEY_MAGIC, &k[ri].sk, &k[ri].pk, &file[4..132]).unwrap().h;
                let readable = kf.payload_key == *pk_j || kf.file_key == *fk_j || r::read_chunks(fk_j, &[], &file[132..], 65536).is_ok() || r::read_chunks(&r::file_key_from_handshake(pk_j, &x_h), &[], &file[132..], 65536).is_ok();
                if readable {
                    rep.violation(
                        "sequence/readable-by-another-recipient",
                        json!({"kind":"sequence","i":i,"j":j}),
                        format!("file {} of a sequence of auto-keyed encryptions in one thread (addressed to {}) can be read by the recipient of file {} ({}) with the keys learned from its own file", i, k[ri].name, j, k[*rj].name),
                    );
                    break;
                }
            }
            seen.push((ri, kf.payload_key, kf.file_key, file[132..].to_vec()));
        }
        rep.extra("auto_keyed_sequence_length", json!(nseq));
        rep.nontrivial(b"auto-keyed-sequence");
    }
    // the same reader on what `kestrel encrypt` produces under every answer of the OS randomness source within the bound
    // (persistent failure from call k, EINTR / EAGAIN / 1-byte answer at call k, 1-byte answers throughout)
    {
        use crate::c07::{rng_calls, rng_env, rng_schedules, RNG_SHIM};
        use crate::fx::Party;
        use crate::proc::{self, Cmd, Scratch};
        use rayon::prelude::*;
        let alice = Party::new(seed, "alice", "alicepw");
        let bob = Party::new(seed, "bob", "bobpw");
        let keyring = crate::fx::keyring(&[(&alice, true), (&bob, false)]);
        let pl = plaintext(seed ^ 0x5e, 300);
        let run = |env: &[(String, String)]| -> Option<Vec<u8>> {
            let sc = Scratch::new();
            sc.write("kr.txt", keyring.as_bytes());
            sc.write("plain.bin", &pl);
            let mut c = Cmd::new(&["encrypt", "plain.bin", "-t", "bob", "-f", "alice", "-k", "kr.txt", "-o", "out.ktl", "--env-pass"]).env("KESTREL_PASSWORD", "alicepw");
            for (k, v) in env {
                c = c.env(k, v);
            }
            let out = proc::run(&c, &sc.0);
            if out.ok() {
                sc.read("out.ktl")
            } else {
                None
            }
        };
        if !std::path::Path::new(RNG_SHIM).exists() {
            rep.violation("rngfault/machinery", json!({"kind":"rngfault"}), format!("MACHINERY: {} not built", RNG_SHIM));
        } else {
            match rng_calls(|env| run(env).is_some()) {
                Some(n) if n >= 1 => {
                    let scheds = rng_schedules(n);
                    let files: Vec<(String, usize, Option<Vec<u8>>)> = scheds.par_iter().map(|(m, k)| (m.clone(), *k, run(&rng_env(m, *k, None)))).collect();
                    let mut produced = 0;
                    for (m, kk, f) in files {
                        rep.eval(1);
                        rep.nontrivial(format!("rngfault-{}-{}", m, kk).as_bytes());
                        if let Some(file) = f {
                            produced += 1;
                            let case = json!({"kind":"rngfault","mode":m,"k":kk});
                            if file.len() < 132 {
                                rep.violation("public/not-conforming", case, "kestrel encrypt exit 0 with a file shorter than a header".into());
                                continue;
                            }
                            public_reader(rep, case, &file, &bob.sk, &bob.pk, &alice.pk);
                        }
                    }
                    rep.extra("rng_schedules_cli_encrypt", json!({"getrandom_calls":n,"schedules":scheds.len(),"files_produced":produced}));
                }
                other => rep.violation("rngfault/shim-not-effective", json!({"kind":"rngfault"}), format!("MACHINERY: counting run saw {:?} getrandom calls", other)),
            }
        }
    }
    // CLI: the keys used are those of the keyring the command line names (-k), whatever else the environment offers;
    // the sender reported is the entry of THAT keyring whose key equals the authenticated sender key
    {
        use crate::fx::Party;
        use crate::proc::{self, Cmd, Scratch};
        let alice = Party::new(seed, "alice", "alicepw");
        let bob = Party::new(seed, "bob", "bobpw");
        // a decoy keyring binding the same names to other key pairs (same passwords, so nothing fails loudly)
        let da = Party::new(seed, "decoy-for-alice", "alicepw");
        let db = Party::new(seed, "decoy-for-bob", "bobpw");
        let ring = crate::fx::keyring(&[(&alice, true), (&bob, true)]);
        let decoy = format!("{}\n{}\n", proc::keyring_entry("alice", &da.pk_enc, Some(&da.locked)), proc::keyring_entry("bob", &db.pk_enc, Some(&db.locked)));
        let pl = plaintext(seed ^ 0x5f, 200);
        let e = derive32(seed, "c05-cli-e");
        let pay = derive32(seed, "c05-cli-pay");
        // messages to the REAL bob: from the real alice, and from the decoy "alice" (whose key the real ring does not contain)
        let from_alice = r::write_key_file(&alice.sk, &bob.pk, &e, &pay, &pl, &[pl.len()]).unwrap();
        let from_decoy = r::write_key_file(&da.sk, &bob.pk, &e, &pay, &pl, &[pl.len()]).unwrap();
        // names that differ only in letter case, prefix or suffix are different entries: `-t bob` addresses bob's key,
        // whichever entry is listed first
        {
            let variants: Vec<(&str, Party)> = ["Bob", "BOB", "bo", "bobb", " bob"].iter().map(|n| (*n, Party::new(seed, &format!("variant-{}", n), "x"))).collect();
            for first in [true, false] {
                rep.eval(1);
                rep.nontrivial(format!("cli-name-variants-{}", first).as_bytes());
                let var_entries: String = variants.iter().filter(|(n, _)| !n.starts_with(' ')).map(|(n, p)| proc::keyring_entry(n, &p.pk_enc, None)).collect::<Vec<_>>().join("\n");
                let real = crate::fx::keyring(&[(&alice, true), (&bob, true)]);
                let text = if first { format!("{}\n{}", var_entries, real) } else { format!("{}\n{}", real, var_entries) };
                let sc = Scratch::new();
                sc.write("ring.txt", text.as_bytes());
                sc.write("plain.bin", &pl);
                let o = proc::run(&Cmd::new(&["encrypt", "plain.bin", "-t", "bob", "-f", "alice", "-k", "ring.txt", "-o", "out.ktl", "--env-pass"]).env("KESTREL_PASSWORD", "alicepw"), &sc.0);
                let f = sc.read("out.ktl").unwrap_or_default();
                let case = json!({"kind":"cli-keyring","name_variants_first":first});
                if !o.ok() {
                    rep.violation("cli-keyring/encrypt-fails", case, format!("kestrel encrypt -t bob with entries named Bob/BOB/bo/bobb next to bob failed: {}", o.summary()));
                } else if !matches!(r::read_key_file(&bob.sk, &f), Ok(k) if k.parsed.plaintext == pl) {
                    let who = variants.iter().find(|(_, p)| r::read_key_file(&p.sk, &f).is_ok()).map(|(n, _)| *n);
                    rep.violation("cli-keyring/encrypted-to-a-similarly-named-key", case, format!("kestrel encrypt -t bob: the file does not open under bob's key{}", who.map(|n| format!(" - it opens under the key of the entry named '{}'", n)).unwrap_or_default()));
                }
            }
        }
        // two different key pairs whose keyring CHECKSUMS coincide (found by a birthday search over ~10^5 derived keys):
        // a file made with one of them must not be attributed to the keyring entry of the other
        {
            use rayon::prelude::*;
            let cands: Vec<([u8; 4], u32)> = (0..200_000u32)
                .into_par_iter()
                .map(|i| {
                    let sk = derive32(seed, &format!("c05-coll-{}", i));
                    let pk = r::x25519_base(&sk);
                    let h = r::sha256(&pk);
                    ([h[0], h[1], h[2], h[3]], i)
                })
                .collect();
            let mut map: std::collections::HashMap<[u8; 4], u32> = std::collections::HashMap::new();
            let mut pair: Option<(u32, u32)> = None;
            for (c, i) in &cands {
                if let Some(j) = map.insert(*c, *i) {
                    pair = Some((j.min(*i), j.max(*i)));
                    break;
                }
            }
            rep.eval(1);
            match pair {
                None => crate::report::machinery("no checksum collision among 200000 derived keys (expected ~4.6)"),
                Some((a, m)) => {
                    let ska = derive32(seed, &format!("c05-coll-{}", a));
                    let skm = derive32(seed, &format!("c05-coll-{}", m));
                    let (pka, pkm) = (r::x25519_base(&ska), r::x25519_base(&skm));
                    let text = format!("{}\n{}", bob.entry(true), proc::keyring_entry("alice", &r::encode_pk(&pka), None));
                    let f = r::write_key_file(&skm, &bob.pk, &e, &pay, &pl, &[pl.len()]).unwrap();
                    let sc = Scratch::new();
                    sc.write("ring.txt", text.as_bytes());
                    sc.write("m.ktl", &f);
                    let o = proc::run(&Cmd::new(&["decrypt", "m.ktl", "-t", "bob", "-k", "ring.txt", "-o", "m.out", "--env-pass"]).env("KESTREL_PASSWORD", "bobpw"), &sc.0);
                    rep.nontrivial(b"checksum-collision-pair");
                    if o.stderr.contains("File from:") {
                        rep.violation("cli-keyring/sender-attributed-to-a-key-with-the-same-checksum", json!({"kind":"cli-keyring","collision":[a, m]}), format!("a file made with the private key of {} is reported as `{}`: the keyring entry 'alice' holds a different key ({}) that merely has the same 4-byte checksum", r::encode_pk(&pkm), o.stderr.lines().find(|l| l.contains("File from:")).unwrap_or("").trim(), r::encode_pk(&pka)));
                    } else if !o.ok() || !o.stderr.contains(&r::encode_pk(&pkm)) {
                        rep.violation("cli-keyring/unknown-sender-not-reported", json!({"kind":"cli-keyring","collision":[a, m]}), format!("expected success with the unknown key's encoding, got {}", o.summary()));
                    }
                }
            }
        }
        for env_decoy in [false, true] {
            for via_env_only in [false, true] {
                if via_env_only && env_decoy {
                    continue;
                }
                rep.eval(3);
                let tag = format!("cli-keyring-{}-{}", env_decoy, via_env_only);
                rep.nontrivial(tag.as_bytes());
                let sc = Scratch::new();
                sc.write("ring.txt", ring.as_bytes());
                sc.write("decoy.txt", decoy.as_bytes());
                sc.write("plain.bin", &pl);
                sc.write("a.ktl", &from_alice);
                sc.write("d.ktl", &from_decoy);
                let wire = |mut args: Vec<&'static str>, pw: &str| -> Cmd {
                    if !via_env_only {
                        args.extend_from_slice(&["-k", "ring.txt"]);
                    }
                    let mut c = Cmd::new(&args).env("KESTREL_PASSWORD", pw);
                    if via_env_only {
                        c = c.env("KESTREL_KEYRING", "ring.txt");
                    } else if env_decoy {
                        c = c.env("KESTREL_KEYRING", "decoy.txt");
                    }
                    c
                };
                let case = json!({"kind":"cli-keyring","env_decoy":env_decoy,"keyring_from_env_only":via_env_only});
                let how = if via_env_only { "keyring named by KESTREL_KEYRING only" } else if env_decoy { "-k ring.txt while KESTREL_KEYRING names a decoy keyring with the same names" } else { "-k ring.txt" };
                // encrypt: the file must open under the ring's bob and name the ring's alice; the decoy bob must not open it
                let o = proc::run(&wire(vec!["encrypt", "plain.bin", "-t", "bob", "-f", "alice", "-o", "out.ktl", "--env-pass"], "alicepw"), &sc.0);
                let f = sc.read("out.ktl").unwrap_or_default();
                if !o.ok() {
                    rep.violation("cli-keyring/encrypt-fails", case.clone(), format!("kestrel encrypt ({}) failed: {}", how, o.summary()));
                } else {
                    match r::read_key_file(&bob.sk, &f) {
                        Ok(k) if k.sender == alice.pk && k.parsed.plaintext == pl => {}
                        _ => rep.violation("cli-keyring/encrypted-to-or-from-another-key", case.clone(), format!("kestrel encrypt -t bob -f alice ({}): the file does not open under the named keyring's bob with the named keyring's alice as sender{}", how, if r::read_key_file(&db.sk, &f).is_ok() { " — it opens under the decoy keyring's bob" } else { "" })),
                    }
                }
                // decrypt a message from the real alice: named "alice"
                let o = proc::run(&wire(vec!["decrypt", "a.ktl", "-t", "bob", "-o", "a.out", "--env-pass"], "bobpw"), &sc.0);
                if !o.ok() || !o.stderr.contains("File from: alice") || sc.read("a.out").as_deref() != Some(&pl[..]) {
                    rep.violation("cli-keyring/decrypt", case.clone(), format!("kestrel decrypt ({}) of a message from the keyring's alice: {}", how, o.summary()));
                }
                // decrypt a message made with a key the named keyring does not contain: unknown key, never "alice"
                let o = proc::run(&wire(vec!["decrypt", "d.ktl", "-t", "bob", "-o", "d.out", "--env-pass"], "bobpw"), &sc.0);
                if o.stderr.contains("File from:") {
                    rep.violation("cli-keyring/sender-vouched-for-by-another-keyring", case.clone(), format!("kestrel decrypt ({}) of a message whose sender key is not in the named keyring reports: {}", how, o.stderr.lines().find(|l| l.contains("File from:")).unwrap_or("")));
                } else if !o.ok() || !o.stderr.contains(&da.pk_enc) {
                    rep.violation("cli-keyring/unknown-sender-not-reported", case.clone(), format!("kestrel decrypt ({}) of a message from an unknown key: expected success with the unknown key's encoding, got {}", how, o.summary()));
                }
            }
        }
    }
    rep.extra("special_points", json!(sp.len()));
    rep.extra("small_order_encodings", json!(small));
    rep.sample(json!({"kind":"special-recipient","name":"small-order-5-bit255","expect":"key_encrypt returns Err and writes nothing"}));
    cli_refused_recipients(rep);
    cli_keyring_orders(rep);
    rep.set_exhaustive(true);
}

pub fn replay(rep: &'static Report, case: &Value) {
    if case["kind"] == "cli-order" {
        cli_keyring_orders(rep);
        return;
    }
    if case["kind"] == "cli-refused" {
        cli_refused_recipients(rep);
        return;
    }
    // the grid is tiny: re-run it and report only clauses that recur (verdicts are deterministic)
    println!("  replaying the C05 grid (deterministic, <1 s); case: {}", case);
    run(rep);
}
