//! C17 — keyring parsing: complete, unambiguous entries; checksummed keys; no crashes (E-GRID).
use crate::kra;
use crate::refspec as r;
use crate::report::{Report, Tier};
use crate::util::*;
use rayon::prelude::*;
use serde_json::{json, Value};
use std::sync::atomic::{AtomicU64, Ordering};

#[derive(Clone, Debug, PartialEq)]
pub struct Entry {
    pub name: String,
    pub pk: String,
    pub sk: Option<String>,
}

#[derive(Debug, PartialEq)]
pub enum Class {
    /// in the documented well-formed subset: must be accepted with exactly these entries
    WellFormed(Vec<Entry>),
    /// violates a necessary condition of the statement unambiguously: must be rejected
    Bad(&'static str),
    /// constructs whose treatment the statement leaves open: only "no crash" is demanded
    Open,
}

fn pk_well_formed(v: &str) -> bool {
    r::b64_decode(v).map(|b| b.len() == 36).unwrap_or(false)
}
fn sk_well_formed(v: &str) -> bool {
    r::b64_decode(v).map(|b| b.len() == 84).unwrap_or(false)
}

/// REF's reading of a keyring text (from docs/kestrel.1.md and the property statement).
pub fn classify(text: &str) -> Class {
    #[derive(Default)]
    struct Sec {
        names: Vec<String>,
        pks: Vec<String>,
        sks: Vec<String>,
    }
    let mut secs: Vec<Sec> = vec![];
    let mut open = false;
    for raw in text.split('\n') {
        let line: String = raw.chars().filter(|c| *c != '\t').collect();
        let line = line.trim();
        if line.is_empty() || line.starts_with('#') {
            continue;
        }
        if line == "[Key]" {
            secs.push(Sec::default());
            continue;
        }
        let (k, v) = match line.split_once('=') {
            Some((k, v)) => (k.trim(), v.trim()),
            None => {
                open = true; // junk or a field without '='
                continue;
            }
        };
        let sec = match secs.last_mut() {
            Some(s) => s,
            None => {
                open = true; // field outside a section
                continue;
            }
        };
        match k {
            "Name" => sec.names.push(v.to_string()),
            "PublicKey" => sec.pks.push(v.to_string()),
            "PrivateKey" => sec.sks.push(v.to_string()),
            _ => open = true,
        }
    }
    if secs.is_empty() {
        return Class::Open;
    }
    // ambiguous sections (a field given twice) are left open
    if secs.iter().any(|s| s.names.len() > 1 || s.pks.len() > 1 || s.sks.len() > 1) {
        open = true;
    }
    if !open {
        let mut entries = vec![];
        for s in &secs {
            if s.names.is_empty() {
                return Class::Bad("a [Key] section has no Name");
            }
            if s.pks.is_empty() {
                return Class::Bad("a [Key] section has no PublicKey");
            }
            let n = &s.names[0];
            if n.is_empty() || n.len() > 128 {
                return Class::Bad("a name is not 1..128 bytes");
            }
            // key text with whitespace inside: whether a tolerant reader may accept it is left open
            let ws = |v: &str| v.chars().any(|c| c.is_whitespace());
            if !pk_well_formed(&s.pks[0]) {
                if ws(&s.pks[0]) {
                    return Class::Open;
                }
                return Class::Bad("a public key is malformed");
            }
            if let Some(sk) = s.sks.first() {
                if !sk_well_formed(sk) {
                    if ws(sk) {
                        return Class::Open;
                    }
                    return Class::Bad("a private key is malformed");
                }
            }
            entries.push(Entry { name: n.clone(), pk: s.pks[0].clone(), sk: s.sks.first().cloned() });
        }
        for i in 0..entries.len() {
            for j in 0..i {
                if entries[i].name == entries[j].name {
                    return Class::Bad("a name occurs twice");
                }
                if entries[i].pk == entries[j].pk {
                    return Class::Bad("a public key occurs twice");
                }
            }
        }
        return Class::WellFormed(entries);
    }
    Class::Open
}

struct Obs {
    accepted: bool,
    /// lookups for the probe names / keys
    by_name: Vec<Option<Entry>>,
    by_key: Vec<Option<String>>,
}

fn observe(text: &str, names: &[&str], pks: &[&str]) -> Result<Obs, String> {
    guarded(|| match kra::parse(text) {
        Err(_) => Obs { accepted: false, by_name: vec![], by_key: vec![] },
        Ok(kr) => {
            let by_name = names.iter().map(|n| kr.get_key(n).map(|k| Entry { name: k.name, pk: k.pk, sk: k.sk })).collect();
            let by_key = pks.iter().map(|p| kr.name_from_pk(p)).collect();
            Obs { accepted: true, by_name, by_key }
        }
    })
}

pub fn judge(rep: &Report, text: &str, names: &[&str], pks: &[&str]) -> bool {
    if !kra::AVAILABLE {
        return true; // in-process seam unavailable: see cli_lookup and the other CLI-level parts
    }
    let case = || json!({"kind":"text","text":text});
    let obs = match observe(text, names, pks) {
        Ok(o) => o,
        Err(m) => {
            rep.violation("parse/panic", case(), format!("parser panicked on {:?}: {}", text, m));
            return false;
        }
    };
    match classify(text) {
        Class::Open => true,
        Class::Bad(why) => {
            if obs.accepted {
                rep.violation(&format!("parse/accepted-bad:{}", why), case(), format!("keyring accepted although {}: {:?}", why, text));
                return false;
            }
            true
        }
        Class::WellFormed(entries) => {
            if !obs.accepted {
                rep.violation("parse/rejected-well-formed", case(), format!("well-formed keyring rejected: {:?}", text));
                return false;
            }
            for (i, n) in names.iter().enumerate() {
                let want = entries.iter().find(|e| e.name == *n).cloned();
                if obs.by_name[i] != want {
                    rep.violation("lookup/by-name", case(), format!("lookup of name {:?} gives {:?}, the file says {:?}", n, obs.by_name[i], want));
                    return false;
                }
            }
            for (i, p) in pks.iter().enumerate() {
                let want = entries.iter().find(|e| e.pk == *p).map(|e| e.name.clone());
                if obs.by_key[i] != want {
                    rep.violation("lookup/by-key", case(), format!("lookup of public key {} gives {:?}, the file says {:?}", p, obs.by_key[i], want));
                    return false;
                }
            }
            true
        }
    }
}

pub struct Alpha {
    tokens: Vec<String>,
    names: Vec<&'static str>,
    pks: Vec<String>,
}

fn alphabet(seed: u64) -> Alpha {
    let ids = idents(seed);
    let k1 = r::encode_pk(&ids[0].pk);
    let k2 = r::encode_pk(&ids[1].pk);
    let s1 = r::b64(&derive(seed, "c17-sk", 84));
    let short = r::b64(&derive(seed, "c17-35", 35));
    // the 32 key bytes of K1 with a WRONG checksum: well-formed for the parser, a different encoded key for lookups
    let k1_badsum = {
        let mut b = r::b64_decode(&k1).unwrap();
        b[35] ^= 0x01;
        r::b64(&b)
    };
    let tokens = vec![
        "[Key]".to_string(),
        "Name = a".to_string(),
        "Name = b".to_string(),
        "Name =".to_string(),
        "Name".to_string(),
        format!("PublicKey = {}", k1),
        format!("PublicKey = {}", k2),
        format!("PublicKey = {}", short),
        format!("PrivateKey = {}", s1),
        "PrivateKey = junk".to_string(),
        "# c".to_string(),
        "".to_string(),
        "junk".to_string(),
        format!("PublicKey = {} {}", &k2[..20], &k2[20..]),
        format!("PublicKey = {}", k1_badsum),
    ];
    Alpha { tokens, names: vec!["a", "b", "", "c"], pks: vec![k1, k2, k1_badsum] }
}

fn enumerate(rep: &Report, al: &Alpha, tokens: &[String], maxlen: usize, decorate: bool, counter: &AtomicU64, wf: &AtomicU64, bad: &AtomicU64) {
    let n = tokens.len();
    let pks: Vec<&str> = al.pks.iter().map(|s| s.as_str()).collect();
    // every sequence of 0..=maxlen tokens; parallel over the first two positions
    let mut heads: Vec<Vec<usize>> = vec![vec![]];
    for a in 0..n {
        heads.push(vec![a]);
        for b in 0..n {
            heads.push(vec![a, b]);
        }
    }
    heads.par_iter().for_each(|head| {
        let complete_only = head.len() < 2; // shorter than two tokens: just this one sequence
        let mut idx: Vec<usize> = head.clone();
        let mut stack: Vec<Vec<usize>> = vec![head.clone()];
        let _ = &mut idx;
        while let Some(seq) = stack.pop() {
            let text = seq.iter().map(|&i| tokens[i].as_str()).collect::<Vec<_>>().join("\n");
            let variants: Vec<String> = if decorate { vec![text.clone(), text.clone() + "\n", text.replace('\n', "\r\n")] } else { vec![text.clone(), text.clone() + "\n"] };
            for t in variants.iter().take(if decorate { 3 } else if seq.len() <= 3 { 2 } else { 1 }) {
                counter.fetch_add(1, Ordering::Relaxed);
                match classify(t) {
                    Class::WellFormed(_) => {
                        wf.fetch_add(1, Ordering::Relaxed);
                    }
                    Class::Bad(_) => {
                        bad.fetch_add(1, Ordering::Relaxed);
                    }
                    Class::Open => {}
                }
                judge(rep, t, &al.names, &pks);
            }
            if !complete_only && seq.len() < maxlen {
                for k in 0..n {
                    let mut s2 = seq.clone();
                    s2.push(k);
                    stack.push(s2);
                }
            }
        }
    });
}

fn roundtrip(rep: &Report, name: &str, pk: &str, sk: &str, other: Option<(&str, &str, &str)>) {
    rep.eval(1);
    // what `key generate` does: trim, validate, serialize
    let name = name.trim();
    if !kra::AVAILABLE || !kra::valid_key_name(name) {
        return;
    }
    let case = json!({"kind":"roundtrip","name":name,"pk":pk,"sk":sk,"other":other.map(|o| json!([o.0,o.1,o.2]))});
    let r1 = guarded(|| {
        let mut text = kra::serialize_key(name, pk, sk);
        if let Some((on, opk, osk)) = other {
            text.push('\n');
            text.push_str(&kra::serialize_key(on, opk, osk));
        }
        match kra::parse(&text) {
            Err(e) => Err(format!("keyring written by the tool for name {:?} does not parse: {}", name, e)),
            Ok(kr) => match kr.get_key(name) {
                None => Err(format!("name {:?} written by the tool is not found after parsing", name)),
                Some(k) => {
                    if k.name != name || k.pk != pk || k.sk.as_deref() != Some(sk) {
                        Err(format!("entry read back for {:?} differs from what was written (name {:?})", name, k.name))
                    } else if kr.name_from_pk(pk).as_deref() != Some(name) {
                        Err(format!("lookup by public key does not return {:?}", name))
                    } else {
                        Ok(())
                    }
                }
            },
        }
    });
    match r1 {
        Err(m) => rep.violation("roundtrip/panic", case, format!("panic for name {:?}: {}", name, m)),
        Ok(Err(e)) => rep.violation("roundtrip/lost", case, e),
        Ok(Ok(())) => {}
    }
}

fn pubkey_case(rep: &Report, s: &str) {
    rep.eval(1);
    let want = r::decode_pk(s);
    if !kra::AVAILABLE {
        return;
    }
    let got = guarded(|| kra::decode_pk(s));
    let case = json!({"kind":"pubkey","s":s});
    match got {
        Err(m) => rep.violation("pubkey/panic", case, format!("panic decoding {:?}: {}", s, m)),
        Ok(g) => {
            // whitespace inside the text: a tolerant decoder may accept it, but then it must decode to the same key
            let stripped: String = s.chars().filter(|c| !c.is_whitespace()).collect();
            if stripped != s {
                if let (Some(gk), Some(wk)) = (&g, r::decode_pk(&stripped)) {
                    if gk[..] == wk[..] {
                        return;
                    }
                }
                if g.is_none() {
                    return;
                }
            }
            if g.as_deref() != want.as_ref().map(|k| &k[..]) {
                rep.violation(
                    if g.is_some() { "pubkey/accepted-bad-checksum-or-format" } else { "pubkey/rejected-valid" },
                    case,
                    format!("encoded public key {:?}: implementation {}, reference (base64 of 32 bytes || first 4 bytes of SHA-256) {}", s, if g.is_some() { "usable" } else { "rejected" }, if want.is_some() { "valid" } else { "invalid" }),
                );
            }
        }
    }
}

/// CLI level, the public interface only: for every sequence of <= 2 (quick) / 3 (thorough) complete sections over the
/// 12-section alphabet, followed by the recipient's own section, `kestrel decrypt` of a message from each of three
/// senders must (a) refuse a keyring that REF classifies as bad, (b) for a well-formed one succeed and name the sender
/// exactly as REF's reading of the file says (encoded-key equality: a bad-checksum copy of a key is a different key,
/// names are case-sensitive), or report an unknown key when no section carries the sender's encoded key.
fn cli_lookup(rep: &Report, al: &Alpha) {
    use crate::fx::Party;
    use crate::proc::{self, Cmd, Scratch};
    let seed = rep.seed;
    let ids = idents(seed);
    let rc = Party::new(seed, "rcpt", "rcpt-pw");
    let body = b"lookup message".to_vec();
    let files: Vec<Vec<u8>> = (0..3).map(|i| r::write_key_file(&ids[i].sk, &rc.pk, &derive32(seed, &format!("c17-e-{}", i)), &derive32(seed, &format!("c17-p-{}", i)), &body, &[body.len()]).unwrap()).collect();
    let spk: Vec<String> = (0..3).map(|i| r::encode_pk(&ids[i].pk)).collect();
    let (k1, k2, k1bad) = (&al.pks[0], &al.pks[1], &al.pks[2]);
    let k3 = spk[2].clone();
    let k3bad = {
        let mut b = r::b64_decode(&k3).unwrap();
        b[33] ^= 0x40;
        r::b64(&b)
    };
    let sk = al.tokens[8].clone();
    let mut secs: Vec<String> = vec![];
    for (n, k) in [("a", k1), ("a", k2), ("b", k1), ("b", k2), ("c", &k3), ("A", &k3), ("a", k1bad), ("c", k1bad), ("m", &k3bad)] {
        secs.push(format!("[Key]\nName = {}\nPublicKey = {}\n", n, k));
    }
    secs.push(format!("[Key]\nName = b\nPublicKey = {}\n{}\n", k2, sk));
    secs.push(format!("[Key]\nPublicKey = {}\nName = c\n# comment\n", k3));
    secs.push("[Key]\nName = d\n".to_string());
    let n = secs.len();
    let depth = rep.tier.pick(2usize, 3);
    let mut seqs: Vec<Vec<usize>> = vec![vec![]];
    let mut frontier: Vec<Vec<usize>> = vec![vec![]];
    for _ in 0..depth {
        let mut next = vec![];
        for s0 in &frontier {
            for k in 0..n {
                let mut s1 = s0.clone();
                s1.push(k);
                next.push(s1);
            }
        }
        seqs.extend(next.iter().cloned());
        frontier = next;
    }
    let runs = AtomicU64::new(0);
    seqs.par_iter().for_each(|sq| {
        let mut parts: Vec<String> = sq.iter().map(|&i| secs[i].clone()).collect();
        parts.push(rc.entry(true));
        let text = parts.join("\n");
        let class = classify(&text);
        let senders: Vec<usize> = if matches!(class, Class::WellFormed(_)) { vec![0, 1, 2] } else { vec![0] };
        for si in senders {
            rep.eval(1);
            runs.fetch_add(1, Ordering::Relaxed);
            let sc = Scratch::new();
            sc.write("kr.txt", text.as_bytes());
            sc.write("m.ktl", &files[si]);
            let out = proc::run(&Cmd::new(&["decrypt", "m.ktl", "-t", "rcpt", "-k", "kr.txt", "-o", "out.bin", "--env-pass"]).env("KESTREL_PASSWORD", "rcpt-pw"), &sc.0);
            let case = json!({"kind":"cli-lookup","sections":sq,"sender":si,"text":text});
            if let Err(e) = out.well_behaved() {
                rep.violation("cli-lookup/ill-behaved", case, format!("kestrel decrypt with keyring {:?}: {}", text, e));
                continue;
            }
            let named: Option<String> = out.stderr.lines().find_map(|l| l.split_once("File from: ").map(|x| x.1.to_string()));
            let unknown = out.stderr.contains("unknown key");
            match &class {
                Class::Open => {}
                Class::Bad(why) => {
                    if out.ok() {
                        rep.violation(&format!("cli-lookup/accepted-bad:{}", why), case, format!("kestrel decrypt works with a keyring although {}: {:?}", why, text));
                    }
                }
                Class::WellFormed(entries) => {
                    rep.nontrivial(format!("cli-lookup-{:?}-{}", sq, si).as_bytes());
                    let want = entries.iter().find(|e| e.pk == spk[si]).map(|e| e.name.clone());
                    if !out.ok() || sc.read("out.bin").as_deref() != Some(&body[..]) {
                        rep.violation("cli-lookup/rejected-well-formed", case, format!("kestrel decrypt fails with a well-formed keyring {:?}: {}", text, out.summary()));
                    } else if named != want || (want.is_none() && !unknown) {
                        rep.violation(
                            "cli-lookup/by-key",
                            case,
                            format!("kestrel decrypt reports the sender as {:?}{}; the keyring file says {:?} for the sender's encoded key {} (keyring {:?})", named, if unknown { " (unknown key)" } else { "" }, want, spk[si], text),
                        );
                    }
                }
            }
        }
    });
    // long keyring FILES (70 KiB / 300 KiB of comment lines before, between or after the sections): every section counts,
    // wherever it sits in the file
    {
        let pad = |kib: usize| -> String { "# a comment line that pads the keyring file, nothing more ...............................\n".repeat(kib * 1024 / 90 + 1) };
        let s_alice = secs[0].clone(); // name a, key k1 = sender 0
        let mut cases: Vec<(String, String, Option<&str>, bool)> = vec![]; // (descr, text, expected sender name, must succeed)
        for kib in [70usize, 300] {
            cases.push((format!("{} KiB of comments, then sender and recipient sections", kib), format!("{}{}\n{}", pad(kib), s_alice, rc.entry(true)), Some("a"), true));
            cases.push((format!("sender section, {} KiB of comments, recipient section", kib), format!("{}\n{}{}", s_alice, pad(kib), rc.entry(true)), Some("a"), true));
            cases.push((format!("recipient section, {} KiB of comments, sender section", kib), format!("{}\n{}{}", rc.entry(true), pad(kib), s_alice), Some("a"), true));
            // a duplicate name far down the file still makes the keyring bad
            cases.push((format!("sections, {} KiB of comments, then a section repeating the name 'a' with another key", kib), format!("{}\n{}\n{}{}", s_alice, rc.entry(true), pad(kib), secs[1]), None, false));
        }
        cases.par_iter().for_each(|(descr, text, want, must_work)| {
            rep.eval(1);
            rep.nontrivial(format!("cli-long-keyring-{}", descr).as_bytes());
            let sc = Scratch::new();
            sc.write("kr.txt", text.as_bytes());
            sc.write("m.ktl", &files[0]);
            let out = proc::run(&Cmd::new(&["decrypt", "m.ktl", "-t", "rcpt", "-k", "kr.txt", "-o", "out.bin", "--env-pass"]).env("KESTREL_PASSWORD", "rcpt-pw"), &sc.0);
            let case = json!({"kind":"cli-lookup","long_keyring":descr});
            let named: Option<String> = out.stderr.lines().find_map(|l| l.split_once("File from: ").map(|x| x.1.to_string()));
            if let Err(e) = out.well_behaved() {
                rep.violation("cli-lookup/ill-behaved", case, e);
            } else if *must_work && (!out.ok() || named.as_deref() != *want) {
                rep.violation("cli-lookup/long-keyring-section-ignored", case, format!("keyring file = {}: kestrel decrypt exit {:?}, sender reported {:?}, expected {:?}", descr, out.code, named, want));
            } else if !*must_work && out.ok() {
                rep.violation("cli-lookup/long-keyring-bad-section-ignored", case, format!("keyring file = {}: accepted (exit 0) although the file is not a well-formed keyring", descr));
            }
        });
    }
    // the entry used as the recipient (-t) has a PublicKey whose checksum does not match, or that is a well-formed
    // encoding of ANOTHER key: "an encoded public key is usable only if its 4-byte checksum matches" -> decrypt must refuse
    {
        let good = rc.pk_enc.clone();
        let blob = r::b64_decode(&good).unwrap();
        let mut variants: Vec<(String, String, bool)> = vec![("pristine".into(), good.clone(), true)];
        for (i, bit) in [(32usize, 0x01u8), (33, 0x80), (35, 0x10), (34, 0xff)] {
            let mut b = blob.clone();
            b[i] ^= bit;
            variants.push((format!("checksum byte {} changed", i - 32), r::b64(&b), false));
        }
        {
            // one key byte changed, checksum left alone (so it does not match either)
            let mut b = blob.clone();
            b[5] ^= 0x04;
            variants.push(("key byte 5 changed, old checksum".into(), r::b64(&b), false));
        }
        // every letter of the encoding switched to the other case, one at a time (a different string: the checksum cannot
        // match any more unless the comparison ignores case)
        {
            let chars: Vec<char> = good.chars().collect();
            for (i, c) in chars.iter().enumerate() {
                if c.is_ascii_alphabetic() {
                    let mut v = chars.clone();
                    v[i] = if c.is_ascii_lowercase() { c.to_ascii_uppercase() } else { c.to_ascii_lowercase() };
                    variants.push((format!("character {} ('{}') in the other case", i, c), v.into_iter().collect(), false));
                }
            }
        }
        variants.par_iter().for_each(|(vn, pk, usable)| {
            rep.eval(1);
            rep.nontrivial(format!("cli-recipient-{}", vn).as_bytes());
            let text = format!("{}\n{}", secs[0], crate::proc::keyring_entry("rcpt", pk, Some(&rc.locked)));
            let sc = Scratch::new();
            sc.write("kr.txt", text.as_bytes());
            sc.write("m.ktl", &files[0]);
            let out = proc::run(&Cmd::new(&["decrypt", "m.ktl", "-t", "rcpt", "-k", "kr.txt", "-o", "out.bin", "--env-pass"]).env("KESTREL_PASSWORD", "rcpt-pw"), &sc.0);
            let case = json!({"kind":"cli-lookup","recipient_variant":vn});
            if let Err(e) = out.well_behaved() {
                rep.violation("cli-lookup/ill-behaved", case, e);
            } else if out.ok() != *usable {
                rep.violation(
                    if *usable { "cli-lookup/pristine-recipient-refused" } else { "cli-lookup/recipient-key-with-bad-checksum-used" },
                    case,
                    format!("kestrel decrypt -t rcpt where the rcpt entry's PublicKey is [{}]: exit {:?} ({})", vn, out.code, if *usable { "should work" } else { "an encoded public key whose checksum does not match must not be usable" }),
                );
            }
        });
    }
    rep.extra("cli_lookup", json!({"sections":n,"max_sections":depth,"keyrings":seqs.len(),"decrypt_runs":runs.load(Ordering::Relaxed)}));
}

/// "Every keyring the tool writes parses back", for keyrings assembled the way the documentation suggests: `key generate`
/// printing to stdout with the shell appending (`>> F`), mixed with `-o F`, every sequence of up to three steps. After
/// every step F is a well-formed keyring with all names so far, and a command that opens it (`decrypt -k F`) reads it.
fn cli_stdout_append(rep: &Report) {
    use crate::proc::{self, Cmd, Scratch};
    let mut seqs: Vec<Vec<char>> = vec![];
    for n in 1..=3usize {
        for m in 0..(1u32 << n) {
            seqs.push((0..n).map(|i| if m >> i & 1 == 1 { 's' } else { 'o' }).collect());
        }
    }
    seqs.retain(|s| s.contains(&'s'));
    seqs.par_iter().for_each(|seq| {
        rep.eval(seq.len() as u64);
        let label: String = seq.iter().collect();
        rep.nontrivial(format!("cli-stdout-append-{}", label).as_bytes());
        let attempt = || -> Result<(), String> {
            let sc = Scratch::new();
            for (i, how) in seq.iter().enumerate() {
                let name = format!("key{}", i + 1);
                let described: Vec<&str> = seq[..=i].iter().map(|c| if *c == 's' { "key generate >> F" } else { "key generate -o F" }).collect();
                if *how == 's' {
                    let o = proc::run(&Cmd::new(&["key", "generate", "--env-pass"]).env("KESTREL_PASSWORD", "pw").stdin(format!("{}\n", name).as_bytes()), &sc.0);
                    o.well_behaved()?;
                    if !o.ok() {
                        return Err(format!("key generate to stdout fails: {}", o.summary()));
                    }
                    let mut cur = sc.read("F").unwrap_or_default();
                    cur.extend_from_slice(&o.stdout);
                    sc.write("F", &cur);
                } else {
                    let o = proc::run(&Cmd::new(&["key", "generate", "-o", "F", "--env-pass"]).env("KESTREL_PASSWORD", "pw").stdin(format!("{}\n", name).as_bytes()), &sc.0);
                    o.well_behaved()?;
                    if !o.ok() {
                        return Err(format!("after {:?}: key generate -o F fails: {}", &described[..i], o.summary()));
                    }
                }
                let text = String::from_utf8_lossy(&sc.read("F").unwrap_or_default()).to_string();
                match classify(&text) {
                    Class::WellFormed(es) if es.len() == i + 1 && (0..=i).all(|k| es.iter().any(|e| e.name == format!("key{}", k + 1) && e.sk.is_some())) => {}
                    other => return Err(format!("after {:?} the file is not a well-formed keyring of {} keys: {:?}", described, i + 1, match other { Class::WellFormed(es) => format!("{} entries", es.len()), Class::Bad(w) => w.to_string(), Class::Open => "not in the well-formed subset".to_string() })),
                }
                // a command that opens the keyring reads it: extract the newest public key by encrypting to it
                sc.write("plain.bin", b"x");
                let o = proc::run(&Cmd::new(&["encrypt", "plain.bin", "-t", &name, "-f", "key1", "-k", "F", "-o", "out.ktl", "--env-pass"]).env("KESTREL_PASSWORD", "pw"), &sc.0);
                o.well_behaved()?;
                if !o.ok() {
                    return Err(format!("after {:?} the tool cannot use the keyring it wrote: {}", described, o.summary()));
                }
            }
            Ok(())
        };
        if attempt().is_err() {
            if let Err(e) = attempt() {
                rep.violation("cli/keyring-assembled-from-stdout", json!({"kind":"cli-append","sequence":label}), e);
            }
        }
    });
    rep.extra("cli_stdout_append_sequences", json!(seqs.len()));
}

pub fn run(rep: &'static Report) {
    let seed = rep.seed;
    kra::note(rep);
    rep.set_rule("E-GRID: every sequence of <= 6 (quick) / 7 (thorough) lines over a 15-token alphabet (with/without final newline), every sequence of <= 4 lines over a reduced alphabet with line decorations, the serialize->parse round trip for every name of <= 3 characters over a 9-character alphabet and boundary lengths, and every single-character substitution / checksum perturbation of encoded public keys; each text is parsed by the real parser and compared with REF's reading. distinct non-trivial = texts that REF classifies as well-formed or as unambiguously bad (the others only check 'no crash') + round-trip names + key strings");
    rep.rule_add("Keyrings assembled from `key generate` output appended by the shell and/or -o, every sequence of <= 3 steps: well-formed after every step and usable by the tool.");
    rep.rule_add("CLI lookup through kestrel decrypt for every sequence of <=2/3 sections x 3 senders and 6 recipient-entry variants; names typed at key generate.");
    rep.assume("the statement gives necessary conditions for acceptance: texts using constructs it leaves open (duplicate fields in a section, fields outside a section, junk lines, no section) are only checked for 'no crash'");
    let al = alphabet(seed);
    rep.mute(!kra::AVAILABLE); // in-process parts count nothing when the seam is unavailable
    let counter = AtomicU64::new(0);
    let wf = AtomicU64::new(0);
    let bad = AtomicU64::new(0);
    let maxlen = rep.tier.pick(6, 7);
    enumerate(rep, &al, &al.tokens, maxlen, false, &counter, &wf, &bad);
    rep.extra("line_sequences", json!({"max_lines":maxlen,"tokens":al.tokens.len(),"texts":counter.load(Ordering::Relaxed)}));
    // decorations on a reduced alphabet
    let base = [0usize, 1, 2, 5, 6, 8, 10, 12];
    let mut dtokens: Vec<String> = vec![];
    for &b in &base {
        let t = &al.tokens[b];
        dtokens.push(t.clone());
        dtokens.push(format!("   {}", t));
        dtokens.push(format!("\t{}", t));
        dtokens.push(format!("{} \t ", t));
    }
    let before = counter.load(Ordering::Relaxed);
    enumerate(rep, &al, &dtokens, rep.tier.pick(3, 4), true, &counter, &wf, &bad);
    rep.extra("decorated_sequences", json!({"tokens":dtokens.len(),"texts":counter.load(Ordering::Relaxed)-before}));
    // sequences of COMPLETE sections: every sequence of <= 4 sections over a 12-section alphabet (duplicates that are
    // not adjacent, three-way clashes, bad-checksum copies of a key, case variants of a name)
    {
        let pks: Vec<&str> = al.pks.iter().map(|s| s.as_str()).collect();
        let (k1, k2, k1bad) = (&al.pks[0], &al.pks[1], &al.pks[2]);
        let k3 = r::encode_pk(&idents(seed)[2].pk);
        let sk = al.tokens[8].clone();
        let mut secs: Vec<String> = vec![];
        for (n, k) in [("a", k1), ("a", k2), ("b", k1), ("b", k2), ("c", &k3), ("A", &k3), ("a", k1bad), ("c", k1bad)] {
            secs.push(format!("[Key]\nName = {}\nPublicKey = {}\n", n, k));
        }
        secs.push(format!("[Key]\nName = b\nPublicKey = {}\n{}\n", k2, sk));
        secs.push(format!("[Key]\nPublicKey = {}\nName = c\n# comment\n", k3));
        secs.push("[Key]\nName = d\n".to_string());
        secs.push(format!("[Key]\nPublicKey = {}\n", k3));
        let n = secs.len();
        let depth = rep.tier.pick(4usize, 5);
        let mut seqs: Vec<Vec<usize>> = vec![vec![]];
        let mut frontier: Vec<Vec<usize>> = vec![vec![]];
        for _ in 0..depth {
            let mut next = vec![];
            for s0 in &frontier {
                for k in 0..n {
                    let mut s1 = s0.clone();
                    s1.push(k);
                    next.push(s1);
                }
            }
            seqs.extend(next.iter().cloned());
            frontier = next;
        }
        let names2 = ["a", "b", "c", "A", "d"];
        seqs.par_iter().for_each(|sq| {
            let text: String = sq.iter().map(|&i| secs[i].as_str()).collect::<Vec<_>>().join("\n");
            counter.fetch_add(1, Ordering::Relaxed);
            match classify(&text) {
                Class::WellFormed(_) => {
                    wf.fetch_add(1, Ordering::Relaxed);
                }
                Class::Bad(_) => {
                    bad.fetch_add(1, Ordering::Relaxed);
                }
                Class::Open => {}
            }
            judge(rep, &text, &names2, &pks);
        });
        rep.extra("section_sequences", json!({"sections":n,"max_sections":depth,"texts":seqs.len()}));
    }
    rep.mute(false);
    cli_lookup(rep, &al);
    rep.mute(!kra::AVAILABLE);
    // single-line shape grid: every byte length 0..140 of ASCII followed by multi-byte characters, in every line role
    // (a slice or limit at any byte offset of a line is exercised on and off a character boundary)
    let pks: Vec<&str> = al.pks.iter().map(|s| s.as_str()).collect();
    let roles = ["", "Name = ", "# ", "PublicKey = ", "PrivateKey = ", "[Key]", "Name", "= "];
    let mut shapes: Vec<String> = vec![];
    for role in roles {
        for k in 0..=140usize {
            for mb in ["", "\u{e9}", "\u{20ac}", "\u{1F600}"] {
                for m in [1usize, 4] {
                    if mb.is_empty() && m > 1 {
                        continue;
                    }
                    shapes.push(format!("{}{}{}", role, "x".repeat(k), mb.repeat(m)));
                }
            }
        }
    }
    // long values made of multi-byte characters (a byte-offset slice anywhere in a long name/line falls inside a character)
    for role in ["", "Name = ", "# ", "PublicKey = "] {
        for mb in ["\u{e9}", "\u{20ac}", "\u{1F600}"] {
            for pre in 0..4usize {
                for total in [40usize, 100, 127, 128, 129, 130, 160, 200, 260] {
                    let n = total.saturating_sub(pre) / mb.len();
                    shapes.push(format!("{}{}{}", role, "x".repeat(pre), mb.repeat(n)));
                }
            }
        }
    }
    let valid_sec = format!("[Key]\nName = v\n{}\n", al.tokens[5]);
    let nshape = shapes.len() * 3;
    shapes.par_iter().for_each(|line| {
        for text in [line.clone(), format!("{}{}", valid_sec, line), format!("[Key]\n{}\n{}\n", line, al.tokens[6])] {
            counter.fetch_add(1, Ordering::Relaxed);
            match classify(&text) {
                Class::WellFormed(_) => {
                    wf.fetch_add(1, Ordering::Relaxed);
                }
                Class::Bad(_) => {
                    bad.fetch_add(1, Ordering::Relaxed);
                }
                Class::Open => {}
            }
            judge(rep, &text, &al.names, &pks);
        }
    });
    rep.extra("line_shape_texts", json!(nshape));
    rep.eval(counter.load(Ordering::Relaxed));
    rep.add_distinct(wf.load(Ordering::Relaxed) + bad.load(Ordering::Relaxed));
    rep.extra("texts_well_formed", json!(wf.load(Ordering::Relaxed)));
    rep.extra("texts_unambiguously_bad", json!(bad.load(Ordering::Relaxed)));
    rep.sample(json!({"kind":"text","text":"[Key]\nName = a\nPublicKey = K1\n[Key]\nName = a\nPublicKey = K2","class":"bad: a name occurs twice","expect":"rejected"}));
    rep.sample(json!({"kind":"text","text":"[Key]\n# c\nPublicKey = K2\nPrivateKey = S1\nName = b\n","class":"well-formed","expect":"accepted; get_key(b) = (b, K2, S1)"}));

    // round trip of everything the tool writes
    let ids = idents(seed);
    let pk = r::encode_pk(&ids[0].pk);
    let pk2 = r::encode_pk(&ids[1].pk);
    let sk = r::b64(&derive(seed, "c17-sk", 84));
    let chars = ['a', ' ', '\t', '=', '#', '[', '\u{e9}', '\u{a0}', '\r'];
    let mut names: Vec<String> = vec![];
    for &a in &chars {
        names.push(a.to_string());
        for &b in &chars {
            names.push([a, b].iter().collect());
            for &c in &chars {
                names.push([a, b, c].iter().collect());
            }
        }
    }
    for extra in ["[Key]", "[Key] x", "Name", "Name = x", "PublicKey = y", "# not a comment", "a=b=c", "= a", "a =", "x\u{2028}y", "ops=prod"] {
        names.push(extra.to_string());
    }
    for n in [1usize, 127, 128, 129] {
        names.push("n".repeat(n));
        // multi-byte character straddling the limit
        if n >= 2 {
            names.push(format!("{}\u{e9}", "n".repeat(n - 2)));
            names.push(format!("{}\u{e9}", "n".repeat(n - 1)));
        }
    }
    names.sort();
    names.dedup();
    names.par_iter().for_each(|n| {
        roundtrip(rep, n, &pk, &sk, None);
        roundtrip(rep, n, &pk, &sk, Some(("zz", &pk2, &sk)));
        rep.nontrivial(format!("rt-{}", n).as_bytes());
    });
    rep.extra("roundtrip_names", json!(names.len()));
    rep.sample(json!({"kind":"roundtrip","name":"a=\u{e9}","expect":"serialize_key -> Keyring::new -> get_key returns the same name and keys"}));

    rep.mute(false);
    // CLI level: what `kestrel key generate` writes for a typed name must read back under exactly the written name
    {
        use crate::proc::{self, Cmd, Scratch};
        let typed: Vec<&str> = vec!["joe", "  joe", "joe  ", "\u{a0}joe", "\u{3000}wide", " two words ", "a=b", "=lead", "trail=", "#hash", "[Key]", "Name = x", "\u{e9}t\u{e9}", "x\ty", "\tlead-tab", "ops\r# laptop", "a\rb"];
        typed.par_iter().for_each(|t| {
            rep.eval(1);
            rep.nontrivial(format!("cli-name-{}", t).as_bytes());
            let attempt = || -> Result<(), String> {
                let sc = Scratch::new();
                let out = proc::run(&Cmd::new(&["key", "generate", "-o", "kr.txt", "--env-pass"]).env("KESTREL_PASSWORD", "pw").stdin(format!("{}\n", t).as_bytes()), &sc.0);
                out.well_behaved()?;
                let file = sc.read("kr.txt");
                if !out.ok() {
                    // refused names (e.g. containing a tab) must not leave a file behind
                    if file.is_some() {
                        return Err(format!("key generate refused the name {:?} but wrote a file", t));
                    }
                    return Ok(());
                }
                let text = String::from_utf8(file.ok_or("no keyring written")?).map_err(|_| "keyring not UTF-8".to_string())?;
                let written: Vec<&str> = text.lines().filter_map(|l| l.strip_prefix("Name = ")).collect();
                if written.len() != 1 {
                    return Err(format!("expected one Name line, file is {:?}", text));
                }
                if !kra::AVAILABLE {
                    // REF's reading of the file the tool wrote
                    return match classify(&text) {
                        Class::WellFormed(es) if es.iter().any(|e| e.name == written[0]) => Ok(()),
                        other => Err(format!("typed {:?}: the tool wrote the name {:?} but REF reads the file as {:?}", t, written[0], other)),
                    };
                }
                match guarded(|| kra::parse(&text).map(|k| k.get_key(written[0]).map(|e| e.name.clone()))) {
                    Ok(Ok(Some(n))) if n == written[0] => Ok(()),
                    Ok(Ok(other)) => Err(format!("typed {:?}: the tool wrote the name {:?} but the keyring reads back {:?} under that name (names are not read back as written)", t, written[0], other)),
                    Ok(Err(e)) => Err(format!("typed {:?}: the keyring the tool wrote does not parse: {}", t, e)),
                    Err(m) => Err(format!("parser panicked: {}", m)),
                }
            };
            if attempt().is_err() {
                if let Err(e) = attempt() {
                    rep.violation("cli/generated-name-does-not-read-back", json!({"kind":"cli-name","typed":t}), e);
                }
            }
        });
        rep.extra("cli_generated_names", json!(typed.len()));
    }

    rep.mute(!kra::AVAILABLE);
    // public keys: checksum perturbations and single-character substitutions
    let mut strs: Vec<String> = vec![];
    for id in ids.iter().take(3) {
        let mut blob = id.pk.to_vec();
        blob.extend_from_slice(&r::sha256(&id.pk)[..4]);
        strs.push(r::b64(&blob));
        for i in 32..36 {
            for bit in 0..8 {
                let mut b = blob.clone();
                b[i] ^= 1 << bit;
                strs.push(r::b64(&b));
            }
        }
        for i in 0..32 {
            let mut b = blob.clone();
            b[i] ^= 1;
            strs.push(r::b64(&b));
        }
        // every letter of the encoding in the other case
        let enc: Vec<char> = r::b64(&blob).chars().collect();
        for (ci, c) in enc.iter().enumerate() {
            if c.is_ascii_alphabetic() {
                let mut v = enc.clone();
                v[ci] = if c.is_ascii_lowercase() { c.to_ascii_uppercase() } else { c.to_ascii_lowercase() };
                strs.push(v.into_iter().collect());
            }
        }
        strs.push(r::b64(&blob[..35]));
        strs.push(r::b64(&blob[..32]));
        let mut longer = blob.clone();
        longer.push(0);
        strs.push(r::b64(&longer));
    }
    // a key whose encoding contains both '+' and '/' (searched among derived keys): each of them, and all of them, replaced by
    // the URL-safe letters '-' and '_' -- another alphabet, so not the encoding of that key
    if let Some(k) = (0..5000u32).map(|i| r::x25519_base(&derive32(seed, &format!("c17-plus-slash-{}", i)))).find(|k| { let e = r::encode_pk(k); e.contains('+') && e.contains('/') }) {
        let e = r::encode_pk(&k);
        strs.push(e.clone());
        strs.push(e.replace('+', "-"));
        strs.push(e.replace('/', "_"));
        strs.push(e.replace('+', "-").replace('/', "_"));
        for (i, c) in e.char_indices() {
            if c == '+' || c == '/' {
                let mut v: Vec<char> = e.chars().collect();
                v[i] = if c == '+' { '-' } else { '_' };
                strs.push(v.into_iter().collect());
            }
        }
    }
    let valid: Vec<char> = r::encode_pk(&ids[0].pk).chars().collect();
    let classes: Vec<char> = rep.tier.pick(vec!['A', 'B', '=', ' ', '-', '\u{e9}'], vec!['A', 'B', 'z', '9', '+', '/', '=', '-', '_', ' ', '\0', '\n', '\u{e9}']);
    for i in 0..valid.len() {
        for &c in &classes {
            if valid[i] != c {
                let mut v = valid.clone();
                v[i] = c;
                strs.push(v.into_iter().collect());
            }
        }
    }
    for n in 0..=60usize {
        strs.push("A".repeat(n));
    }
    // single-character insertions
    for i in 0..=valid.len() {
        for c in [' ', '\n', '\t', '=', 'A', '\u{e9}'] {
            let mut v = valid.clone();
            v.insert(i, c);
            strs.push(v.into_iter().collect());
        }
    }
    strs.sort();
    strs.dedup();
    strs.par_iter().for_each(|s| {
        pubkey_case(rep, s);
        rep.nontrivial(format!("pk-{}", s).as_bytes());
    });
    rep.extra("public_key_strings", json!(strs.len()));
    rep.mute(false);
    cli_stdout_append(rep);
    rep.set_exhaustive(true);
    let _ = Tier::Quick;
}

pub fn replay(rep: &'static Report, case: &Value) {
    if case["kind"] == "cli-append" {
        cli_stdout_append(rep);
        return;
    }
    let al = alphabet(rep.seed);
    match case["kind"].as_str().unwrap_or("") {
        "text" => {
            let pks: Vec<&str> = al.pks.iter().map(|s| s.as_str()).collect();
            let t = case["text"].as_str().unwrap();
            println!("  REF classification: {:?}", classify(t));
            judge(rep, t, &al.names, &pks);
        }
        "roundtrip" => {
            let o = &case["other"];
            let other = if o.is_array() { Some((o[0].as_str().unwrap(), o[1].as_str().unwrap(), o[2].as_str().unwrap())) } else { None };
            roundtrip(rep, case["name"].as_str().unwrap(), case["pk"].as_str().unwrap(), case["sk"].as_str().unwrap(), other);
        }
        "pubkey" => pubkey_case(rep, case["s"].as_str().unwrap()),
        "cli-lookup" => {
            println!("  re-running the CLI lookup part of C17");
            cli_lookup(rep, &al);
        }
        "cli-name" => {
            println!("  re-running C17 (CLI name cases are part of it)");
            run(rep);
        }
        k => crate::report::machinery(&format!("unknown replay kind {}", k)),
    }
}
