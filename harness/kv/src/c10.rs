//! C10 — partial I/O harmless; every failure surfaces (E-ENV fault enumeration + CLI supplementary).
use crate::env::*;
use crate::fx::Party;
use crate::proc::{self, Cmd, Scratch};
use crate::refspec as r;
use crate::report::{Report, Tier};
use crate::streams::*;
use crate::util::*;
use rayon::prelude::*;
use serde_json::{json, Value};
use std::sync::atomic::{AtomicU64, Ordering};

/// What a fault-free run of this subject must produce, as a predicate over the sink.
#[derive(Clone)]
pub enum Expect {
    /// decryption: sink must equal these bytes
    Bytes(Vec<u8>),
    /// tiny encryption: sink must parse (REF) under key/aad/cs to these bytes
    TinyStream { key: [u8; 32], aad: Vec<u8>, cs: u32, plain: Vec<u8> },
    /// key-mode file: must parse under REF with recipient private key
    KeyFile { r_priv: [u8; 32], plain: Vec<u8> },
    /// password file: must parse under REF with this scrypt key
    PassFile { key: [u8; 32], plain: Vec<u8> },
}

impl Expect {
    fn complete(&self, sink: &[u8]) -> Result<(), String> {
        match self {
            Expect::Bytes(b) => {
                if sink == &b[..] {
                    Ok(())
                } else {
                    Err(format!("output is {} bytes, expected exactly the {}-byte plaintext", sink.len(), b.len()))
                }
            }
            Expect::TinyStream { key, aad, cs, plain } => match r::read_chunks(key, aad, sink, *cs) {
                Ok(p) if &p.plaintext == plain => Ok(()),
                Ok(_) => Err("stream decrypts (REF) to different bytes".into()),
                Err(e) => Err(format!("stream rejected by REF: {:?}", e.0)),
            },
            Expect::KeyFile { r_priv, plain } => match r::read_key_file(r_priv, sink) {
                Ok(k) if &k.parsed.plaintext == plain => Ok(()),
                Ok(_) => Err("file decrypts (REF) to different bytes".into()),
                Err(e) => Err(format!("file rejected by REF: {:?}", e)),
            },
            Expect::PassFile { key, plain } => match r::read_pass_file_with_key(key, sink) {
                Ok(p) if &p.plaintext == plain => Ok(()),
                Ok(_) => Err("file decrypts (REF) to different bytes".into()),
                Err(e) => Err(format!("file rejected by REF: {:?}", e)),
            },
        }
    }
}

/// The oracle for one complete execution (any number of injected faults: all but the last must be survivable interruptions).
pub fn check(rep: &Report, label: &str, sub: &Subject, src: &[u8], menu: Menu, expect: &Expect, env: &Env, res: &Res, twin_runs: &AtomicU64) {
    let mk = |what: &str| Case::new(sub, src, menu, env).json(json!({"what": what}));
    let sched = describe(env);
    if let Res::Panic(m) = res {
        rep.violation(&format!("{}/panic", label), mk("panic"), format!("panic under schedule [{}]: {}", sched, m));
        return;
    }
    // success means the sink HAS the output: every accepted byte was followed by a flush that answered Ok (a flush that was
    // interrupted and never repeated leaves a committing sink without the last chunk)
    if res.is_ok() && env.unflushed() {
        rep.violation(&format!("{}/ok-with-unflushed-output", label), mk("unflushed"), format!("Ok returned under [{}] although the last bytes written were never followed by a successful flush", sched));
        return;
    }
    // all injected faults of this execution, in call order
    let faults: Vec<(usize, PKind, Ans)> = env.points.iter().enumerate().filter(|(_, p)| p.alts[p.chosen].1 == Class::Fault).map(|(i, p)| (i, p.kind, p.alts[p.chosen].0)).collect();
    if faults.is_empty() {
        // only short counts: must succeed with the complete, correct output
        match res {
            Res::Ok(_) => {
                if let Err(e) = expect.complete(&env.sink) {
                    rep.violation(&format!("{}/faultfree-output", label), mk("faultfree-output"), format!("fault-free schedule [{}]: {}", sched, e));
                }
            }
            _ => rep.violation(&format!("{}/faultfree-error", label), mk("faultfree-error"), format!("fault-free schedule [{}] returned {}", sched, res.brief())),
        }
        return;
    }
    // every fault but the last was survived, so it must have been a transient interruption: after a hard fault the
    // operation has to return (a later call would mean the failure was swallowed)
    for &(_, kind, ans) in &faults[..faults.len() - 1] {
        if ans != Ans::Intr {
            rep.violation(&format!("{}/fault-swallowed-{:?}", label, kind), mk("swallowed"), format!("{:?} failure ({:?}) in [{}]: the operation went on to make further calls", kind, ans, sched));
            return;
        }
    }
    let (i, kind, ans) = *faults.last().unwrap();
    let want_kind = if kind == PKind::Read { ErrKind::IORead } else { ErrKind::IOWrite };
    match res {
        Res::Ok(_) => {
            if ans == Ans::Intr {
                // transient interruption(s) retried: everything must have been written
                if let Err(e) = expect.complete(&env.sink) {
                    rep.violation(&format!("{}/intr-retried-incomplete", label), mk("intr"), format!("Interrupted at [{}] retried, Ok returned, but {}", sched, e));
                }
            } else {
                rep.violation(&format!("{}/fault-swallowed-{:?}", label, kind), mk("swallowed"), format!("{:?} failure ({:?}) at [{}] but the operation returned Ok", kind, ans, sched));
            }
        }
        Res::Err(k, m) => {
            if *k != want_kind {
                rep.violation(&format!("{}/wrong-side-{:?}", label, kind), mk("wrong-side"), format!("{:?} failure at [{}] reported as {:?} ({}), expected {:?}", kind, sched, k, m, want_kind));
            }
            // written-so-far is a prefix of what the continuation (the failing answer replaced by the default one) writes
            let mut twin: Vec<u16> = env.points[..i].iter().map(|p| p.chosen as u16).collect();
            twin.push(0);
            let s2 = sub.clone();
            let (tenv, tres) = run_tape(src, menu, &twin, &move |e| run_env(&s2, e));
            twin_runs.fetch_add(1, Ordering::Relaxed);
            if !tres.is_ok() {
                // reported by the twin's own visit as faultfree-error
            } else if !tenv.sink.starts_with(&env.sink) {
                rep.violation(&format!("{}/not-a-prefix", label), mk("prefix"), format!("after the failure at [{}] the {} bytes written are not a prefix of the fault-free continuation's output", sched, env.sink.len()));
            }
        }
        Res::Panic(_) => unreachable!(),
    }
}

struct Item {
    label: String,
    sub: Subject,
    src: Vec<u8>,
    expect: Expect,
    budget: Budget,
    read_mode: ReadMode,
}

pub fn party_fixtures(seed: u64) -> (Party, Party) {
    (Party::new(seed, "alice", "alicepw"), Party::new(seed, "bob", "bobpw"))
}

/// Sinks of bounded capacity (`&mut [u8]`, `Cursor<&mut [u8]>`): a write that finds no room left accepts 0 bytes. For every
/// capacity around the chunk boundaries, each of the four operations returns Ok exactly when everything fitted (and then
/// the sink holds the complete output); otherwise an error, with a prefix of the complete output in the sink.
pub fn bounded_sink_cases(rep: &Report, tag: &str) {
    use rayon::prelude::*;
    const CSZ: usize = 65536;
    let seed = rep.seed;
    let ids = idents(seed);
    let p = plaintext(seed ^ 0xb0a, 2 * CSZ + 300);
    let e = derive32(seed, "bounded-e");
    let pay = derive32(seed, "bounded-pay");
    let salt = derive32(seed, "bounded-salt");
    let kf = r::write_key_file(&ids[0].sk, &ids[1].pk, &e, &pay, &p, &[CSZ, CSZ, 300]).unwrap();
    // the password-mode subjects run scrypt per call: fewer capacities there
    let tkey = derive32(seed, "bounded-tkey");
    let tf = r::write_chunks(&tkey, &r::PASS_MAGIC, &p, &[CSZ, CSZ, 300]);
    let subjects: Vec<(&str, Subject, Vec<u8>, Vec<u8>)> = vec![
        ("key_decrypt", Subject::KeyDec { r: hx(&ids[1].sk), r_pub: hx(&ids[1].pk) }, kf.clone(), p.clone()),
        ("chunk decryption (password-mode associated data)", Subject::TinyDec { key: hx(&tkey), aad: hx(&r::PASS_MAGIC), cs: CSZ as u32 }, tf.clone(), p.clone()),
        ("key_encrypt", Subject::KeyEnc { s: hx(&ids[0].sk), s_pub: hx(&ids[0].pk), r_pub: hx(&ids[1].pk), e: hx(&e), payload: hx(&pay) }, p.clone(), kf.clone()),
        ("chunk encryption (password-mode associated data)", Subject::TinyEnc { key: hx(&tkey), aad: hx(&r::PASS_MAGIC), cs: CSZ as u32 }, p.clone(), tf.clone()),
    ];
    let mut jobs = vec![];
    for (si, (_, _, _, full)) in subjects.iter().enumerate() {
        let n = full.len();
        let mut caps = vec![0usize, 1, 4, 36, 131, 132, 133, 164, CSZ - 1, CSZ, CSZ + 1, CSZ + 31, CSZ + 32, CSZ + 33, CSZ + 164, 2 * CSZ - 1, 2 * CSZ, 2 * CSZ + 1, 2 * CSZ + 64, n - 301, n - 300, n - 17, n - 16, n - 1, n, n + 1, n + 1000];
        caps.retain(|&c| c <= n + 1000);
        caps.sort();
        caps.dedup();
        for c in caps {
            for cursor in [false, true] {
                jobs.push((si, c, cursor));
            }
        }
    }
    jobs.par_iter().for_each(|&(si, cap, cursor)| {
        rep.eval(1);
        let (name, sub, input, full) = &subjects[si];
        rep.nontrivial(format!("bounded-sink-{}-{}-{}", si, cap, cursor).as_bytes());
        let mut store = vec![0xEEu8; cap];
        let mut src: &[u8] = input;
        let (res, written) = if cursor {
            let mut cur = std::io::Cursor::new(&mut store[..]);
            let r0 = run_rw(sub, &mut src, &mut cur);
            let w = cur.position() as usize;
            (r0, w)
        } else {
            let mut sl: &mut [u8] = &mut store[..];
            let r0 = run_rw(sub, &mut src, &mut sl);
            let left = sl.len();
            (r0, cap - left)
        };
        let case = json!({"kind":"bounded-sink","subject":name,"capacity":cap,"cursor":cursor});
        let fits = cap >= full.len();
        if let Res::Panic(m) = &res {
            rep.violation(&format!("{}/bounded-sink", tag), case, format!("{} into a sink of {} bytes panicked: {}", name, cap, m));
        } else if res.is_ok() != fits {
            rep.violation(
                &format!("{}/bounded-sink", tag),
                case,
                format!("{} into a {} of {} bytes ({} bytes of output in all) returned {} with {} bytes in the sink: {}", name, if cursor { "Cursor<&mut [u8]>" } else { "&mut [u8]" }, cap, full.len(), res.brief(), written, if fits { "everything fits, it must succeed" } else { "the output does not fit: success reported although part of it was dropped" }),
            );
        } else if store[..written] != full[..written.min(full.len())] || written > full.len() {
            rep.violation(&format!("{}/bounded-sink", tag), case, format!("{} into a sink of {} bytes: the {} bytes in the sink are not a prefix of the complete output", name, cap, written));
        }
    });
    rep.extra("bounded_sink_cases", json!(jobs.len()));
}

pub fn run(rep: &Report) {
    let seed = rep.seed;
    rep.set_rule("E-ENV fault enumeration: for every call index k of every explored run, each fault of the menu (read: Interrupted, Other; write: Ok(0), Interrupted, Other; flush: Interrupted, Other) is injected at k (fault budget 1) on top of short-read/short-write schedules within the stated budget; every execution is checked against the oracle, failing ones are re-run with the fault replaced by the default answer (prefix clause). distinct non-trivial = distinct (subject, input, tape) executions that contain at least one non-default answer");
    rep.rule_add("CLI: 16 authentic / cut inputs (full and many short chunks, both modes) x 4 sinks (-o fresh, -o over a longer file, stdout pipe, stdout into a file): identical bytes and status; the same bytes as /proc/version (reported size 0), ordinary file, stdin pipe, FIFO: identical plaintext back. Ok from the library implies the last accepted bytes were followed by a successful flush.");
    rep.rule_add("Bounded sinks (&mut [u8], Cursor): 27 capacities around the record boundaries x 4 operations: Ok exactly when everything fitted, else an error and a prefix.");
    rep.rule_add("CLI faults (missing directory, /dev/full, closed pipe, RLIMIT_FSIZE, directory as input) and CLI partial reads (stdin in pieces at a boundary set of offsets; byte by byte).");
    rep.assume("fault budget 1 per execution (2 on the smallest scopes in the thorough tier: an interruption followed by another fault); after a hard fault the operation has returned; Interrupted is never injected twice in a row at one position");
    rep.assume("data values from seed-derived alphabets");
    let key = derive32(seed, "c10-key");
    let mut items: Vec<Item> = vec![];
    let css: Vec<u32> = rep.tier.pick(vec![1, 2, 3], vec![1, 2, 3, 4, 5]);
    let shorts = rep.tier.pick(1, 3);
    for &cs in &css {
        for aad in [vec![], r::PASS_MAGIC.to_vec()] {
            for l in 0..=(2 * cs as usize + 1) {
                let p = plaintext(seed ^ 0x10, l);
                let mut b = if rep.tier == Tier::Thorough { Budget::new(3, 3, 1) } else { Budget::new(2, 2, 1) };
                b.shorts_total = shorts;
                items.push(Item {
                    label: "C10/tiny-enc".into(),
                    sub: Subject::TinyEnc { key: hx(&key), aad: hx(&aad), cs },
                    src: p.clone(),
                    expect: Expect::TinyStream { key, aad: aad.clone(), cs, plain: p.clone() },
                    budget: b,
                    read_mode: ReadMode::Bounded,
                });
                // decrypt: authentic streams with the default chunking and with 1-byte chunks
                let mut chunkings = vec![];
                let mut c = vec![];
                let mut rem = l;
                while rem > 0 {
                    let n = rem.min(cs as usize);
                    c.push(n);
                    rem -= n;
                }
                if c.is_empty() {
                    c.push(0);
                }
                chunkings.push(c);
                if cs > 1 && l > 1 {
                    chunkings.push(vec![1; l]);
                }
                for ch in chunkings {
                    let ct = r::write_chunks(&key, &aad, &p, &ch);
                    items.push(Item {
                        label: "C10/tiny-dec".into(),
                        sub: Subject::TinyDec { key: hx(&key), aad: hx(&aad), cs },
                        src: ct,
                        expect: Expect::Bytes(p.clone()),
                        budget: b,
                        read_mode: ReadMode::Bounded,
                    });
                }
            }
        }
    }
    // thorough: two faults per execution (a retried interruption followed by another fault, two interruptions at
    // different calls) on the smallest scopes
    if rep.tier == Tier::Thorough {
        for &cs in &[1u32, 2] {
            for l in 0..=(2 * cs as usize + 1) {
                let p = plaintext(seed ^ 0x14, l);
                let mut b = Budget::new(1, 1, 2);
                b.shorts_total = 1;
                items.push(Item {
                    label: "C10/tiny-enc-2faults".into(),
                    sub: Subject::TinyEnc { key: hx(&key), aad: String::new(), cs },
                    src: p.clone(),
                    expect: Expect::TinyStream { key, aad: vec![], cs, plain: p.clone() },
                    budget: b,
                    read_mode: ReadMode::Bounded,
                });
                let mut c = vec![];
                let mut rem = l;
                while rem > 0 {
                    let n = rem.min(cs as usize);
                    c.push(n);
                    rem -= n;
                }
                if c.is_empty() {
                    c.push(0);
                }
                let ct = r::write_chunks(&key, &[], &p, &c);
                items.push(Item { label: "C10/tiny-dec-2faults".into(), sub: Subject::TinyDec { key: hx(&key), aad: String::new(), cs }, src: ct, expect: Expect::Bytes(p.clone()), budget: b, read_mode: ReadMode::Bounded });
            }
        }
    }
    // fault-free, deeper short-count budgets
    for &cs in &[2u32, 3] {
        for l in [0usize, 1, cs as usize, 2 * cs as usize + 1] {
            let p = plaintext(seed ^ 0x11, l);
            items.push(Item {
                label: "C10/tiny-enc-shorts3".into(),
                sub: Subject::TinyEnc { key: hx(&key), aad: String::new(), cs },
                src: p.clone(),
                expect: Expect::TinyStream { key, aad: vec![], cs, plain: p.clone() },
                budget: Budget::new(3, 3, 0),
                read_mode: ReadMode::Exhaustive,
            });
        }
    }
    // production scope, key mode through the public API
    let ids = idents(seed);
    let (s, rc) = (&ids[0], &ids[2]);
    let csz = 65536usize;
    let prod_shorts = rep.tier.pick(0, 2);
    for l in [0usize, csz, csz + 1] {
        let p = plaintext(seed ^ 0x12, l);
        let e = derive32(seed, "c10-eph");
        let pk = derive32(seed, "c10-pay");
        let mut b = Budget::new(1, 1, 1);
        b.shorts_total = prod_shorts;
        items.push(Item {
            label: "C10/key-enc".into(),
            sub: Subject::KeyEnc { s: hx(&s.sk), s_pub: hx(&s.pk), r_pub: hx(&rc.pk), e: hx(&e), payload: hx(&pk) },
            src: p.clone(),
            expect: Expect::KeyFile { r_priv: rc.sk, plain: p.clone() },
            budget: b,
            read_mode: ReadMode::Bounded,
        });
        let mut chunking = vec![];
        let mut rem = l;
        while rem > 0 {
            let n = rem.min(csz);
            chunking.push(n);
            rem -= n;
        }
        if chunking.is_empty() {
            chunking.push(0);
        }
        let ct = r::write_key_file(&s.sk, &rc.pk, &e, &pk, &p, &chunking).unwrap();
        items.push(Item {
            label: "C10/key-dec".into(),
            sub: Subject::KeyDec { r: hx(&rc.sk), r_pub: hx(&rc.pk) },
            src: ct,
            expect: Expect::Bytes(p.clone()),
            budget: b,
            read_mode: ReadMode::Bounded,
        });
    }
    // password mode, public API: once per fault class (one scrypt per execution)
    {
        let pw = b"c10 password".to_vec();
        let salt = derive32(seed, "c10-salt");
        let k = r::pass_key(&pw, &salt);
        let l = rep.tier.pick(5usize, csz + 1);
        let p = plaintext(seed ^ 0x13, l);
        items.push(Item {
            label: "C10/pass-enc".into(),
            sub: Subject::PassEnc { pw: hx(&pw), salt: hx(&salt) },
            src: p.clone(),
            expect: Expect::PassFile { key: k, plain: p.clone() },
            budget: Budget::new(0, 0, 1),
            read_mode: ReadMode::Full,
        });
        let chunking = if l > csz { vec![csz, l - csz] } else { vec![l] };
        let ct = r::write_pass_file_with_key(&k, &salt, &p, &chunking);
        items.push(Item {
            label: "C10/pass-dec".into(),
            sub: Subject::PassDec { pw: hx(&pw) },
            src: ct,
            expect: Expect::Bytes(p),
            budget: Budget::new(0, 0, 1),
            read_mode: ReadMode::Full,
        });
    }

    let execs = AtomicU64::new(0);
    let twins = AtomicU64::new(0);
    let faulty = AtomicU64::new(0);
    let n_items = items.len();
    items.par_iter().for_each(|it| {
        let mut menu = Menu::shorts(it.read_mode, true).no_record();
        if it.budget.faults > 0 {
            menu = menu.with_all_faults();
        }
        let st = explore(&it.src, menu, it.budget, &|e| run_env(&it.sub, e), &|env, res| {
            check(rep, &it.label, &it.sub, &it.src, menu, &it.expect, env, res, &twins);
            let d = env.deviations();
            if d.0 + d.1 + d.2 > 0 {
                let mut k = it.label.as_bytes().to_vec();
                k.extend_from_slice(&r::sha256(&it.src)[..8]);
                for c in env.choices() {
                    k.extend_from_slice(&c.to_le_bytes());
                }
                k.extend_from_slice(format!("{:?}", it.sub).as_bytes());
                rep.nontrivial(&k);
            }
            if d.2 > 0 {
                faulty.fetch_add(1, Ordering::Relaxed);
            }
        })
        .unwrap_or_else(|e| crate::report::machinery(&e));
        execs.fetch_add(st.executions, Ordering::Relaxed);
    });
    rep.eval(execs.load(Ordering::Relaxed) + twins.load(Ordering::Relaxed));
    rep.extra("explored_executions", json!(execs.load(Ordering::Relaxed)));
    rep.extra("executions_with_an_injected_fault", json!(faulty.load(Ordering::Relaxed)));
    rep.extra("continuation_twin_runs", json!(twins.load(Ordering::Relaxed)));
    rep.extra("subject_input_items", json!(n_items));
    rep.extra("budgets", json!({"faults":1,"shorts_total_tiny":shorts,"shorts_total_production":prod_shorts}));
    rep.sample(json!({"subject":"TinyDec cs=2 aad=magic","input":"authentic 5-byte stream as 2+2+1","tape":"read#3 -> Err(Interrupted), then defaults","expect":"Ok with all 5 bytes (read_exact retries) or Err(IORead)"}));
    rep.sample(json!({"subject":"key_encrypt L=65537","tape":"flush#2 -> Err(Other)","expect":"Err(IOWrite); bytes written are a prefix of the fault-free continuation"}));

    cli_level(rep);
    cli_partial_reads(rep);
    bounded_sink_cases(rep, "C10");
    cli_same_result(rep);
    cli_same_source(rep);
    write_error_kinds(rep);
    rep.set_exhaustive(true);
}

/// Real I/O failures through the CLI's OnDemandFile / stdout / File input.
/// "The same result over any conforming sink", at the program level: authentic files with ordinary and with many short
/// chunks, and the same files cut inside a later chunk, are decrypted to a fresh -o file, to an -o path that holds a longer
/// file, to a stdout pipe and to a stdout redirected into a file: all four receive the same bytes -- the plaintext, or
/// exactly the authenticated prefix with exit status 1.
fn cli_same_result(rep: &Report) {
    let seed = rep.seed;
    let (alice, bob) = party_fixtures(seed);
    let kr = crate::fx::keyring(&[(&alice, true), (&bob, true)]);
    const CSZ: usize = 65536;
    let p = plaintext(seed ^ 0x15, 2 * CSZ + 4321);
    let salt = derive32(seed, "c10-same-salt");
    let pkey = r::pass_key(b"pw", &salt);
    let short: Vec<usize> = {
        let mut v = vec![1000usize; 60];
        v.push(CSZ);
        v.push(p.len() - 60_000 - CSZ);
        v
    };
    let chunkings: Vec<(&str, Vec<usize>)> = vec![("full chunks", vec![CSZ, CSZ, 4321]), ("60 chunks of 1000 bytes, then longer ones", short)];
    let mut jobs = vec![];
    for (ci, (_, ch)) in chunkings.iter().enumerate() {
        for mode in ["key", "pass"] {
            let file = if mode == "key" { r::write_key_file(&alice.sk, &bob.pk, &derive32(seed, "c10-same-e"), &derive32(seed, "c10-same-p"), &p, ch).unwrap() } else { r::write_pass_file_with_key(&pkey, &salt, &p, ch) };
            let hdr = if mode == "key" { 132 } else { 36 };
            // cuts: none; inside the 3rd record; at the boundary after the 2nd record; inside the last record
            let rec_end = |k: usize| hdr + ch[..k].iter().map(|c| c + 32).sum::<usize>();
            let cuts: Vec<(String, usize, usize)> = vec![("whole".into(), file.len(), p.len()), ("cut inside record 3".into(), rec_end(2) + 40, ch[..2].iter().sum()), ("cut after record 2".into(), rec_end(2), ch[..2].iter().sum()), ("cut inside the last record".into(), file.len() - 7, ch[..ch.len() - 1].iter().sum())];
            for (cn, at, released) in cuts {
                jobs.push((ci, mode, file[..at].to_vec(), cn, released));
            }
        }
    }
    jobs.par_iter().for_each(|(ci, mode, input, cn, released)| {
        rep.eval(4);
        rep.nontrivial(format!("cli-same-result-{}-{}-{}", ci, mode, cn).as_bytes());
        let want = &p[..*released];
        let whole = *released == p.len();
        let attempt = || -> Result<(), String> {
            let mut seen: Vec<(&str, bool, Vec<u8>)> = vec![];
            for sink in ["-o fresh", "-o holding a longer file", "stdout pipe", "stdout redirected to a file"] {
                let sc = Scratch::new();
                sc.write("kr.txt", kr.as_bytes());
                sc.write("in.ktl", input);
                let mut a: Vec<&str> = if *mode == "key" { vec!["decrypt", "in.ktl", "-t", "bob", "-k", "kr.txt", "--env-pass"] } else { vec!["password", "decrypt", "in.ktl", "--env-pass"] };
                if sink.starts_with("-o") {
                    a.extend_from_slice(&["-o", "out.bin"]);
                }
                if sink == "-o holding a longer file" {
                    sc.write("out.bin", &vec![b'L'; 300_000]);
                }
                let mut cmd = Cmd::new(&a).env("KESTREL_PASSWORD", if *mode == "key" { "bobpw" } else { "pw" });
                if sink == "stdout redirected to a file" {
                    cmd.stdout_file = Some("redirected.bin".into());
                }
                let o = proc::run(&cmd, &sc.0);
                o.well_behaved().map_err(|e| format!("{}: {}", sink, e))?;
                let got = match sink {
                    "stdout pipe" => o.stdout.clone(),
                    "stdout redirected to a file" => sc.read("redirected.bin").unwrap_or_default(),
                    _ => sc.read("out.bin").unwrap_or_default(),
                };
                seen.push((sink, o.ok(), got));
            }
            for (sink, ok, got) in &seen {
                if *ok != whole || got[..] != want[..] {
                    return Err(format!("sink '{}': exit status {} with {} bytes, expected {} with exactly {} bytes ({}){}", sink, if *ok { 0 } else { 1 }, got.len(), if whole { "0" } else { "1" }, want.len(), if whole { "the plaintext" } else { "the authenticated prefix" }, if got.len() > want.len() && got.starts_with(want) { " -- the expected bytes are followed by others" } else { "" }));
                }
            }
            Ok(())
        };
        if attempt().is_err() {
            if let Err(e) = attempt() {
                rep.violation("C10/cli-same-result", json!({"kind":"cli-same","chunking":chunkings[*ci].0,"mode":mode,"cut":cn}), format!("{}-mode file of {} ({}): {}", mode, chunkings[*ci].0, cn, e));
            }
        }
    });
    rep.extra("cli_same_result_inputs", json!(jobs.len()));
}

/// "The same result over any conforming byte source", at the program level: the same bytes offered as a FILE argument whose
/// reported size is 0 (/proc/version), as an ordinary file, on a stdin pipe and as a FIFO: all four encryptions decrypt
/// (REF) to exactly those bytes.
fn cli_same_source(rep: &Report) {
    let seed = rep.seed;
    let (alice, bob) = party_fixtures(seed);
    let kr = crate::fx::keyring(&[(&alice, true), (&bob, true)]);
    let data = match std::fs::read("/proc/version") {
        Ok(d) if !d.is_empty() => d,
        _ => {
            rep.extra("cli_same_source", json!("not judged: /proc/version is not readable here"));
            return;
        }
    };
    let sources = ["/proc/version", "ordinary file", "stdin pipe", "fifo"];
    let mut jobs = vec![];
    for mode in ["key", "pass"] {
        for s in sources {
            jobs.push((mode, s));
        }
    }
    jobs.par_iter().for_each(|&(mode, source)| {
        rep.eval(1);
        rep.nontrivial(format!("cli-same-source-{}-{}", mode, source).as_bytes());
        let attempt = || -> Result<(), String> {
            let sc = Scratch::new();
            sc.write("kr.txt", kr.as_bytes());
            let mut a: Vec<&str> = if mode == "key" { vec!["encrypt", "-t", "bob", "-f", "alice", "-k", "kr.txt", "-o", "out.ktl", "--env-pass"] } else { vec!["password", "encrypt", "-o", "out.ktl", "--env-pass"] };
            let at = if mode == "key" { 1 } else { 2 };
            let mut cmd;
            let mut feeder = None;
            match source {
                "/proc/version" => {
                    a.insert(at, "/proc/version");
                    cmd = Cmd::new(&a);
                }
                "ordinary file" => {
                    sc.write("copy.txt", &data);
                    a.insert(at, "copy.txt");
                    cmd = Cmd::new(&a);
                }
                "fifo" => {
                    feeder = Some(proc::feed_fifo(sc.path("in.fifo"), data.clone())?);
                    a.insert(at, "in.fifo");
                    cmd = Cmd::new(&a);
                }
                _ => {
                    cmd = Cmd::new(&a).stdin(&data);
                }
            }
            cmd = cmd.env("KESTREL_PASSWORD", if mode == "key" { "alicepw" } else { "pw" });
            let o = proc::run(&cmd, &sc.0);
            if let Some(f) = feeder {
                let _ = f.join();
            }
            o.well_behaved()?;
            let f = sc.read("out.ktl").unwrap_or_default();
            let back = if mode == "key" { r::read_key_file(&bob.sk, &f).map(|k| k.parsed.plaintext).ok() } else if f.len() >= 36 { r::read_pass_file_with_key(&r::pass_key(b"pw", f[4..36].try_into().unwrap()), &f).map(|k| k.plaintext).ok() } else { None };
            if !o.ok() || back.as_deref() != Some(&data[..]) {
                return Err(format!("exit {:?}; the file decrypts to {} instead of the {} bytes offered", o.code, back.map(|b| format!("{} bytes", b.len())).unwrap_or("nothing".into()), data.len()));
            }
            Ok(())
        };
        if attempt().is_err() {
            if let Err(e) = attempt() {
                rep.violation("C10/cli-same-source", json!({"kind":"cli-same","source":source,"mode":mode}), format!("kestrel {} encrypt of the contents of /proc/version offered as {}: {}", mode, source, e));
            }
        }
    });
    rep.extra("cli_same_source_runs", json!(jobs.len()));
}

/// Write failures of every kind a sink can report (WouldBlock, TimedOut, BrokenPipe, ConnectionReset, StorageFull-like Other,
/// PermissionDenied) at each of the first six write calls, with a sink that accepts at most 30000 bytes per call: the
/// operation returns an error (never Ok) and what the sink holds is a prefix of the complete output.
fn write_error_kinds(rep: &Report) {
    use rayon::prelude::*;
    use std::io::{ErrorKind, Write};
    let seed = rep.seed;
    const CSZ: usize = 65536;
    let tkey = derive32(seed, "c10-kinds-key");
    let p = plaintext(seed ^ 0xb0b, CSZ + 5000);
    let ct = r::write_chunks(&tkey, &r::PASS_MAGIC, &p, &[CSZ, 5000]);
    let enc = Subject::TinyEnc { key: hx(&tkey), aad: hx(&r::PASS_MAGIC), cs: CSZ as u32 };
    let dec = Subject::TinyDec { key: hx(&tkey), aad: hx(&r::PASS_MAGIC), cs: CSZ as u32 };
    struct Sink {
        out: Vec<u8>,
        calls: usize,
        fail_at: usize,
        kind: ErrorKind,
    }
    impl Write for Sink {
        fn write(&mut self, b: &[u8]) -> std::io::Result<usize> {
            self.calls += 1;
            if self.calls == self.fail_at {
                return Err(std::io::Error::new(self.kind, "injected"));
            }
            let n = b.len().min(30_000);
            self.out.extend_from_slice(&b[..n]);
            Ok(n)
        }
        fn flush(&mut self) -> std::io::Result<()> {
            Ok(())
        }
    }
    let kinds = [ErrorKind::WouldBlock, ErrorKind::TimedOut, ErrorKind::BrokenPipe, ErrorKind::ConnectionReset, ErrorKind::Other, ErrorKind::PermissionDenied];
    let mut jobs = vec![];
    for (si, _) in [&enc, &dec].iter().enumerate() {
        for k in kinds {
            for at in 1..=6usize {
                jobs.push((si, k, at));
            }
        }
    }
    jobs.par_iter().for_each(|&(si, kind, at)| {
        rep.eval(1);
        rep.nontrivial(format!("write-error-kind-{}-{:?}-{}", si, kind, at).as_bytes());
        let (sub, input, full) = if si == 0 { (&enc, &p, &ct) } else { (&dec, &ct, &p) };
        let mut sink = Sink { out: vec![], calls: 0, fail_at: at, kind };
        let mut src: &[u8] = input;
        let res = run_rw(sub, &mut src, &mut sink);
        if sink.calls < at {
            return; // the operation made fewer write calls than that
        }
        let case = json!({"kind":"write-kinds","subject":si,"error":format!("{:?}", kind),"at":at});
        if res.is_ok() {
            rep.violation("C10/write-error-kinds", case, format!("{} with a sink whose write call {} fails with {:?} (and which accepts at most 30000 bytes per call) returned Ok; the sink holds {} of {} bytes", if si == 0 { "chunk encryption" } else { "chunk decryption" }, at, kind, sink.out.len(), full.len()));
        } else if let Res::Panic(m) = &res {
            rep.violation("C10/write-error-kinds", case, format!("panic: {}", m));
        } else if !full.starts_with(&sink.out) {
            rep.violation("C10/write-error-kinds", case, format!("{} with a sink whose write call {} fails with {:?}: the {} bytes the sink holds are not a prefix of the complete output (bytes written twice?)", if si == 0 { "chunk encryption" } else { "chunk decryption" }, at, kind, sink.out.len()));
        }
    });
    rep.extra("write_error_kind_cases", json!(jobs.len()));
}

fn cli_level(rep: &Report) {
    let seed = rep.seed;
    let (alice, bob) = party_fixtures(seed);
    let kr = crate::fx::keyring(&[(&alice, true), (&bob, true)]);
    let sizes: Vec<usize> = rep.tier.pick(vec![10, 70000], vec![0, 10, 9000, 70000, 140000]);
    let mut cases: Vec<(String, Cmd, Vec<(String, Vec<u8>)>)> = vec![];
    for &n in &sizes {
        let p = plaintext(seed ^ 0x14, n);
        let chunking = |n: usize| -> Vec<usize> {
            let mut c = vec![];
            let mut rem = n;
            while rem > 0 {
                let k = rem.min(65536);
                c.push(k);
                rem -= k;
            }
            if c.is_empty() {
                c.push(0);
            }
            c
        };
        let kct = r::write_key_file(&alice.sk, &bob.pk, &derive32(seed, "c10-cli-e"), &derive32(seed, "c10-cli-p"), &p, &chunking(n)).unwrap();
        let salt = derive32(seed, "c10-cli-salt");
        let pct = r::write_pass_file_with_key(&r::pass_key(b"pw", &salt), &salt, &p, &chunking(n));
        let files = vec![("kr.txt".to_string(), kr.as_bytes().to_vec()), ("plain.bin".to_string(), p.clone()), ("key.ktl".to_string(), kct), ("pass.ktl".to_string(), pct)];
        let cmds: Vec<(&str, Vec<&str>, &str, &str)> = vec![
            ("encrypt", vec!["encrypt", "-t", "bob", "-f", "alice", "-k", "kr.txt", "--env-pass"], "alicepw", "plain.bin"),
            ("decrypt", vec!["decrypt", "-t", "bob", "-k", "kr.txt", "--env-pass"], "bobpw", "key.ktl"),
            ("pass-encrypt", vec!["password", "encrypt", "--env-pass"], "pw", "plain.bin"),
            ("pass-decrypt", vec!["password", "decrypt", "--env-pass"], "pw", "pass.ktl"),
        ];
        for (name, base, pw, input) in cmds {
            // -o inside a directory that does not exist
            let mut a = base.clone();
            a.extend_from_slice(&[input, "-o", "no-such-dir/out.bin"]);
            cases.push((format!("{}-n{}-o-missing-dir", name, n), Cmd::new(&a).env("KESTREL_PASSWORD", pw), files.clone()));
            // -o /dev/full : open succeeds, write fails
            let mut a = base.clone();
            a.extend_from_slice(&[input, "-o", "/dev/full"]);
            cases.push((format!("{}-n{}-o-dev-full", name, n), Cmd::new(&a).env("KESTREL_PASSWORD", pw), files.clone()));
            // stdout redirected to /dev/full
            let mut a = base.clone();
            a.push(input);
            let mut c = Cmd::new(&a).env("KESTREL_PASSWORD", pw);
            c.stdout_file = Some("/dev/full".into());
            cases.push((format!("{}-n{}-stdout-dev-full", name, n), c, files.clone()));
            // stdout is a pipe whose reader is gone
            let mut c = Cmd::new(&a).env("KESTREL_PASSWORD", pw);
            c.stdout_closed_pipe = true;
            cases.push((format!("{}-n{}-stdout-closed-pipe", name, n), c, files.clone()));
            // output file under a size limit: a write is short, the next fails (quota / nearly full disk)
            let full_len = match name {
                "encrypt" => 132 + 32 * ((n + 65535) / 65536).max(1) + n,
                "pass-encrypt" => 36 + 32 * ((n + 65535) / 65536).max(1) + n,
                _ => n,
            };
            let mut lims: Vec<u64> = vec![];
            if full_len > 0 {
                lims.push((full_len - 1) as u64);
                lims.push((full_len / 2) as u64);
                if full_len > 20 {
                    lims.push(10);
                }
                if full_len > 66000 {
                    lims.push(65600);
                }
            }
            for lim in lims {
                let mut a = base.clone();
                a.extend_from_slice(&[input, "-o", "out.bin"]);
                let mut c = Cmd::new(&a).env("KESTREL_PASSWORD", pw);
                c.fsize_limit = Some(lim);
                cases.push((format!("{}-n{}-o-size-limit-{}", name, n, lim), c, files.clone()));
            }
            // input is a directory: open succeeds, read fails
            let mut a = base.clone();
            a.extend_from_slice(&[".", "-o", "out.bin"]);
            cases.push((format!("{}-n{}-input-is-directory", name, n), Cmd::new(&a).env("KESTREL_PASSWORD", pw), files.clone()));
            // stdin is a directory
            let mut a = base.clone();
            a.extend_from_slice(&["-o", "out.bin"]);
            let mut c = Cmd::new(&a).env("KESTREL_PASSWORD", pw);
            c.stdin_path = Some(".".into());
            cases.push((format!("{}-n{}-stdin-is-directory", name, n), c, files.clone()));
            // stdin is a socket whose peer dies: after the queued bytes one read fails with ECONNRESET, the next sees EOF
            if n > 0 && n <= 70000 {
                let data = files.iter().find(|f| f.0 == input).unwrap().1.clone();
                for cut in [data.len(), data.len() / 2, 1] {
                    let mut a = base.clone();
                    a.extend_from_slice(&["-o", "out.bin"]);
                    let mut c = Cmd::new(&a).env("KESTREL_PASSWORD", pw).stdin(&data[..cut]);
                    c.stdin_socket_reset = Some(true);
                    cases.push((format!("{}-n{}-stdin-socket-reset-after-{}", name, n, cut), c, files.clone()));
                }
            }
        }
    }
    let n = cases.len();
    cases.par_iter().for_each(|(name, cmd, files)| {
        let verdict = cli_case(cmd, files);
        rep.eval(1);
        rep.nontrivial(name.as_bytes());
        if let Err(e) = verdict {
            // confirm once more before reporting (CLI runs use the real CSPRNG)
            if let Err(e2) = cli_case(cmd, files) {
                let _ = e;
                rep.violation(
                    &format!("C10/cli-{}", name.split("-n").next().unwrap_or("") .to_string() + "-" + name.rsplit_once('-').map(|x| x.1).unwrap_or("")),
                    json!({"kind":"cli","name":name,"cmd":serde_json::to_value(cmd).unwrap(),"files":files.iter().map(|(n,d)| json!([n, hx(d)])).collect::<Vec<_>>()}),
                    format!("{} [{}]: {}", cmd.display(), name, e2),
                );
            }
        }
    });
    rep.extra("cli_fault_cases", json!(n));
    rep.sample(json!({"cli":"kestrel password encrypt --env-pass plain.bin -o /dev/full","expect":"exit 1 with an Error: line"}));
}

/// Partial reads at process level: the input arrives on a stdin pipe in pieces (the first k bytes alone, for every k
/// of a boundary set; and byte by byte for the first 200 bytes). The result must be exactly that of the whole-file run.
fn cli_partial_reads(rep: &Report) {
    let seed = rep.seed;
    let (alice, bob) = party_fixtures(seed);
    let kr = crate::fx::keyring(&[(&alice, true), (&bob, true)]);
    let salt = derive32(seed, "c10-split-salt");
    let pkey = r::pass_key(b"pw", &salt);
    let mut jobs: Vec<(String, Vec<&'static str>, &'static str, Vec<u8>, Vec<u8>, Vec<usize>)> = vec![];
    for n in rep.tier.pick(vec![1000usize], vec![0usize, 1, 1000, 65536, 70000]) {
        let p = plaintext(seed ^ 0x15, n);
        let ch: Vec<usize> = if n > 65536 { vec![65536, n - 65536] } else { vec![n] };
        let kct = r::write_key_file(&alice.sk, &bob.pk, &derive32(seed, "c10-split-e"), &derive32(seed, "c10-split-p"), &p, &ch).unwrap();
        let pct = r::write_pass_file_with_key(&pkey, &salt, &p, &ch);
        for (name, args, pw, input, hlen) in [
            ("encrypt", vec!["encrypt", "-t", "bob", "-f", "alice", "-k", "kr.txt", "--env-pass"], "alicepw", p.clone(), 0usize),
            ("decrypt", vec!["decrypt", "-t", "bob", "-k", "kr.txt", "--env-pass"], "bobpw", kct.clone(), 132),
            ("pass-encrypt", vec!["password", "encrypt", "--env-pass"], "pw", p.clone(), 0),
            ("pass-decrypt", vec!["password", "decrypt", "--env-pass"], "pw", pct.clone(), 36),
        ] {
            let len = input.len();
            let mut ks: Vec<usize> = vec![1, 2, 3, 4, 5, 7, 8, 31, 32, 33, 35, 36, 37, 64, 131, 132, 133];
            for d in [0usize, 1, 7, 8, 9, 11, 12, 15, 16, 17, 31, 32, 33] {
                ks.push(hlen + d);
            }
            if len > 65536 {
                for base in [65536usize, hlen + 32 + 65536] {
                    for d in [0usize, 1, 2, 8, 16, 17] {
                        ks.push(base.saturating_sub(d));
                        ks.push(base + d);
                    }
                }
            }
            ks.push(len.saturating_sub(1));
            ks.push(len.saturating_sub(16));
            ks.push(len.saturating_sub(17));
            ks.retain(|&k| k > 0 && k < len);
            ks.sort();
            ks.dedup();
            for k in ks {
                jobs.push((format!("{}-n{}-first-{}-bytes-alone", name, n, k), args.clone(), pw, input.clone(), p.clone(), vec![k]));
            }
            if len > 1 {
                jobs.push((format!("{}-n{}-byte-by-byte-200", name, n), args.clone(), pw, input.clone(), p.clone(), (1..len.min(200)).collect()));
            }
        }
    }
    let njobs = jobs.len();
    jobs.par_iter().for_each(|(name, args, pw, input, plain, splits)| {
        rep.eval(1);
        rep.nontrivial(name.as_bytes());
        let attempt = || -> Result<(), String> {
            let sc = Scratch::new();
            sc.write("kr.txt", kr.as_bytes());
            let mut c = Cmd::new(args).env("KESTREL_PASSWORD", pw).stdin(input);
            c.stdin_splits = splits.clone();
            let out = proc::run(&c, &sc.0);
            out.well_behaved()?;
            if !out.ok() {
                return Err(format!("fails although the same bytes delivered whole succeed: {}", out.summary()));
            }
            let got: Option<Vec<u8>> = match args[0] {
                "encrypt" => r::read_key_file(&bob.sk, &out.stdout).ok().map(|k| k.parsed.plaintext),
                "decrypt" => Some(out.stdout.clone()),
                _ if args[1] == "encrypt" => {
                    if out.stdout.len() >= 36 {
                        r::read_pass_file_with_key(&r::pass_key(b"pw", out.stdout[4..36].try_into().unwrap()), &out.stdout).ok().map(|k| k.plaintext)
                    } else {
                        None
                    }
                }
                _ => Some(out.stdout.clone()),
            };
            if got.as_deref() != Some(&plain[..]) {
                return Err(format!("exit 0 but the result differs from the whole-file run ({} output bytes)", out.stdout.len()));
            }
            Ok(())
        };
        if attempt().is_err() {
            if let Err(e) = attempt() {
                rep.violation(&format!("C10/cli-partial-read-{}", name.split("-n").next().unwrap_or("")), json!({"kind":"cli-split","name":name}), format!("kestrel {} with its input on a stdin pipe, {}: {}", args.join(" "), name, e));
            }
        }
    });
    rep.extra("cli_partial_read_cases", json!(njobs));
}

fn cli_case(cmd: &Cmd, files: &[(String, Vec<u8>)]) -> Result<(), String> {
    let sc = Scratch::new();
    for (n, d) in files {
        sc.write(n, d);
    }
    let out = proc::run(cmd, &sc.0);
    out.well_behaved().map_err(|e| format!("{} ({})", e, out.summary()))?;
    // decrypting an EMPTY plaintext writes no byte: a sink that would reject writes is never asked, so success is
    // truthful there (only the process contract above applies)
    let empty_plain = files.iter().any(|(n, d)| n == "plain.bin" && d.is_empty());
    let a0 = String::from_utf8_lossy(&cmd.args[0]).to_string();
    let a1 = cmd.args.get(1).map(|a| String::from_utf8_lossy(a).to_string()).unwrap_or_default();
    let is_decrypt = a0 == "decrypt" || (a0 == "password" && a1 == "decrypt");
    let sink_fault = cmd.stdout_closed_pipe || cmd.stdout_file.as_deref() == Some("/dev/full") || cmd.args.iter().any(|a| a == b"/dev/full");
    if empty_plain && is_decrypt && sink_fault {
        return Ok(());
    }
    if out.code != Some(1) {
        return Err(format!("I/O failure not surfaced: exit status {:?} ({})", out.code, out.summary()));
    }
    Ok(())
}

pub fn replay(rep: &Report, case: &Value) {
    if case["kind"] == "bounded-sink" {
        bounded_sink_cases(rep, "C10");
        return;
    }
    if case["kind"] == "write-kinds" {
        write_error_kinds(rep);
        return;
    }
    if case["kind"] == "cli-same" {
        cli_same_source(rep);
        cli_same_result(rep);
        return;
    }
    if case["kind"] == "cli" {
        let cmd: Cmd = serde_json::from_value(case["cmd"].clone()).unwrap();
        let files: Vec<(String, Vec<u8>)> = case["files"].as_array().unwrap().iter().map(|f| (f[0].as_str().unwrap().to_string(), unhx(f[1].as_str().unwrap()))).collect();
        match cli_case(&cmd, &files) {
            Ok(()) => println!("  observed: exit 1 with Error: line (holds)"),
            Err(e) => rep.violation("replay-cli", case.clone(), e),
        }
        return;
    }
    let c = Case::from_json(case).unwrap_or_else(|| crate::report::machinery("bad case"));
    let (env, res) = c.run();
    let (env2, res2) = c.run();
    if res != res2 || env.sink != env2.sink {
        crate::report::machinery("replay not deterministic: nondeterminism not owned");
    }
    println!("  observed: result={} sink_len={} schedule=[{}]", res.brief(), env.sink.len(), describe(&env));
    // rebuild the expectation from the subject
    let src = unhx(&c.src);
    let expect = match &c.subject {
        Subject::TinyEnc { key, aad, cs } => Expect::TinyStream { key: unhx(key).try_into().unwrap(), aad: unhx(aad), cs: *cs, plain: src.clone() },
        Subject::TinyDec { key, aad, cs } => {
            let k: [u8; 32] = unhx(key).try_into().unwrap();
            Expect::Bytes(r::read_chunks(&k, &unhx(aad), &src, *cs).map(|p| p.plaintext).unwrap_or_default())
        }
        Subject::KeyEnc { .. } => {
            let ids = idents(rep.seed);
            Expect::KeyFile { r_priv: ids[2].sk, plain: src.clone() }
        }
        Subject::KeyDec { r, .. } => {
            let k: [u8; 32] = unhx(r).try_into().unwrap();
            Expect::Bytes(r::read_key_file(&k, &src).map(|f| f.parsed.plaintext).unwrap_or_default())
        }
        Subject::PassEnc { pw, salt } => Expect::PassFile { key: r::pass_key(&unhx(pw), &unhx(salt).try_into().unwrap()), plain: src.clone() },
        Subject::PassDec { pw } => {
            let salt: [u8; 32] = src[4..36].try_into().unwrap();
            let k = r::pass_key(&unhx(pw), &salt);
            Expect::Bytes(r::read_pass_file_with_key(&k, &src).map(|p| p.plaintext).unwrap_or_default())
        }
    };
    let twins = AtomicU64::new(0);
    check(rep, "replay", &c.subject, &src, c.menu, &expect, &env, &res, &twins);
    let _ = Tier::Quick;
}
