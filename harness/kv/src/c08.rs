//! C08 — no identities in the file; size formula (E-GRID, pairwise comparison; CLI supplementary).
use crate::env::SchedReader;
use crate::fx::Party;
use crate::proc::{self, Cmd, Scratch};
use crate::refspec as r;
use crate::report::Report;
use crate::streams::*;
use crate::util::*;
use kestrel_crypto::encrypt as ke;
use kestrel_crypto::{AsymFileFormat, PayloadKey};
use rayon::prelude::*;
use serde_json::{json, Value};
use std::collections::HashMap;

const CS: usize = 65536;

fn contains(h: &[u8], n: &[u8]) -> Option<usize> {
    if n.is_empty() || h.len() < n.len() {
        return None;
    }
    h.windows(n.len()).position(|w| w == n)
}

/// byte patterns that would reveal a 32-byte public key: raw, keyring encoding, base64 in any byte phase, both alphabets
pub fn key_patterns(pk: &[u8; 32]) -> Vec<(String, Vec<u8>)> {
    let mut v = vec![("raw".to_string(), pk.to_vec())];
    let enc = r::encode_pk(pk);
    v.push(("keyring-encoding".into(), enc.as_bytes().to_vec()));
    v.push(("keyring-encoding-urlsafe".into(), enc.replace('+', "-").replace('/', "_").into_bytes()));
    for phase in 0..3usize {
        let mut d = vec![0u8; phase];
        d.extend_from_slice(pk);
        d.push(0);
        d.push(0);
        let b = r::b64(&d);
        // characters fully determined by key bytes
        let start = if phase == 0 { 0 } else { 2 + (phase - 1) };
        let window: String = b.chars().skip(start).take(38).collect();
        v.push((format!("base64-phase{}", phase), window.clone().into_bytes()));
        v.push((format!("base64url-phase{}", phase), window.replace('+', "-").replace('/', "_").into_bytes()));
    }
    v.push(("hex".into(), hx(pk).into_bytes()));
    v
}

fn no_identity(rep: &Report, clause: &str, file: &[u8], parties: &[(&str, &[u8; 32])], names: &[&str], case: &Value) -> bool {
    for (who, pk) in parties {
        for (pn, pat) in key_patterns(pk) {
            if let Some(at) = contains(file, &pat) {
                rep.violation(&format!("{}/public-key-in-file", clause), case.clone(), format!("{}'s public key ({}) occurs in the encrypted output at offset {}", who, pn, at));
                return false;
            }
        }
    }
    for n in names {
        if let Some(at) = contains(file, n.as_bytes()) {
            rep.violation(&format!("{}/name-in-file", clause), case.clone(), format!("keyring name {:?} occurs in the encrypted output at offset {}", n, at));
            return false;
        }
    }
    true
}

/// cleartext skeleton of a key-mode file: (magic, e, chunk headers, total length); None if it does not parse structurally
fn skeleton(file: &[u8], hlen: usize) -> Option<(Vec<u8>, Vec<(u64, u32, u32)>, usize)> {
    if file.len() < hlen {
        return None;
    }
    let (recs, rest) = r::split_records(&file[hlen..]);
    if !rest.is_empty() || recs.is_empty() {
        return None;
    }
    Some((file[..36].to_vec(), recs.iter().map(|x| (x.counter_field, x.flag_field, x.len_field)).collect(), file.len()))
}

fn key_enc_opts(s: &Ident, rc: &Ident, e: Option<&[u8; 32]>, e_pub: Option<&[u8; 32]>, pay: Option<&[u8; 32]>, p: &[u8], sizes: &[usize]) -> Result<Vec<u8>, String> {
    let ek = e.map(privkey);
    let epk = e_pub.map(pubkey);
    let pk = pay.map(|k| PayloadKey::new(k));
    let mut out = Vec::new();
    let mut src = SchedReader::new(p, sizes);
    match guarded(|| ke::key_encrypt(&mut src, &mut out, &s.private(), &s.public(), &rc.public(), ek.as_ref(), epk.as_ref(), pk.as_ref(), AsymFileFormat::V1)) {
        Ok(Ok(())) => Ok(out),
        Ok(Err(e)) => Err(format!("error: {}", e)),
        Err(m) => Err(format!("panic: {}", m)),
    }
}

pub fn run(rep: &'static Report) {
    let seed = rep.seed;
    rep.set_rule("E-GRID: all 16 ordered (sender, recipient) pairs x plaintexts x read partitions x payload keys with a fixed ephemeral key; all files that differ only in identities are compared pairwise (cleartext skeleton and length must be equal, length == 132 + 32*records + |P|), every file is scanned for each party's key in raw/hex/base64 (any phase, both alphabets)/keyring encoding and must parse completely into documented fields; all four (ephemeral, ephemeral_public) option combinations; password mode; CLI for every ordered pair of three long-named parties via -o and via stdout. distinct non-trivial = distinct files produced");
    rep.rule_add("CLI: stdin a regular file standing at offsets 0/1/70000/99999/100000; 8 FILE/-o name pairs that are each other's temporary-file spellings; special X25519 points as recipient in the library grid.");
    rep.rule_add("CLI: plaintext on stdin in 5 shapes x password source x output; 48-file ephemeral sequence; non-blocking stdout with 3 slow-reader profiles x 3 sizes x 2 modes.");
    rep.assume("identities from a seed-derived 4-key alphabet; names are >= 12 bytes so that a chance occurrence in ciphertext has probability < 2^-70");
    let ids = idents(seed);
    let e = derive32(seed, "c08-e");
    let e_pub = r::x25519_base(&e);
    let mut plains: Vec<(Vec<u8>, Vec<Vec<usize>>)> = vec![
        (vec![], vec![vec![]]),
        (plaintext(seed ^ 0x81, 100), vec![vec![], vec![1], vec![50, 49], vec![99, 1]]),
        (plaintext(seed ^ 0x82, CS + 5), vec![vec![], vec![1], vec![CS, 1], vec![CS - 1, 1, 5]]),
        (plaintext(seed ^ 0x85, CS + 150), vec![vec![100, CS, 50], vec![4096, CS]]),
    ];
    if rep.tier == crate::report::Tier::Thorough {
        // every length 1..=6 under EVERY read partition (all compositions), and lengths around 1, 2 and 3 chunk boundaries
        for l in 1..=6usize {
            plains.push((plaintext(seed ^ 0x8800 ^ l as u64, l), compositions(l, l)));
        }
        for l in [CS - 1, CS, CS + 1, 2 * CS - 1, 2 * CS, 2 * CS + 1, 3 * CS, 3 * CS + 7] {
            plains.push((plaintext(seed ^ 0x8900 ^ l as u64, l), vec![vec![], vec![1], vec![CS - 1, 2, CS], vec![l / 2, 1], vec![7; 40]]));
        }
    }
    let pays = [derive32(seed, "c08-pay-0"), derive32(seed, "c08-pay-1")];
    let mut jobs = vec![];
    for (pi, (_, parts)) in plains.iter().enumerate() {
        for (qi, _) in parts.iter().enumerate() {
            for (yi, _) in pays.iter().enumerate() {
                for si in 0..4 {
                    for ri in 0..4 {
                        jobs.push((pi, qi, yi, si, ri));
                    }
                }
            }
        }
    }
    let all_parties: Vec<(&str, &[u8; 32])> = ids.iter().map(|i| (i.name, &i.pk)).collect();
    let results: Vec<((usize, usize, usize), (usize, usize), Option<(Vec<u8>, Vec<(u64, u32, u32)>, usize)>)> = jobs
        .par_iter()
        .map(|&(pi, qi, yi, si, ri)| {
            rep.eval(1);
            let (p, parts) = &plains[pi];
            let case = json!({"kind":"pair","plain":pi,"partition":qi,"payload":yi,"s":si,"r":ri});
            match key_enc_opts(&ids[si], &ids[ri], Some(&e), Some(&e_pub), Some(&pays[yi]), p, &parts[qi]) {
                Err(m) => {
                    rep.violation("lib/encrypt-failed", case, m);
                    ((pi, qi, yi), (si, ri), None)
                }
                Ok(file) => {
                    rep.nontrivial(&r::sha256(&file));
                    no_identity(rep, "lib", &file, &all_parties, &[], &case);
                    let sk = skeleton(&file, 132);
                    match &sk {
                        None => rep.violation("lib/does-not-parse-into-documented-fields", case.clone(), format!("output of {} bytes is not magic || handshake || chunk records", file.len())),
                        Some((_, recs, len)) => {
                            if *len != 132 + 32 * recs.len() + p.len() {
                                rep.violation("lib/length-formula", case.clone(), format!("length {} != 132 + 32*{} + {}", len, recs.len(), p.len()));
                            }
                            if r::read_key_file(&ids[ri].sk, &file).map(|k| k.parsed.plaintext != *p).unwrap_or(true) {
                                rep.violation("lib/not-a-conforming-file", case.clone(), "REF cannot read the file back".into());
                            }
                        }
                    }
                    ((pi, qi, yi), (si, ri), sk)
                }
            }
        })
        .collect();
    // pairwise: files differing only in identities
    let mut groups: HashMap<(usize, usize, usize), Vec<((usize, usize), (Vec<u8>, Vec<(u64, u32, u32)>, usize))>> = HashMap::new();
    for (g, who, sk) in results {
        if let Some(sk) = sk {
            groups.entry(g).or_default().push((who, sk));
        }
    }
    let mut pairs = 0u64;
    for (g, v) in &groups {
        for i in 0..v.len() {
            for j in 0..i {
                pairs += 1;
                if v[i].1 != v[j].1 {
                    rep.violation(
                        "lib/cleartext-depends-on-identities",
                        json!({"kind":"pairwise","group":[g.0,g.1,g.2],"a":[v[i].0.0,v[i].0.1],"b":[v[j].0.0,v[j].0.1]}),
                        format!("cleartext fields or length differ between ({}->{}) and ({}->{}) for the same ephemeral key, plaintext and read partition", ids[v[i].0 .0].name, ids[v[i].0 .1].name, ids[v[j].0 .0].name, ids[v[j].0 .1].name),
                    );
                }
            }
        }
    }
    rep.eval(pairs);
    rep.extra("pairwise_comparisons", json!(pairs));
    rep.sample(json!({"kind":"pairwise","a":"S->R","b":"S2->R2","same":"ephemeral key, payload key, plaintext (65541 B), reads [65535,1,5]","expect":"identical magic, e, chunk headers, total length"}));

    // "given the same ephemeral key" holds for every key a caller may give, a party's own static key included: with the
    // pair of identity k supplied as the ephemeral pair, all 16 (sender, recipient) files have the same cleartext fields,
    // the ephemeral field is that key, and REF reads every file back
    {
        let p = plaintext(seed ^ 0x8e, 70);
        let mut cmp = 0u64;
        for k in 0..4 {
            let mut sks: Vec<((usize, usize), (Vec<u8>, Vec<(u64, u32, u32)>, usize))> = vec![];
            for si in 0..4 {
                for ri in 0..4 {
                    rep.eval(1);
                    let case = json!({"kind":"opts","combo":"ephemeral-is-a-static-key","e":k,"s":si,"r":ri});
                    match key_enc_opts(&ids[si], &ids[ri], Some(&ids[k].sk), Some(&ids[k].pk), Some(&pays[0]), &p, &[]) {
                        Err(m) => rep.violation("opts/encrypt-failed", case, m),
                        Ok(file) => {
                            rep.nontrivial(&r::sha256(&file));
                            if file.len() < 36 || file[4..36] != ids[k].pk[..] {
                                rep.violation("opts/ephemeral-not-used", case.clone(), format!("the supplied ephemeral key ({}'s static pair) is not the one written for {} -> {}", ids[k].name, ids[si].name, ids[ri].name));
                            }
                            if r::read_key_file(&ids[ri].sk, &file).map(|f| f.parsed.plaintext != p).unwrap_or(true) {
                                rep.violation("opts/not-conforming", case.clone(), "REF cannot read the file back".into());
                            }
                            if let Some(sk) = skeleton(&file, 132) {
                                sks.push(((si, ri), sk));
                            }
                        }
                    }
                }
            }
            for i in 0..sks.len() {
                for j in 0..i {
                    cmp += 1;
                    if sks[i].1 != sks[j].1 {
                        rep.violation(
                            "lib/cleartext-depends-on-identities",
                            json!({"kind":"opts","combo":"ephemeral-is-a-static-key","e":k,"a":[sks[i].0 .0, sks[i].0 .1],"b":[sks[j].0 .0, sks[j].0 .1]}),
                            format!("cleartext fields differ between ({}->{}) and ({}->{}) although both were given the same ephemeral key ({}'s pair)", ids[sks[i].0 .0].name, ids[sks[i].0 .1].name, ids[sks[j].0 .0].name, ids[sks[j].0 .1].name, ids[k].name),
                        );
                        break;
                    }
                }
            }
        }
        rep.eval(cmp);
        rep.extra("ephemeral_is_static_key_comparisons", json!(cmp));
    }

    // recipients that are special X25519 points (small order, non-canonical): the encryption is refused with nothing
    // written, or its output obeys every clause (documented fields only, prescribed length, the sender's key nowhere)
    {
        let p = plaintext(seed ^ 0x8f, 13);
        let sender_only: Vec<(&str, &[u8; 32])> = vec![(ids[0].name, &ids[0].pk)];
        for (pname, u) in crate::c19::special_points() {
            rep.eval(1);
            rep.nontrivial(format!("special-recipient-{}", pname).as_bytes());
            let rcpt = Ident { name: "special-point", sk: [0u8; 32], pk: u };
            let case = json!({"kind":"opts","combo":"special-recipient","point":pname});
            let mut out = Vec::new();
            let mut src = SchedReader::new(&p, &[]);
            let res = guarded(|| ke::key_encrypt(&mut src, &mut out, &ids[0].private(), &ids[0].public(), &rcpt.public(), Some(&privkey(&e)), Some(&pubkey(&e_pub)), Some(&PayloadKey::new(&pays[0])), AsymFileFormat::V1));
            match res {
                Err(m) => rep.violation("opts/encrypt-failed", case, format!("key_encrypt to the special point {} panicked: {}", pname, m)),
                Ok(Err(_)) => {
                    if !out.is_empty() {
                        rep.violation("lib/refused-but-wrote", case, format!("key_encrypt to the special point {} was refused after {} bytes had been written", pname, out.len()));
                    }
                }
                Ok(Ok(_)) => {
                    no_identity(rep, "special-recipient", &out, &sender_only, &[], &case);
                    match skeleton(&out, 132) {
                        None => rep.violation("lib/does-not-parse-into-documented-fields", case.clone(), format!("output of {} bytes for the special recipient {} is not magic || handshake || chunk records", out.len(), pname)),
                        Some((_, recs, len)) => {
                            if len != 132 + 32 * recs.len() + p.len() {
                                rep.violation("lib/length-formula", case.clone(), format!("length {} != 132 + 32*{} + {} for the special recipient {}", len, recs.len(), p.len(), pname));
                            }
                        }
                    }
                }
            }
        }
    }

    // the four (ephemeral, ephemeral_public) option combinations
    let p = plaintext(seed ^ 0x83, 50);
    for (cn, eo, epo) in [("both", Some(&e), Some(&e_pub)), ("none", None, None), ("private-only", Some(&e), None), ("public-only", None, Some(&e_pub))] {
        let mut efields = vec![];
        for (si, ri) in [(0usize, 2usize), (1, 3), (0, 0)] {
            for rep_i in 0..2 {
                rep.eval(1);
                let case = json!({"kind":"opts","combo":cn,"s":si,"r":ri,"rep":rep_i});
                match key_enc_opts(&ids[si], &ids[ri], eo, epo, Some(&pays[0]), &p, &[]) {
                    Err(m) => rep.violation("opts/encrypt-failed", case, m),
                    Ok(file) => {
                        rep.nontrivial(&r::sha256(&file));
                        no_identity(rep, &format!("opts-{}", cn), &file, &all_parties, &[], &case);
                        if file.len() != 132 + 32 + p.len() {
                            rep.violation("opts/length-formula", case.clone(), format!("length {}", file.len()));
                        }
                        if r::read_key_file(&ids[ri].sk, &file).is_err() {
                            rep.violation("opts/not-conforming", case.clone(), format!("file made with ephemeral option combination '{}' is not a conforming file", cn));
                        }
                        efields.push(file[4..36].to_vec());
                    }
                }
            }
        }
        if cn == "both" {
            if efields.iter().any(|f| f[..] != e_pub[..]) {
                rep.violation("opts/ephemeral-not-used", json!({"kind":"opts","combo":cn}), "supplied ephemeral key not written".into());
            }
        } else {
            // not fully supplied => fresh ephemeral key every time
            for i in 0..efields.len() {
                for j in 0..i {
                    if efields[i] == efields[j] {
                        rep.violation("opts/ephemeral-not-fresh", json!({"kind":"opts","combo":cn}), format!("ephemeral field repeats across encryptions with option combination '{}'", cn));
                    }
                }
            }
        }
    }

    // "a fresh ephemeral public key": a run of 48 encryptions on one thread with the ephemeral key left to the library
    // (payload key supplied for the first 24, left to the library for the rest): the 32-byte field after the magic never
    // repeats and is never a party's public key
    {
        let p = plaintext(seed ^ 0x87, 20);
        let mut seen: Vec<(usize, Vec<u8>)> = vec![];
        for i in 0..48usize {
            rep.eval(1);
            let (si, ri) = (i % 4, (i / 4) % 4);
            let pay = if i < 24 { Some(&pays[0]) } else { None };
            match key_enc_opts(&ids[si], &ids[ri], None, None, pay, &p, &[]) {
                Err(m) => {
                    rep.violation("sequence/encrypt-failed", json!({"kind":"sequence","i":i}), m);
                    break;
                }
                Ok(file) => {
                    let e = file[4..36].to_vec();
                    if let Some((j, _)) = seen.iter().find(|(_, x)| *x == e) {
                        rep.violation("sequence/ephemeral-field-repeats", json!({"kind":"sequence","i":i,"j":j}), format!("file {} of a run of encryptions in one thread carries the same ephemeral public key as file {}", i, j));
                        break;
                    }
                    if let Some(who) = ids.iter().find(|x| x.pk[..] == e[..]) {
                        rep.violation("sequence/ephemeral-field-is-a-party-key", json!({"kind":"sequence","i":i}), format!("file {} carries {}'s public key in its ephemeral field", i, who.name));
                        break;
                    }
                    seen.push((i, e));
                }
            }
        }
        rep.nontrivial(b"ephemeral-sequence");
        rep.extra("ephemeral_sequence_length", json!(48));
    }

    // a plaintext source that answers one read() with ErrorKind::Interrupted: the call may fail, but if it returns Ok the
    // file has the prescribed length for the WHOLE plaintext
    {
        struct IntrAt<'a> {
            data: &'a [u8],
            pos: usize,
            call: usize,
            at: usize,
            piece: usize,
        }
        impl<'a> std::io::Read for IntrAt<'a> {
            fn read(&mut self, buf: &mut [u8]) -> std::io::Result<usize> {
                let c = self.call;
                self.call += 1;
                if c == self.at {
                    return Err(std::io::Error::new(std::io::ErrorKind::Interrupted, "injected EINTR"));
                }
                let n = buf.len().min(self.data.len() - self.pos).min(self.piece);
                buf[..n].copy_from_slice(&self.data[self.pos..self.pos + n]);
                self.pos += n;
                Ok(n)
            }
        }
        for l in [0usize, 50, CS + 5, 3 * CS + 9] {
            let p = plaintext(seed ^ 0x89, l);
            for piece in [usize::MAX, 40_000] {
                for at in 0..10usize {
                    for mode in ["key", "pass"] {
                        rep.eval(1);
                        let sub = if mode == "key" { Subject::KeyEnc { s: hx(&ids[0].sk), s_pub: hx(&ids[0].pk), r_pub: hx(&ids[2].pk), e: hx(&e), payload: hx(&pays[0]) } } else { Subject::PassEnc { pw: hx(b"c08-intr"), salt: hx(&derive32(seed, "c08-intr-salt")) } };
                        if mode == "pass" && (at > 3 || l > CS + 5) {
                            continue; // one scrypt per run
                        }
                        let mut src = IntrAt { data: &p, pos: 0, call: 0, at, piece };
                        let mut out = Vec::new();
                        let res = run_rw(&sub, &mut src, &mut out);
                        rep.nontrivial(format!("intr-{}-{}-{}-{}", mode, l, piece, at).as_bytes());
                        if res.is_ok() {
                            let hdr = if mode == "key" { 132 } else { 36 };
                            let recs = skeleton(&out, hdr).map(|s| s.1.len()).unwrap_or(0);
                            if out.len() != hdr + 32 * recs + l {
                                rep.violation("intr/ok-with-wrong-length", json!({"kind":"intr","mode":mode,"len":l,"piece":piece,"at":at}), format!("{} encryption of {} bytes with read call {} interrupted returned Ok and wrote {} bytes: {} + 32 x {} records + {} plaintext bytes were prescribed", mode, l, at, out.len(), hdr, recs, l));
                            }
                        }
                    }
                }
            }
        }
    }

    // password mode
    let salt = derive32(seed, "c08-salt");
    let mut headers = vec![];
    for pw in ["correct horse battery", "another-long-password", "p\u{e4}ssw\u{f6}rd-unicode"] {
        for (p, parts) in &plains {
            rep.eval(1);
            let sub = Subject::PassEnc { pw: hx(pw.as_bytes()), salt: hx(&salt) };
            let mut out = Vec::new();
            let res = run_rw(&sub, &mut SchedReader::new(p, &parts[parts.len() - 1]), &mut out);
            let case = json!({"kind":"pass","pw":pw,"len":p.len()});
            if !res.is_ok() {
                rep.violation("pass/encrypt-failed", case, res.brief());
                continue;
            }
            rep.nontrivial(&r::sha256(&out));
            match skeleton(&out, 36) {
                None => rep.violation("pass/does-not-parse", case.clone(), "not magic || salt || chunk records".into()),
                Some((hdr, recs, len)) => {
                    if len != 36 + 32 * recs.len() + p.len() {
                        rep.violation("pass/length-formula", case.clone(), format!("length {} != 36 + 32*{} + {}", len, recs.len(), p.len()));
                    }
                    headers.push((p.len(), hdr, recs));
                }
            }
            if contains(&out, pw.as_bytes()).is_some() || contains(&out, r::b64(pw.as_bytes()).trim_end_matches('=').as_bytes()).is_some() {
                rep.violation("pass/password-in-file", case, "password occurs in the file".into());
            }
        }
    }
    for i in 0..headers.len() {
        for j in 0..i {
            if headers[i].0 == headers[j].0 && (headers[i].1 != headers[j].1 || headers[i].2 != headers[j].2) {
                rep.violation("pass/cleartext-depends-on-password", json!({"kind":"pass-pairwise"}), "cleartext fields differ between passwords for the same salt and plaintext".into());
            }
        }
    }

    cli_level(rep);
    rep.set_exhaustive(true);
}

fn cli_level(rep: &Report) {
    let seed = rep.seed;
    let parties = vec![Party::new(seed, "alice-keyring-name", "pw-alice"), Party::new(seed, "bob-keyring-name", "pw-bob"), Party::new(seed, &format!("carol-{}", "n".repeat(110)), "pw-carol")];
    let kr = crate::fx::keyring(&parties.iter().map(|p| (p, true)).collect::<Vec<_>>());
    let names: Vec<&str> = parties.iter().map(|p| p.name.as_str()).collect();
    let pks: Vec<(&str, &[u8; 32])> = parties.iter().map(|p| (p.name.as_str(), &p.pk)).collect();
    // wiring: 0 = -o fresh path, 1 = stdout pipe, 2 = -o path that already holds a longer file,
    //         3 = password typed at a terminal that is stdin (no controlling terminal), ciphertext on a stdout pipe
    let mut jobs = vec![];
    for s in 0..3 {
        for rc in 0..3 {
            for n in rep.tier.pick(vec![0usize, 10, 70000], vec![0usize, 1, 10, CS - 1, CS, CS + 1, 70000, 2 * CS, 2 * CS + 1]) {
                for wiring in 0..4u8 {
                    jobs.push((s, rc, n, wiring));
                }
            }
        }
    }
    let lens: Vec<Option<(usize, usize, usize)>> = jobs
        .par_iter()
        .map(|&(s, rc, n, wiring)| {
            rep.eval(1);
            let via_stdout = wiring == 1 || wiring == 3;
            let p = plaintext(seed ^ 0x84, n);
            let check = || -> Result<Vec<u8>, String> {
                let sc = Scratch::new();
                sc.write("kr.txt", kr.as_bytes());
                sc.write("plain.bin", &p);
                if wiring == 2 {
                    sc.write("out.ktl", &vec![b'P'; 100_000]);
                }
                let mut args = vec!["encrypt", "plain.bin", "-t", &parties[rc].name, "-f", &parties[s].name, "-k", "kr.txt"];
                if wiring != 3 {
                    args.push("--env-pass");
                }
                if !via_stdout {
                    args.extend_from_slice(&["-o", "out.ktl"]);
                }
                let mut cmd = Cmd::new(&args);
                if wiring == 3 {
                    cmd.pty = Some(proc::PtySpec { typed: format!("{}\n", parties[s].password).into_bytes(), controlling: false, stdin_is_tty: true, stdout_is_tty: false });
                } else {
                    cmd = cmd.env("KESTREL_PASSWORD", &parties[s].password);
                }
                let out = proc::run(&cmd, &sc.0);
                out.well_behaved()?;
                if !out.ok() {
                    return Err(format!("encrypt failed: {}", out.summary()));
                }
                let file = if via_stdout { out.stdout.clone() } else { sc.read("out.ktl").ok_or("no output file")? };
                Ok(file)
            };
            let case = json!({"kind":"cli","s":s,"r":rc,"n":n,"wiring":wiring});
            let wname = ["-o fresh path", "stdout pipe", "-o path holding a longer file", "password typed at a tty stdin, stdout pipe"][wiring as usize];
            match check() {
                Err(e) => {
                    rep.violation("cli/encrypt", case, format!("{}->{} n={} [{}]: {}", names[s], names[rc], n, wname, e));
                    None
                }
                Ok(file) => {
                    rep.nontrivial(&r::sha256(&file));
                    no_identity(rep, "cli", &file, &pks, &names, &case);
                    match r::read_key_file(&parties[rc].sk, &file) {
                        Ok(k) if k.parsed.plaintext == p && k.sender == parties[s].pk => {}
                        _ => rep.violation(
                            "cli/output-is-not-exactly-a-conforming-file",
                            case.clone(),
                            format!("CLI output for {}->{} (n={}, {}) is not exactly a conforming encrypted file ({} bytes; expected {})", names[s], names[rc], n, wname, file.len(), 132 + 32 * ((n + CS - 1) / CS).max(1) + n),
                        ),
                    }
                    Some((n, via_stdout as usize, file.len()))
                }
            }
        })
        .collect();
    // length independent of identities and wiring
    let mut by_n: HashMap<usize, Vec<usize>> = HashMap::new();
    for l in lens.into_iter().flatten() {
        by_n.entry(l.0).or_default().push(l.2);
    }
    for (n, v) in by_n {
        if v.iter().any(|&x| x != v[0]) {
            rep.violation("cli/length-depends-on-identities-or-wiring", json!({"kind":"cli-len","n":n}), format!("output lengths for a {}-byte plaintext differ across parties/wirings: {:?}", n, v));
        }
    }
    // plaintext on stdin: every byte offered on stdin is plaintext, whatever it looks like (e.g. lines equal to the
    // password) and however the password is obtained; a run that cannot obtain a password may refuse, but whatever
    // file comes out with exit 0 must be the conforming encryption of the whole of stdin (length = header + 32/chunk + len)
    {
        let mut sjobs = vec![];
        for mode in ["key", "pass"] {
            for shape in 0..5usize {
                for envpass in [true, false] {
                    for via_stdout in [true, false] {
                        sjobs.push((mode, shape, envpass, via_stdout));
                    }
                }
            }
        }
        let produced: usize = sjobs
            .par_iter()
            .map(|&(mode, shape, envpass, via_stdout)| {
                rep.eval(1);
                let pw = if mode == "key" { parties[0].password.clone() } else { "pw-for-file".to_string() };
                let body = plaintext(seed ^ 0x85, 1000);
                let stdin: Vec<u8> = match shape {
                    0 => body.clone(),
                    1 => [format!("{}\n", pw).into_bytes(), body.clone()].concat(),
                    2 => [format!("{}\n{}\n", pw, pw).into_bytes(), body.clone()].concat(),
                    3 => pw.clone().into_bytes(),
                    _ => format!("{}\n{}\n", pw, pw).into_bytes(),
                };
                let sc = Scratch::new();
                sc.write("kr.txt", kr.as_bytes());
                let mut args: Vec<&str> = if mode == "key" { vec!["encrypt", "-t", &parties[1].name, "-f", &parties[0].name, "-k", "kr.txt"] } else { vec!["password", "encrypt"] };
                if envpass {
                    args.push("--env-pass");
                }
                if !via_stdout {
                    args.extend_from_slice(&["-o", "out.ktl"]);
                }
                let mut cmd = Cmd::new(&args).stdin(&stdin);
                if envpass {
                    cmd = cmd.env("KESTREL_PASSWORD", &pw);
                }
                let out = proc::run(&cmd, &sc.0);
                let case = json!({"kind":"cli-stdin","mode":mode,"shape":shape,"env_pass":envpass,"via_stdout":via_stdout});
                let what = format!("kestrel {} with a {}-byte plaintext on stdin (shape {}), {}, {}", args.join(" "), stdin.len(), shape, if envpass { "password from the environment" } else { "no password source but the (absent) terminal" }, if via_stdout { "stdout pipe" } else { "-o" });
                if let Err(e) = out.well_behaved() {
                    rep.violation("cli-stdin/ill-behaved", case, format!("{}: {}", what, e));
                    return 0;
                }
                if !out.ok() {
                    if envpass {
                        rep.violation("cli-stdin/encrypt", case, format!("{}: failed: {}", what, out.summary()));
                    }
                    return 0;
                }
                let file = if via_stdout { out.stdout.clone() } else { sc.read("out.ktl").unwrap_or_default() };
                rep.nontrivial(&r::sha256(&file));
                let (hdr, good) = if mode == "key" {
                    (132, matches!(r::read_key_file(&parties[1].sk, &file), Ok(k) if k.parsed.plaintext == stdin && k.sender == parties[0].pk))
                } else {
                    (36, file.len() >= 36 && matches!(r::read_pass_file_with_key(&r::pass_key(pw.as_bytes(), file[4..36].try_into().unwrap()), &file), Ok(k) if k.plaintext == stdin))
                };
                let want = hdr + 32 * ((stdin.len() + CS - 1) / CS).max(1) + stdin.len();
                if !good || file.len() != want {
                    rep.violation("cli-stdin/output-is-not-the-encryption-of-stdin", case, format!("{}: exit 0 with a {}-byte file; the conforming encryption of what was offered on stdin has {} bytes{}", what, file.len(), want, if good { "" } else { " (and REF does not recover stdin from it)" }));
                }
                1
            })
            .sum();
        rep.extra("cli_stdin_plaintext_runs", json!({"runs":sjobs.len(),"files_produced":produced}));
    }
    // stdin is a regular file whose descriptor already stands at an offset (the parent consumed a preamble:
    // `{ read hdr; kestrel encrypt ...; } < file`): what is encrypted is what is left to read on that descriptor.
    // And FILE / -o names that are each other's temporary-file spellings (x.tmp, x.part, x~, .x.swp next to x).
    {
        let mut ojobs: Vec<(&str, u64, &str, &str)> = vec![];
        for mode in ["key", "pass"] {
            for off in [0u64, 1, 70_000, 99_999, 100_000] {
                ojobs.push((mode, off, "", ""));
            }
            for (inn, outn) in [("report.tmp", "report"), ("report", "report.tmp"), ("report.part", "report"), ("report~", "report"), (".report.swp", "report"), ("report.new", "report"), ("report", "report.ktl"), ("report.ktl.tmp", "report.ktl")] {
                ojobs.push((mode, u64::MAX, inn, outn));
            }
        }
        ojobs.par_iter().for_each(|&(mode, off, inn, outn)| {
            rep.eval(1);
            rep.nontrivial(format!("cli-stdin-offset-{}-{}-{}-{}", mode, off, inn, outn).as_bytes());
            let pw = if mode == "key" { parties[0].password.clone() } else { "pw-for-file".to_string() };
            let whole = plaintext(seed ^ 0x86, 100_000);
            let sc = Scratch::new();
            sc.write("kr.txt", kr.as_bytes());
            let mut args: Vec<&str> = if mode == "key" { vec!["encrypt", "-t", &parties[1].name, "-f", &parties[0].name, "-k", "kr.txt", "--env-pass"] } else { vec!["password", "encrypt", "--env-pass"] };
            let (expected, outname, what): (Vec<u8>, &str, String) = if off == u64::MAX {
                sc.write(inn, &whole);
                args.insert(if mode == "key" { 1 } else { 2 }, inn);
                args.extend_from_slice(&["-o", outn]);
                (whole.clone(), outn, format!("kestrel {} (input '{}', output '{}')", args.join(" "), inn, outn))
            } else {
                sc.write("data.bin", &whole);
                args.extend_from_slice(&["-o", "out.ktl"]);
                (whole[off as usize..].to_vec(), "out.ktl", format!("kestrel {} with stdin a regular file of 100000 bytes standing at offset {}", args.join(" "), off))
            };
            let mut cmd = Cmd::new(&args).env("KESTREL_PASSWORD", &pw);
            if off != u64::MAX {
                cmd.stdin_path = Some("data.bin".into());
                cmd.stdin_offset = Some(off);
            }
            let out = proc::run(&cmd, &sc.0);
            let case = json!({"kind":"cli-stdin","mode":mode,"offset":off,"input":inn,"output":outn});
            if let Err(e) = out.well_behaved() {
                rep.violation("cli-stdin/ill-behaved", case, format!("{}: {}", what, e));
                return;
            }
            if !out.ok() {
                rep.violation("cli-stdin/encrypt", case, format!("{}: failed: {}", what, out.summary()));
                return;
            }
            let file = sc.read(outname).unwrap_or_default();
            let (hdr, good) = if mode == "key" {
                (132, matches!(r::read_key_file(&parties[1].sk, &file), Ok(k) if k.parsed.plaintext == expected && k.sender == parties[0].pk))
            } else {
                (36, file.len() >= 36 && matches!(r::read_pass_file_with_key(&r::pass_key(pw.as_bytes(), file[4..36].try_into().unwrap()), &file), Ok(k) if k.plaintext == expected))
            };
            let want = hdr + 32 * ((expected.len() + CS - 1) / CS).max(1) + expected.len();
            if !good || file.len() != want {
                rep.violation("cli-stdin/output-is-not-the-encryption-of-the-input", case.clone(), format!("{}: exit 0 with a {}-byte file; the conforming encryption of the {} input bytes has {} bytes{}", what, file.len(), expected.len(), want, if good { "" } else { " (and REF does not recover the input from it)" }));
            }
            if off == u64::MAX && sc.read(inn).as_deref() != Some(&whole[..]) {
                rep.violation("cli-stdin/input-file-changed", case, format!("{}: the input file was changed or removed by the run", what));
            }
        });
        rep.extra("cli_stdin_offset_and_name_pair_runs", json!(ojobs.len()));
    }
    // the keyring file's permission bits (0600, 0644, 0664, 0666, 0444): nothing about them reaches stdout, where the file goes
    {
        use std::os::unix::fs::PermissionsExt;
        let mj: Vec<u32> = vec![0o600, 0o644, 0o664, 0o666, 0o444];
        mj.par_iter().for_each(|&mode| {
            rep.eval(1);
            rep.nontrivial(format!("cli-keyring-mode-{:o}", mode).as_bytes());
            let body = plaintext(seed ^ 0x88, 1000);
            let sc = Scratch::new();
            sc.write("kr.txt", kr.as_bytes());
            let _ = std::fs::set_permissions(sc.0.join("kr.txt"), std::fs::Permissions::from_mode(mode));
            sc.write("plain.bin", &body);
            let out = proc::run(&Cmd::new(&["encrypt", "plain.bin", "-t", &parties[1].name, "-f", &parties[0].name, "-k", "kr.txt", "--env-pass"]).env("KESTREL_PASSWORD", &parties[0].password), &sc.0);
            let good = out.ok() && matches!(r::read_key_file(&parties[1].sk, &out.stdout), Ok(k) if k.parsed.plaintext == body) && out.stdout.len() == 132 + 32 + body.len();
            if !good {
                rep.violation("cli-stdin/output-is-not-the-encryption-of-the-input", json!({"kind":"cli-stdin","keyring_mode":format!("{:o}", mode)}), format!("kestrel encrypt to a stdout pipe with a keyring file of mode {:o}: {} bytes on stdout starting {:?}; the file has {} bytes and starts with the magic number ({})", mode, out.stdout.len(), String::from_utf8_lossy(&out.stdout[..out.stdout.len().min(24)]), 132 + 32 + body.len(), out.summary().chars().take(100).collect::<String>()));
            }
        });
    }
    // nobody reads stderr (its reader is gone before the first progress text) while the file goes to a stdout pipe: whatever
    // the exit status, an exit status of 0 means stdout carries exactly the file
    {
        let ej: Vec<&str> = vec!["key", "pass"];
        ej.par_iter().for_each(|&mode| {
            rep.eval(1);
            rep.nontrivial(format!("cli-stderr-gone-{}", mode).as_bytes());
            let pw = if mode == "key" { parties[0].password.clone() } else { "pw-for-file".to_string() };
            let body = plaintext(seed ^ 0x87, 1000);
            let sc = Scratch::new();
            sc.write("kr.txt", kr.as_bytes());
            sc.write("plain.bin", &body);
            let args: Vec<&str> = if mode == "key" { vec!["encrypt", "plain.bin", "-t", &parties[1].name, "-f", &parties[0].name, "-k", "kr.txt", "--env-pass"] } else { vec!["password", "encrypt", "plain.bin", "--env-pass"] };
            let mut cmd = Cmd::new(&args).env("KESTREL_PASSWORD", &pw);
            cmd.stderr_reader_leaves_after = Some(0);
            let out = proc::run(&cmd, &sc.0);
            if out.timed_out {
                rep.violation("cli-stdin/ill-behaved", json!({"kind":"cli-stdin","mode":mode,"stderr_gone":true}), "hang".into());
                return;
            }
            if !out.ok() {
                return;
            }
            let file = &out.stdout;
            let (hdr, good) = if mode == "key" { (132, matches!(r::read_key_file(&parties[1].sk, file), Ok(k) if k.parsed.plaintext == body)) } else { (36, file.len() >= 36 && matches!(r::read_pass_file_with_key(&r::pass_key(pw.as_bytes(), file[4..36].try_into().unwrap()), file), Ok(k) if k.plaintext == body)) };
            if !good || file.len() != hdr + 32 + body.len() {
                rep.violation("cli-stdin/output-is-not-the-encryption-of-the-input", json!({"kind":"cli-stdin","mode":mode,"stderr_gone":true}), format!("kestrel {} to a stdout pipe while nobody reads stderr: exit 0 with {} bytes on stdout, starting {:?}; the file has {} bytes and starts with the magic number", args.join(" "), file.len(), String::from_utf8_lossy(&file[..file.len().min(16)]), hdr + 32 + body.len()));
            }
        });
    }
    // stdout is a NON-BLOCKING pipe read slowly (as left behind by ssh or a task runner): the run may fail with an
    // error, but an exit status of 0 promises a conforming file of exactly the prescribed length on the pipe
    {
        let mut njobs = vec![];
        for mode in ["key", "pass"] {
            for n in [10usize, 70000, 300_000] {
                for slow in [(0u64, 4096usize, 300u64), (150, 65536, 0), (0, 1000, 50)] {
                    njobs.push((mode, n, slow));
                }
            }
        }
        let ok_runs: usize = njobs
            .par_iter()
            .map(|&(mode, n, slow)| {
                rep.eval(1);
                let p = plaintext(seed ^ 0x86, n);
                let sc = Scratch::new();
                sc.write("kr.txt", kr.as_bytes());
                sc.write("plain.bin", &p);
                let pw = if mode == "key" { parties[0].password.clone() } else { "pw-for-file".to_string() };
                let args: Vec<&str> = if mode == "key" { vec!["encrypt", "plain.bin", "-t", &parties[1].name, "-f", &parties[0].name, "-k", "kr.txt", "--env-pass"] } else { vec!["password", "encrypt", "plain.bin", "--env-pass"] };
                let mut cmd = Cmd::new(&args).env("KESTREL_PASSWORD", &pw);
                cmd.stdout_nonblock_slow = Some(slow);
                let out = proc::run(&cmd, &sc.0);
                let case = json!({"kind":"cli-nonblock","mode":mode,"n":n,"reader":[slow.0, slow.1, slow.2]});
                rep.nontrivial(format!("nonblock-{}-{}-{:?}", mode, n, slow).as_bytes());
                if let Err(e) = out.well_behaved() {
                    rep.violation("cli-nonblock/ill-behaved", case, format!("kestrel {} into a non-blocking stdout pipe: {}", args.join(" "), e));
                    return 0;
                }
                if !out.ok() {
                    return 0;
                }
                let file = &out.stdout;
                let (hdr, good) = if mode == "key" {
                    (132, matches!(r::read_key_file(&parties[1].sk, file), Ok(k) if k.parsed.plaintext == p))
                } else {
                    (36, file.len() >= 36 && matches!(r::read_pass_file_with_key(&r::pass_key(pw.as_bytes(), file[4..36].try_into().unwrap()), file), Ok(k) if k.plaintext == p))
                };
                let want = hdr + 32 * ((n + CS - 1) / CS).max(1) + n;
                if !good || file.len() != want {
                    rep.violation("cli-nonblock/exit-0-but-not-the-prescribed-file", case, format!("kestrel {} into a non-blocking stdout pipe with a slow reader: exit 0, {} bytes arrived, the prescribed file has {} bytes{}", args.join(" "), file.len(), want, if good { "" } else { " (REF cannot read what arrived)" }));
                }
                1
            })
            .sum();
        rep.extra("cli_nonblocking_stdout_runs", json!({"runs":njobs.len(),"exit_0":ok_runs}));
    }
    // the plaintext is named through a symbolic link (with a long target path), is a FIFO, or sits behind `./` and `../`
    // path spellings: length and content of the output depend on the plaintext only
    {
        let mut ljobs = vec![];
        for mode in ["key", "pass"] {
            for n in [0usize, 5, 70000] {
                for spelling in 0..3u8 {
                    ljobs.push((mode, n, spelling));
                }
            }
            // spelling 3: the plaintext is /proc/version (a regular file whose reported size is 0)
            ljobs.push((mode, 0, 3));
        }
        ljobs.par_iter().for_each(|&(mode, n, spelling)| {
            rep.eval(1);
            rep.nontrivial(format!("cli-input-spelling-{}-{}-{}", mode, n, spelling).as_bytes());
            let p = if spelling == 3 { std::fs::read("/proc/version").unwrap_or_default() } else { plaintext(seed ^ 0x88, n) };
            let n = p.len();
            let attempt = || -> Result<(), String> {
                let sc = Scratch::new();
                sc.write("kr.txt", kr.as_bytes());
                std::fs::create_dir_all(sc.path("a-directory-with-a-rather-long-name/and-a-second-level-that-is-long-too")).map_err(|e| format!("MACHINERY: {}", e))?;
                let real = "a-directory-with-a-rather-long-name/and-a-second-level-that-is-long-too/the-real-plaintext-file-with-a-long-name.bin";
                sc.write(real, &p);
                let input: String = match spelling {
                    0 => {
                        std::os::unix::fs::symlink(real, sc.path("p.lnk")).map_err(|e| format!("MACHINERY: {}", e))?;
                        "p.lnk".into()
                    }
                    1 => format!("./a-directory-with-a-rather-long-name/../{}", real),
                    3 => "/proc/version".into(),
                    _ => {
                        // a chain of two links
                        std::os::unix::fs::symlink(real, sc.path("l1")).map_err(|e| format!("MACHINERY: {}", e))?;
                        std::os::unix::fs::symlink("l1", sc.path("l2")).map_err(|e| format!("MACHINERY: {}", e))?;
                        "l2".into()
                    }
                };
                let pw = if mode == "key" { parties[0].password.clone() } else { "pw-for-file".to_string() };
                let mut args: Vec<&str> = if mode == "key" { vec!["encrypt", &input, "-t", &parties[1].name, "-f", &parties[0].name, "-k", "kr.txt", "--env-pass"] } else { vec!["password", "encrypt", &input, "--env-pass"] };
                args.extend_from_slice(&["-o", "out.ktl"]);
                let out = proc::run(&Cmd::new(&args).env("KESTREL_PASSWORD", &pw), &sc.0);
                out.well_behaved()?;
                if !out.ok() {
                    return Err(format!("encrypt failed: {}", out.summary()));
                }
                let file = sc.read("out.ktl").unwrap_or_default();
                let (hdr, good) = if mode == "key" {
                    (132, matches!(r::read_key_file(&parties[1].sk, &file), Ok(k) if k.parsed.plaintext == p))
                } else {
                    (36, file.len() >= 36 && matches!(r::read_pass_file_with_key(&r::pass_key(pw.as_bytes(), file[4..36].try_into().unwrap()), &file), Ok(k) if k.plaintext == p))
                };
                let want = hdr + 32 * ((n + CS - 1) / CS).max(1) + n;
                if !good || file.len() != want {
                    return Err(format!("the {}-byte plaintext named as {:?}: the output has {} bytes, prescribed are {}{}", n, input, file.len(), want, if good { "" } else { " (and REF does not read it as the conforming file)" }));
                }
                Ok(())
            };
            if let Err(e) = attempt() {
                if e.starts_with("MACHINERY") {
                    crate::report::machinery(&e);
                }
                if let Err(e2) = attempt() {
                    rep.violation("cli/length-depends-on-how-the-input-is-named", json!({"kind":"cli-spelling","mode":mode,"n":n,"spelling":spelling}), format!("kestrel {} encrypt: {}", mode, e2));
                }
            }
        });
        rep.extra("cli_input_spelling_runs", json!(ljobs.len()));
    }
    rep.extra("cli_encryptions", json!(jobs.len()));
    rep.sample(json!({"kind":"cli","from":"alice-keyring-name","to":"alice-keyring-name","n":10,"via":"stdout","expect":"stdout is exactly a 174-byte conforming file containing neither name nor any party's key"}));
}

pub fn replay(rep: &'static Report, case: &Value) {
    println!("  replaying the C08 grid (deterministic apart from fresh randomness, a few seconds); case: {}", case);
    run(rep);
}
