//! Level-synchronous parallel breadth-first search over a `stateright::Model`.
//!
//! Used for the history models whose invariant executes CLI processes / key derivations (>= 100 ms per
//! state): stateright's job-market BFS does not spread so few, so expensive states over the cores.
//! Same semantics as `checker().spawn_bfs()` for `always` properties: every reachable state within the
//! boundary is visited once (states are de-duplicated by equality), parents strictly before children,
//! the search stops after the first level that contains a violation (so a reported history is a shortest one).
use rayon::prelude::*;
use stateright::{Expectation, Model};
use std::collections::HashSet;
use std::fmt::Debug;
use std::hash::Hash;

pub struct SearchStats<S> {
    pub states: u64,
    pub transitions: u64,
    pub max_depth: usize,
    pub violating: Vec<(&'static str, S)>,
}

pub fn bfs_levels<M>(model: &M) -> SearchStats<M::State>
where
    M: Model + Sync,
    M::State: Hash + Eq + Clone + Send + Sync + Debug,
    M::Action: Send,
{
    let props = model.properties();
    for p in &props {
        if !matches!(p.expectation, Expectation::Always) {
            crate::report::machinery("bfs_levels supports `always` properties only");
        }
    }
    let mut seen: HashSet<M::State> = HashSet::new();
    let mut frontier: Vec<M::State> = vec![];
    for s in model.init_states() {
        if seen.insert(s.clone()) {
            frontier.push(s);
        }
    }
    let mut st = SearchStats { states: 0, transitions: 0, max_depth: 0, violating: vec![] };
    let mut depth = 0;
    while !frontier.is_empty() {
        depth += 1;
        st.max_depth = depth;
        st.states += frontier.len() as u64;
        let verdicts: Vec<Vec<bool>> = frontier.par_iter().map(|s| props.iter().map(|p| (p.condition)(model, s)).collect()).collect();
        for (s, v) in frontier.iter().zip(verdicts.iter()) {
            for (p, ok) in props.iter().zip(v.iter()) {
                if !ok {
                    st.violating.push((p.name, s.clone()));
                }
            }
        }
        if !st.violating.is_empty() {
            break;
        }
        let mut next = vec![];
        for s in &frontier {
            if !model.within_boundary(s) {
                continue;
            }
            let mut acts = vec![];
            model.actions(s, &mut acts);
            for a in acts {
                if let Some(n) = model.next_state(s, a) {
                    st.transitions += 1;
                    if seen.insert(n.clone()) {
                        next.push(n);
                    }
                }
            }
        }
        frontier = next;
    }
    st
}
