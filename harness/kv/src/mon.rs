//! MON — inspecting, counting global allocator (per-thread accounting; no locks, no allocation).
#![allow(dead_code)]

use std::alloc::{GlobalAlloc, Layout, System};
use std::cell::Cell;

pub const BIG: usize = 16 << 20;
pub const WATCH_SLOTS: usize = 32;
pub const TRACK_SLOTS: usize = 4096;

#[derive(Clone, Copy)]
pub struct WatchEvent {
    pub addr: usize,
    pub bytes: [u8; 32],
}

struct Tl {
    live: Cell<isize>,
    peak: Cell<isize>,
    big_count: Cell<usize>,
    big_last: Cell<usize>,
    big_max: Cell<usize>,
    allocs: Cell<usize>,
    watch_n: Cell<usize>,
    watch: Cell<[usize; WATCH_SLOTS]>,
    ev_n: Cell<usize>,
    ev: Cell<[WatchEvent; WATCH_SLOTS]>,
    /// live-block tracking for a region (C20: blocks allocated during an operation and still live after it)
    track_on: Cell<bool>,
    track_n: Cell<usize>,
    track_overflow: Cell<bool>,
    track: std::cell::UnsafeCell<[(usize, usize); TRACK_SLOTS]>,
    /// freed-block search: while `pat_on`, every block of at most 4096 bytes released on this thread is searched for the
    /// 32-byte pattern; `pat_hits` counts the blocks that still contained it, `pat_size` is the size of the first such block
    pat_on: Cell<bool>,
    pat: Cell<[u8; 32]>,
    pat_hits: Cell<usize>,
    pat_size: Cell<usize>,
}

thread_local! {
    static TL: Tl = const { Tl {
        live: Cell::new(0), peak: Cell::new(0), big_count: Cell::new(0), big_last: Cell::new(0), big_max: Cell::new(0),
        allocs: Cell::new(0),
        watch_n: Cell::new(0), watch: Cell::new([0; WATCH_SLOTS]),
        ev_n: Cell::new(0), ev: Cell::new([WatchEvent{addr:0, bytes:[0;32]}; WATCH_SLOTS]),
        track_on: Cell::new(false), track_n: Cell::new(0), track_overflow: Cell::new(false), track: std::cell::UnsafeCell::new([(0, 0); TRACK_SLOTS]),
        pat_on: Cell::new(false), pat: Cell::new([0; 32]), pat_hits: Cell::new(0), pat_size: Cell::new(0),
    } };
}

pub struct Mon;

unsafe impl GlobalAlloc for Mon {
    unsafe fn alloc(&self, l: Layout) -> *mut u8 {
        let p = System.alloc(l);
        if !p.is_null() {
            on_alloc(l.size());
            on_track_alloc(p as usize, l.size());
        }
        p
    }
    unsafe fn alloc_zeroed(&self, l: Layout) -> *mut u8 {
        let p = System.alloc_zeroed(l);
        if !p.is_null() {
            on_alloc(l.size());
            on_track_alloc(p as usize, l.size());
        }
        p
    }
    unsafe fn dealloc(&self, p: *mut u8, l: Layout) {
        on_dealloc(p as usize, l.size());
        on_track_dealloc(p as usize);
        System.dealloc(p, l)
    }
    unsafe fn realloc(&self, p: *mut u8, l: Layout, new_size: usize) -> *mut u8 {
        // treat as dealloc(old) + alloc(new) for accounting and for the watch list (the old
        // block may be released by the system allocator)
        on_dealloc(p as usize, l.size());
        on_track_dealloc(p as usize);
        let q = System.realloc(p, l, new_size);
        if !q.is_null() {
            on_alloc(new_size);
            on_track_alloc(q as usize, new_size);
        } else {
            on_alloc(l.size());
            on_track_alloc(p as usize, l.size());
        }
        q
    }
}

fn on_track_alloc(addr: usize, size: usize) {
    let _ = TL.try_with(|t| {
        if t.track_on.get() {
            let n = t.track_n.get();
            if n < TRACK_SLOTS {
                unsafe {
                    (*t.track.get())[n] = (addr, size);
                }
                t.track_n.set(n + 1);
            } else {
                t.track_overflow.set(true);
            }
        }
    });
}

fn on_track_dealloc(addr: usize) {
    let _ = TL.try_with(|t| {
        if t.track_on.get() {
            let n = t.track_n.get();
            let tr = unsafe { &mut *t.track.get() };
            for e in tr.iter_mut().take(n) {
                if e.0 == addr {
                    *e = (0, 0);
                }
            }
        }
    });
}

/// Run f on this thread while recording every heap block it allocates; returns f's result, the blocks allocated during f
/// that are still live when it returns (address, size), and whether the table overflowed (then the list is incomplete).
pub fn tracked<T>(f: impl FnOnce() -> T) -> (T, Vec<(usize, usize)>, bool) {
    TL.with(|t| {
        t.track_n.set(0);
        t.track_overflow.set(false);
        t.track_on.set(true);
    });
    let r = f();
    TL.with(|t| {
        t.track_on.set(false);
        let n = t.track_n.get();
        let tr = unsafe { &*t.track.get() };
        let live: Vec<(usize, usize)> = tr.iter().take(n).filter(|e| e.0 != 0).cloned().collect();
        (r, live, t.track_overflow.get())
    })
}

fn on_alloc(size: usize) {
    let _ = TL.try_with(|t| {
        let live = t.live.get() + size as isize;
        t.live.set(live);
        if live > t.peak.get() {
            t.peak.set(live);
        }
        t.allocs.set(t.allocs.get() + 1);
        if size >= BIG {
            t.big_count.set(t.big_count.get() + 1);
            t.big_last.set(size);
            if size > t.big_max.get() {
                t.big_max.set(size);
            }
        }
    });
}

fn on_dealloc(addr: usize, size: usize) {
    let _ = TL.try_with(|t| {
        t.live.set(t.live.get() - size as isize);
        if t.pat_on.get() && size >= 32 && size <= 4096 {
            let pat = t.pat.get();
            let block = unsafe { std::slice::from_raw_parts(addr as *const u8, size) };
            if block.windows(32).any(|w| w == pat) {
                if t.pat_hits.get() == 0 {
                    t.pat_size.set(size);
                }
                t.pat_hits.set(t.pat_hits.get() + 1);
            }
        }
        let n = t.watch_n.get();
        if n > 0 {
            let w = t.watch.get();
            for &a in w.iter().take(n) {
                if a != 0 && a >= addr && a + 32 <= addr + size {
                    let k = t.ev_n.get();
                    if k < WATCH_SLOTS {
                        let mut ev = t.ev.get();
                        let mut b = [0u8; 32];
                        unsafe {
                            std::ptr::copy_nonoverlapping(a as *const u8, b.as_mut_ptr(), 32);
                        }
                        ev[k] = WatchEvent { addr: a, bytes: b };
                        t.ev.set(ev);
                        t.ev_n.set(k + 1);
                    }
                }
            }
        }
    });
}

/// Run `f` on this thread while every block it releases (<= 4096 bytes) is searched for `secret`; returns f's result, the
/// number of released blocks that still held the secret, and the size of the first of them.
pub fn freed_with_secret<T>(secret: &[u8; 32], f: impl FnOnce() -> T) -> (T, usize, usize) {
    TL.with(|t| {
        t.pat.set(*secret);
        t.pat_hits.set(0);
        t.pat_size.set(0);
        t.pat_on.set(true);
    });
    let r = f();
    TL.with(|t| {
        t.pat_on.set(false);
        (r, t.pat_hits.get(), t.pat_size.get())
    })
}

/// Start a measurement window on this thread.
pub fn mark() {
    TL.with(|t| {
        t.peak.set(t.live.get());
        t.big_count.set(0);
        t.big_last.set(0);
        t.big_max.set(0);
        t.allocs.set(0);
    });
}

pub struct Measure {
    pub peak_above_mark: usize,
    pub big_count: usize,
    pub big_max: usize,
    pub allocs: usize,
}

/// Peak live heap (bytes) above the level at `mark_live`, big allocation stats since mark.
pub fn measure(mark_live: isize) -> Measure {
    TL.with(|t| Measure {
        peak_above_mark: (t.peak.get() - mark_live).max(0) as usize,
        big_count: t.big_count.get(),
        big_max: t.big_max.get(),
        allocs: t.allocs.get(),
    })
}

pub fn live() -> isize {
    TL.with(|t| t.live.get())
}

/// Run f and report the peak live heap above the starting level, plus big-allocation stats.
pub fn measured<T>(f: impl FnOnce() -> T) -> (T, Measure) {
    let base = live();
    mark();
    let r = f();
    let m = measure(base);
    (r, m)
}

// ---------------------------------------------------------------- watch list (C20)

pub fn watch_clear() {
    TL.with(|t| {
        t.watch_n.set(0);
        t.watch.set([0; WATCH_SLOTS]);
        t.ev_n.set(0);
    });
}

/// Watch 32 bytes at `addr`; returns false if the list is full.
pub fn watch_add(addr: usize) -> bool {
    TL.with(|t| {
        let n = t.watch_n.get();
        if n >= WATCH_SLOTS {
            return false;
        }
        let mut w = t.watch.get();
        w[n] = addr;
        t.watch.set(w);
        t.watch_n.set(n + 1);
        true
    })
}

/// Stop watching `addr` (after its release has been observed, the address may be reused).
pub fn watch_remove(addr: usize) {
    TL.with(|t| {
        let n = t.watch_n.get();
        let mut w = t.watch.get();
        for a in w.iter_mut().take(n) {
            if *a == addr {
                *a = 0;
            }
        }
        t.watch.set(w);
    });
}

/// Drain release events recorded so far.
pub fn watch_events() -> Vec<WatchEvent> {
    TL.with(|t| {
        let k = t.ev_n.get();
        let ev = t.ev.get();
        t.ev_n.set(0);
        ev[..k].to_vec()
    })
}
