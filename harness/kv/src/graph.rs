//! E-GRAPH for C03/C04 — explicit-state search (stateright) over ciphertext edits.
//!
//! A state is a byte string (plus depth); a transition is one edit from the alphabet; the
//! `always` property runs the REAL decryptor on the state and compares with the acceptance
//! model (the property itself) and, for C04, checks the write log.
#![allow(dead_code)]

use crate::env::{PosReader, RecSink};
use crate::refspec as r;
use crate::refspec::Record;
use crate::report::Report;
use crate::streams::*;
use crate::util::*;
use serde::{Deserialize, Serialize};
use serde_json::{json, Value};
use stateright::{Checker, Model, Property};
use std::sync::atomic::{AtomicU64, Ordering};
use std::sync::Arc;

#[derive(Clone, Debug, Serialize, Deserialize)]
pub enum Mode {
    Key { r_sk: String },
    Pass { pw: String },
    Tiny { key: String, aad: String, cs: u32 },
}

impl Mode {
    pub fn header_len(&self) -> usize {
        match self {
            Mode::Key { .. } => 132,
            Mode::Pass { .. } => 36,
            Mode::Tiny { .. } => 0,
        }
    }
    pub fn subject(&self) -> Subject {
        match self {
            Mode::Key { r_sk } => {
                let sk: [u8; 32] = unhx(r_sk).try_into().unwrap();
                Subject::KeyDec { r: r_sk.clone(), r_pub: hx(&r::x25519_base(&sk)) }
            }
            Mode::Pass { pw } => Subject::PassDec { pw: pw.clone() },
            Mode::Tiny { key, aad, cs } => Subject::TinyDec { key: key.clone(), aad: aad.clone(), cs: *cs },
        }
    }
    /// header field boundaries (name, start, end)
    pub fn header_fields(&self) -> Vec<(&'static str, usize, usize)> {
        match self {
            Mode::Key { .. } => vec![("magic", 0, 4), ("e", 4, 36), ("enc_s", 36, 84), ("enc_payload", 84, 132)],
            Mode::Pass { .. } => vec![("magic", 0, 4), ("salt", 4, 36)],
            Mode::Tiny { .. } => vec![],
        }
    }
    pub fn cs(&self) -> u32 {
        match self {
            Mode::Tiny { cs, .. } => *cs,
            _ => 65536,
        }
    }
}

#[derive(Clone, Debug)]
pub struct CFile {
    pub name: String,
    pub bytes: Vec<u8>,
    pub plain: Vec<u8>,
    pub chunking: Vec<usize>,
    pub sender: Option<[u8; 32]>,
    /// decryptable under the key/password in use
    pub decryptable: bool,
    pub records: Vec<Record>,
}

pub struct Corpus {
    pub mode: Mode,
    pub files: Vec<CFile>,
}

impl Corpus {
    fn mk(mode: &Mode, name: &str, bytes: Vec<u8>, plain: &[u8], chunking: &[usize], sender: Option<[u8; 32]>, decryptable: bool) -> CFile {
        let h = mode.header_len();
        let (records, rest) = r::split_records(&bytes[h..]);
        assert!(rest.is_empty());
        CFile { name: name.into(), bytes, plain: plain.to_vec(), chunking: chunking.to_vec(), sender, decryptable, records }
    }

    pub fn key_mode(seed: u64) -> Corpus {
        let ids = idents(seed);
        let (s, s2, rc, rc2) = (&ids[0], &ids[1], &ids[2], &ids[3]);
        let mode = Mode::Key { r_sk: hx(&rc.sk) };
        let w = |snd: &Ident, rcp: &Ident, tag: &str, p: &[u8], ch: &[usize]| {
            r::write_key_file(&snd.sk, &rcp.pk, &derive32(seed, &format!("g-e-{}", tag)), &derive32(seed, &format!("g-p-{}", tag)), p, ch).unwrap()
        };
        let files = vec![
            Corpus::mk(&mode, "A", w(s, rc, "A", b"abcdef", &[2, 2, 2]), b"abcdef", &[2, 2, 2], Some(s.pk), true),
            Corpus::mk(&mode, "B", w(s2, rc, "B", b"vwxyz", &[2, 3]), b"vwxyz", &[2, 3], Some(s2.pk), true),
            Corpus::mk(&mode, "C", w(s, rc2, "C", b"mnop", &[2, 2]), b"mnop", &[2, 2], Some(s.pk), false),
            Corpus::mk(&mode, "D", w(s, rc, "D", b"", &[0]), b"", &[0], Some(s.pk), true),
            Corpus::mk(&mode, "A2", w(s, rc, "A2", b"abcdef", &[2, 2, 2]), b"abcdef", &[2, 2, 2], Some(s.pk), true),
            Corpus::mk(&mode, "E1", w(s, rc, "E1", b"q", &[1]), b"q", &[1], Some(s.pk), true),
        ];
        Corpus { mode, files }
    }

    pub fn pass_mode(seed: u64) -> Corpus {
        let pw = b"graph pw".to_vec();
        let mode = Mode::Pass { pw: hx(&pw) };
        let mut files = vec![];
        for (name, pwd, p, ch, dec) in [
            ("PA", &pw[..], &b"abcdef"[..], vec![2usize, 2, 2], true),
            ("PB", &pw[..], &b"vwxyz"[..], vec![2, 3], true),
            ("PC", &b"other pw"[..], &b"mnop"[..], vec![2, 2], false),
        ] {
            let salt = derive32(seed, &format!("g-salt-{}", name));
            let k = r::pass_key(pwd, &salt);
            files.push(Corpus::mk(&mode, name, r::write_pass_file_with_key(&k, &salt, p, &ch), p, &ch, None, dec));
        }
        Corpus { mode, files }
    }

    /// like `tiny`, but the decryptable file ends in a FULL-size final chunk (and one is exactly one full chunk)
    pub fn tiny_full(seed: u64, aad: &[u8], cs: u32) -> Corpus {
        let mut c = Corpus::tiny(seed, aad, cs);
        let k1: [u8; 32] = match &c.mode {
            Mode::Tiny { key, .. } => unhx(key).try_into().unwrap(),
            _ => unreachable!(),
        };
        let n = cs as usize;
        let p = plaintext(seed ^ 0x34, 2 * n);
        c.files[0] = Corpus::mk(&c.mode, "F1full", r::write_chunks(&k1, aad, &p, &[n, n]), &p, &[n, n], None, true);
        c
    }

    /// hooked loop: each file under its own key (the format never shares a file key between files)
    pub fn tiny(seed: u64, aad: &[u8], cs: u32) -> Corpus {
        let k1 = derive32(seed, "g-tiny-k1");
        let mode = Mode::Tiny { key: hx(&k1), aad: hx(aad), cs };
        let c = cs as usize;
        let p1 = plaintext(seed ^ 0x31, 2 * c + 1);
        let p2 = plaintext(seed ^ 0x32, c + 1);
        let p3 = plaintext(seed ^ 0x33, 2 * c);
        let files = vec![
            Corpus::mk(&mode, "F1", r::write_chunks(&k1, aad, &p1, &[c, c, 1]), &p1, &[c, c, 1], None, true),
            Corpus::mk(&mode, "F2", r::write_chunks(&derive32(seed, "g-tiny-k2"), aad, &p2, &[c, 1]), &p2, &[c, 1], None, false),
            Corpus::mk(&mode, "F3", r::write_chunks(&derive32(seed, "g-tiny-k3"), aad, &p3, &[c, c]), &p3, &[c, c], None, false),
            Corpus::mk(&mode, "F0", r::write_chunks(&derive32(seed, "g-tiny-k4"), aad, &[], &[0]), &[], &[0], None, false),
        ];
        Corpus { mode, files }
    }
}

// ------------------------------------------------------------------------------------------- oracle

#[derive(Debug, Clone, PartialEq, Eq)]
pub enum Expectation {
    /// X equals corpus file g exactly: must be accepted with P_g and sender(g)
    MustAccept(usize),
    /// X differs from g only inside counter fields: accept or reject, but if accepted output must be P_g
    DontCare(usize),
    MustReject,
}

fn zero_counters(bytes: &[u8], h: usize, recs: &[Record]) -> Vec<u8> {
    let mut v = bytes.to_vec();
    let mut off = h;
    for rec in recs {
        for b in v[off..off + 8].iter_mut() {
            *b = 0;
        }
        off += 32 + rec.body.len();
    }
    v
}

pub fn judge(c: &Corpus, x: &[u8]) -> Expectation {
    let h = c.mode.header_len();
    for (gi, g) in c.files.iter().enumerate() {
        if !g.decryptable {
            continue;
        }
        if x == &g.bytes[..] {
            return Expectation::MustAccept(gi);
        }
        if x.len() == g.bytes.len() && zero_counters(x, h, &g.records) == zero_counters(&g.bytes, h, &g.records) {
            return Expectation::DontCare(gi);
        }
    }
    Expectation::MustReject
}

/// (g, k, record end offsets in X): leading records of X that are authentic-in-place for g
pub fn authentic_prefix(c: &Corpus, x: &[u8]) -> Option<(usize, usize, Vec<usize>)> {
    let h = c.mode.header_len();
    if x.len() < h {
        return None;
    }
    for (gi, g) in c.files.iter().enumerate() {
        if !g.decryptable || x[..h] != g.bytes[..h] {
            continue;
        }
        let mut off = h;
        let mut ends = vec![];
        for rec in &g.records {
            let rb = rec.bytes();
            if x.len() < off + rb.len() || x[off + 8..off + rb.len()] != rb[8..] {
                break;
            }
            off += rb.len();
            ends.push(off);
        }
        return Some((gi, ends.len(), ends));
    }
    None
}

#[derive(Debug)]
pub struct Obs {
    pub res: Res,
    pub out: Vec<u8>,
    /// (sink offset before, len, source position at the call)
    pub writes: Vec<(usize, usize, usize)>,
}

pub fn observe(mode: &Mode, x: &[u8]) -> Obs {
    let (mut src, pos) = PosReader::new(x);
    let mut sink = RecSink::new(pos);
    let res = run_rw(&mode.subject(), &mut src, &mut sink);
    Obs { res, out: sink.data, writes: sink.writes }
}

pub struct Verdict {
    pub c03: Vec<(String, String)>,
    pub c04: Vec<(String, String)>,
    pub accepted: bool,
    pub reason: String,
}

/// The oracle: the property statements C03 and C04 applied to one presented byte string.
pub fn verdict(c: &Corpus, x: &[u8], obs: &Obs) -> Verdict {
    let mut v = Verdict { c03: vec![], c04: vec![], accepted: obs.res.is_ok(), reason: String::new() };
    let exp = judge(c, x);
    match &obs.res {
        Res::Panic(m) => {
            v.reason = "panic".into();
            v.c03.push(("panic".into(), format!("decryptor panicked: {}", m)));
            v.c04.push(("panic".into(), format!("decryptor panicked: {}", m)));
        }
        Res::Ok(sender) => {
            v.reason = "accepted".into();
            match exp {
                Expectation::MustAccept(g) | Expectation::DontCare(g) => {
                    let gf = &c.files[g];
                    if obs.out != gf.plain {
                        v.c03.push(("accepted-wrong-output".into(), format!("accepted with output != complete plaintext of {}", gf.name)));
                    }
                    if let (Some(s), Some(ws)) = (sender, gf.sender) {
                        if s[..] != ws[..] {
                            v.c03.push(("accepted-wrong-sender".into(), format!("accepted {} but reported sender {}", gf.name, hx(s))));
                        }
                    }
                }
                Expectation::MustReject => {
                    v.c03.push((
                        "accepted-non-authentic".into(),
                        format!("a byte string that is not an authentic file (nor one differing only in counter fields) was accepted; {} bytes written", obs.out.len()),
                    ));
                    v.c04.push(("ok-on-incomplete".into(), "success reported although no final chunk of an authentic file ends the ciphertext".into()));
                }
            }
        }
        Res::Err(k, m) => {
            v.reason = format!("{:?}:{}", k, m);
            if let Expectation::MustAccept(g) = exp {
                v.c03.push(("authentic-rejected".into(), format!("authentic file {} rejected: {}", c.files[g].name, m)));
            }
        }
    }
    // C04: write-log predicate
    let ap = authentic_prefix(c, x);
    for &(off, len, src_pos) in &obs.writes {
        if len == 0 {
            continue;
        }
        match &ap {
            None => {
                v.c04.push(("write-without-authentic-header".into(), format!("{} bytes written although the header is not that of an authentic file", len)));
                break;
            }
            Some((g, k, ends)) => {
                let gf = &c.files[*g];
                if off + len > gf.plain.len() || obs.out[off..off + len] != gf.plain[off..off + len] {
                    v.c04.push(("write-not-authentic-prefix".into(), format!("bytes written at offset {} are not the authentic plaintext of {}", off, gf.name)));
                    break;
                }
                // every chunk intersecting [off, off+len) must be authenticated (index < k) and fully consumed
                let mut start = 0;
                let mut bad = None;
                for (j, &cl) in gf.chunking.iter().enumerate() {
                    let end = start + cl;
                    if off < end && off + len > start {
                        if j >= *k {
                            bad = Some(format!("plaintext of chunk {} written but only {} leading chunk(s) are authentic", j, k));
                        } else if src_pos < ends[j] {
                            bad = Some(format!("plaintext of chunk {} written when only {} of the {} bytes up to the end of its record had been consumed", j, src_pos, ends[j]));
                        }
                    }
                    start = end;
                }
                if let Some(b) = bad {
                    v.c04.push(("write-before-authentication".into(), b));
                    break;
                }
            }
        }
    }
    v
}

// ------------------------------------------------------------------------------------------- edits

#[derive(Clone, Debug, Hash, PartialEq, Eq, Serialize, Deserialize)]
pub enum Edit {
    Flip(u32),
    Trunc(u32),
    AppendByte,
    AppendRec(u8, u8),
    AppendFile(u8),
    DelRec(u8),
    DupRec(u8),
    SwapRec(u8, u8),
    MoveRec(u8, u8),
    InsRec(u8, u8, u8),
    ReplRec(u8, u8, u8),
    HdrField(u8, u8),
    SetCounter(u8, u64),
    SetFlag(u8, u32),
    SetLen(u8, u32),
    Merge(u8),
    Split(u8),
    /// insert a FABRICATED record (no key needed): length 0, given flag, all-zero tag, counter = position
    InsEmptyRec(u8, u8),
}

struct Layout {
    h: usize,
    recs: Vec<Record>,
    /// start offset of each record
    starts: Vec<usize>,
    rest: Vec<u8>,
}

fn layout(mode: &Mode, x: &[u8]) -> Option<Layout> {
    let h = mode.header_len();
    if x.len() < h {
        return None;
    }
    let (recs, rest) = r::split_records(&x[h..]);
    let mut starts = vec![];
    let mut off = h;
    for rec in &recs {
        starts.push(off);
        off += 32 + rec.body.len();
    }
    Some(Layout { h, recs, starts, rest })
}

fn rebuild(x: &[u8], l: &Layout, recs: &[Record]) -> Vec<u8> {
    let mut v = x[..l.h].to_vec();
    for rec in recs {
        v.extend_from_slice(&rec.bytes());
    }
    v.extend_from_slice(&l.rest);
    v
}

pub fn apply(c: &Corpus, x: &[u8], e: &Edit) -> Option<Vec<u8>> {
    let mode = &c.mode;
    match e {
        Edit::Flip(b) => {
            let b = *b as usize;
            if b / 8 >= x.len() {
                return None;
            }
            let mut v = x.to_vec();
            v[b / 8] ^= 1 << (b % 8);
            Some(v)
        }
        Edit::Trunc(at) => {
            if (*at as usize) >= x.len() {
                return None;
            }
            Some(x[..*at as usize].to_vec())
        }
        Edit::AppendByte => {
            let mut v = x.to_vec();
            v.push(0);
            Some(v)
        }
        Edit::AppendRec(f, i) => {
            let mut v = x.to_vec();
            v.extend_from_slice(&c.files.get(*f as usize)?.records.get(*i as usize)?.bytes());
            Some(v)
        }
        Edit::AppendFile(f) => {
            let mut v = x.to_vec();
            v.extend_from_slice(&c.files.get(*f as usize)?.bytes);
            Some(v)
        }
        Edit::HdrField(f, fi) => {
            let g = c.files.get(*f as usize)?;
            let (_, s, en) = *mode.header_fields().get(*fi as usize)?;
            if x.len() < en {
                return None;
            }
            let mut v = x.to_vec();
            v[s..en].copy_from_slice(&g.bytes[s..en]);
            if v == x {
                None
            } else {
                Some(v)
            }
        }
        _ => {
            let l = layout(mode, x)?;
            let mut recs = l.recs.clone();
            let n = recs.len();
            match e {
                Edit::DelRec(i) => {
                    if (*i as usize) >= n {
                        return None;
                    }
                    recs.remove(*i as usize);
                }
                Edit::DupRec(i) => {
                    let rec = recs.get(*i as usize)?.clone();
                    recs.insert(*i as usize, rec);
                }
                Edit::SwapRec(i, j) => {
                    if (*i as usize) >= n || (*j as usize) >= n || i == j {
                        return None;
                    }
                    recs.swap(*i as usize, *j as usize);
                }
                Edit::MoveRec(i, j) => {
                    if (*i as usize) >= n || (*j as usize) >= n || i == j {
                        return None;
                    }
                    let rec = recs.remove(*i as usize);
                    recs.insert(*j as usize, rec);
                }
                Edit::InsRec(f, i, at) => {
                    if (*at as usize) > n {
                        return None;
                    }
                    let rec = c.files.get(*f as usize)?.records.get(*i as usize)?.clone();
                    recs.insert(*at as usize, rec);
                }
                Edit::ReplRec(f, i, at) => {
                    if (*at as usize) >= n {
                        return None;
                    }
                    recs[*at as usize] = c.files.get(*f as usize)?.records.get(*i as usize)?.clone();
                }
                Edit::SetCounter(i, v) => recs.get_mut(*i as usize)?.counter_field = *v,
                Edit::SetFlag(i, v) => recs.get_mut(*i as usize)?.flag_field = *v,
                Edit::SetLen(i, v) => {
                    // raw overwrite of the length field (framing of what follows changes)
                    let s = *l.starts.get(*i as usize)?;
                    let mut out = x.to_vec();
                    out[s + 12..s + 16].copy_from_slice(&v.to_be_bytes());
                    return if out == x { None } else { Some(out) };
                }
                Edit::InsEmptyRec(at, flag) => {
                    if (*at as usize) > n {
                        return None;
                    }
                    recs.insert(*at as usize, Record { counter_field: *at as u64, flag_field: *flag as u32, len_field: 0, body: vec![], tag: [0u8; 16] });
                }
                Edit::Merge(i) => {
                    // two bodies under one length: header of i, body_i || body_{i+1}, tag of i+1
                    let i = *i as usize;
                    if i + 1 >= n {
                        return None;
                    }
                    let b = recs.remove(i + 1);
                    recs[i].body.extend_from_slice(&b.body);
                    recs[i].len_field = recs[i].body.len() as u32;
                    recs[i].tag = b.tag;
                }
                Edit::Split(i) => {
                    // one record split in two: first half keeps the header, second gets a fabricated header
                    let i = *i as usize;
                    let rec = recs.get(i)?.clone();
                    if rec.body.len() < 2 {
                        return None;
                    }
                    let m = rec.body.len() / 2;
                    let a = Record { counter_field: rec.counter_field, flag_field: 0, len_field: m as u32, body: rec.body[..m].to_vec(), tag: rec.tag };
                    let b = Record {
                        counter_field: rec.counter_field.wrapping_add(1),
                        flag_field: rec.flag_field,
                        len_field: (rec.body.len() - m) as u32,
                        body: rec.body[m..].to_vec(),
                        tag: rec.tag,
                    };
                    recs[i] = a;
                    recs.insert(i + 1, b);
                }
                _ => unreachable!(),
            }
            let v = rebuild(x, &l, &recs);
            if v == x {
                None
            } else {
                Some(v)
            }
        }
    }
}

#[derive(Clone, Copy, PartialEq, Eq, Debug)]
pub enum Alphabet {
    /// every bit, every truncation offset (results are leaves)
    Full,
    /// structural edits + representative bits
    Medium,
    /// structural edits only
    Small,
}

pub fn alphabet(c: &Corpus, x: &[u8], which: Alphabet, out: &mut Vec<(Edit, bool)>) {
    // (edit, leaf?)
    let mode = &c.mode;
    let cs = mode.cs();
    if which == Alphabet::Full {
        for b in 0..(x.len() * 8) as u32 {
            out.push((Edit::Flip(b), true));
        }
        for at in 0..x.len() as u32 {
            out.push((Edit::Trunc(at), true));
        }
    }
    let l = layout(mode, x);
    let mut structural_bits: Vec<u32> = vec![];
    let mut truncs: Vec<u32> = vec![];
    let h = mode.header_len();
    if which != Alphabet::Small {
        for (name, s, e) in mode.header_fields() {
            if x.len() < e {
                continue;
            }
            let bits: Vec<usize> = match name {
                "magic" => vec![0, 24, 25, 26, 27, 28, 29, 30, 31],
                "e" | "salt" => vec![0, (e - s) * 4, (e - s) * 8 - 1],
                _ => vec![0, (e - s - 16) * 4, (e - s - 16) * 8 - 1, (e - s - 16) * 8, (e - s) * 8 - 1],
            };
            for b in bits {
                structural_bits.push((s * 8 + b) as u32);
            }
        }
    }
    if h > 0 && x.len() > h {
        truncs.push(h as u32);
        truncs.push(h as u32 - 1);
    }
    if let Some(l) = &l {
        for (i, rec) in l.recs.iter().enumerate() {
            let s = l.starts[i];
            let bl = rec.body.len();
            if which != Alphabet::Small {
                for b in [7usize, 15, 63] {
                    structural_bits.push((s * 8 + b) as u32);
                }
                for b in [0usize, 1, 8, 24, 31] {
                    structural_bits.push(((s + 8) * 8 + b) as u32);
                }
                for b in [0usize, 1, 2, 8, 16, 31] {
                    structural_bits.push(((s + 12) * 8 + b) as u32);
                }
                if bl > 0 {
                    structural_bits.push(((s + 16) * 8) as u32);
                    structural_bits.push(((s + 16 + bl) * 8 - 1) as u32);
                }
                structural_bits.push(((s + 16 + bl) * 8) as u32);
                structural_bits.push(((s + 32 + bl) * 8 - 1) as u32);
            }
            for t in [s + 15, s + 16, s + 16 + bl, s + 31 + bl, s + 32 + bl] {
                if t < x.len() {
                    truncs.push(t as u32);
                }
            }
        }
    }
    if which != Alphabet::Full {
        for b in structural_bits {
            out.push((Edit::Flip(b), false));
        }
        truncs.sort();
        truncs.dedup();
        for t in truncs {
            out.push((Edit::Trunc(t), false));
        }
    }
    out.push((Edit::AppendByte, false));
    for (fi, f) in c.files.iter().enumerate() {
        out.push((Edit::AppendFile(fi as u8), false));
        for ri in 0..f.records.len() {
            out.push((Edit::AppendRec(fi as u8, ri as u8), false));
        }
        for k in 0..mode.header_fields().len() {
            out.push((Edit::HdrField(fi as u8, k as u8), false));
        }
    }
    if let Some(l) = &l {
        let n = l.recs.len().min(6);
        for i in 0..n {
            let i8 = i as u8;
            out.push((Edit::DelRec(i8), false));
            out.push((Edit::DupRec(i8), false));
            for j in 0..n {
                if i < j {
                    out.push((Edit::SwapRec(i8, j as u8), false));
                }
                if i != j && (i as i32 - j as i32).abs() > 1 {
                    out.push((Edit::MoveRec(i8, j as u8), false));
                }
            }
            for v in [0u64, i as u64 + 1, (i as u64).wrapping_sub(1), 1 << 32, u64::MAX] {
                out.push((Edit::SetCounter(i8, v), false));
            }
            for v in [0u32, 1, 2, 0x0100_0000] {
                out.push((Edit::SetFlag(i8, v), false));
            }
            let bl = l.recs[i].body.len() as u32;
            for v in [0u32, bl + 1, bl.wrapping_sub(1), cs, cs + 1, 1 << 31, u32::MAX] {
                out.push((Edit::SetLen(i8, v), false));
            }
            out.push((Edit::Merge(i8), false));
            out.push((Edit::Split(i8), false));
        }
        for at in 0..=n {
            out.push((Edit::InsEmptyRec(at as u8, 0), false));
            out.push((Edit::InsEmptyRec(at as u8, 1), false));
        }
        for (fi, f) in c.files.iter().enumerate() {
            for ri in 0..f.records.len() {
                for at in 0..=n {
                    out.push((Edit::InsRec(fi as u8, ri as u8, at as u8), false));
                    if at < n && which != Alphabet::Small {
                        out.push((Edit::ReplRec(fi as u8, ri as u8, at as u8), false));
                    }
                }
            }
        }
    }
}

// ------------------------------------------------------------------------------------------- the model

#[derive(Clone, Debug, Hash, PartialEq, Eq)]
pub struct St {
    pub bytes: Vec<u8>,
    pub depth: u8,
    pub leaf: bool,
}

#[derive(Clone, Copy, PartialEq, Eq, Debug)]
pub enum Which {
    C03,
    C04,
}

pub struct Ctx {
    pub corpus: Corpus,
    pub which: Which,
    pub rep: &'static Report,
    pub max_depth: u8,
    /// alphabet used at each depth (index = depth of the state being expanded)
    pub alphabets: Vec<Alphabet>,
    pub init: Vec<usize>,
    pub evaluated: AtomicU64,
    pub accepted: AtomicU64,
    pub ref_checked: AtomicU64,
    pub reasons: std::sync::Mutex<std::collections::BTreeMap<String, u64>>,
    pub accepted_as: std::sync::Mutex<std::collections::BTreeMap<String, u64>>,
    pub label: String,
}

#[derive(Clone)]
pub struct EditModel(pub Arc<Ctx>);

/// REF cross-check of the model (machinery check): REF accepts <=> expectation is accept/don't-care
fn ref_accepts(c: &Corpus, x: &[u8]) -> Option<Vec<u8>> {
    match &c.mode {
        Mode::Key { r_sk } => r::read_key_file(&unhx(r_sk).try_into().unwrap(), x).ok().map(|k| k.parsed.plaintext),
        Mode::Pass { .. } => None, // scrypt per state is too costly; covered by the Tiny/magic graph
        Mode::Tiny { key, aad, cs } => r::read_chunks(&unhx(key).try_into().unwrap(), &unhx(aad), x, *cs).ok().map(|p| p.plaintext),
    }
}

pub fn evaluate_state(ctx: &Ctx, x: &[u8], how: Value) -> bool {
    let c = &ctx.corpus;
    let obs = observe(&c.mode, x);
    let v = verdict(c, x, &obs);
    ctx.evaluated.fetch_add(1, Ordering::Relaxed);
    if v.accepted {
        ctx.accepted.fetch_add(1, Ordering::Relaxed);
        let name = match judge(c, x) {
            Expectation::MustAccept(g) => format!("{} (exact)", c.files[g].name),
            Expectation::DontCare(g) => format!("{} (counter fields differ)", c.files[g].name),
            Expectation::MustReject => "NON-AUTHENTIC".into(),
        };
        *ctx.accepted_as.lock().unwrap().entry(name).or_insert(0) += 1;
    } else {
        let key = v.reason.split(':').next().unwrap_or("").to_string() + ":" + &v.reason.split(':').nth(1).unwrap_or("").chars().take(40).collect::<String>();
        *ctx.reasons.lock().unwrap().entry(key).or_insert(0) += 1;
    }
    // model vs REF (not for scrypt-bearing mode)
    if !matches!(c.mode, Mode::Pass { .. }) {
        let ra = ref_accepts(c, x);
        let model_accepts = !matches!(judge(c, x), Expectation::MustReject);
        ctx.ref_checked.fetch_add(1, Ordering::Relaxed);
        if ra.is_some() != model_accepts {
            crate::report::machinery(&format!(
                "acceptance model and REF disagree on a state ({} bytes, model_accepts={}, ref_accepts={}): {}",
                x.len(),
                model_accepts,
                ra.is_some(),
                hx(x)
            ));
        }
    }
    let list = match ctx.which {
        Which::C03 => &v.c03,
        Which::C04 => &v.c04,
    };
    for (clause, what) in list {
        ctx.rep.violation(
            &format!("{}/{}", ctx.label, clause),
            json!({"kind":"state","mode":serde_json::to_value(&c.mode).unwrap(),"label":ctx.label,"bytes":hx(x),"how":how}),
            format!("{} [{} bytes presented; result {}]", what, x.len(), obs.res.brief()),
        );
    }
    list.is_empty()
}

impl Model for EditModel {
    type State = St;
    type Action = Edit;

    fn init_states(&self) -> Vec<St> {
        self.0.init.iter().map(|&i| St { bytes: self.0.corpus.files[i].bytes.clone(), depth: 0, leaf: false }).collect()
    }

    fn actions(&self, s: &St, actions: &mut Vec<Edit>) {
        if s.leaf || s.depth >= self.0.max_depth {
            return;
        }
        let mut v = vec![];
        let a = self.0.alphabets[s.depth as usize];
        alphabet(&self.0.corpus, &s.bytes, a, &mut v);
        if a == Alphabet::Full {
            // Full = every bit / offset (leaves) + the medium structural alphabet (expandable)
            alphabet(&self.0.corpus, &s.bytes, Alphabet::Medium, &mut v);
            v.sort_by(|a, b| format!("{:?}", a.0).cmp(&format!("{:?}", b.0)).then(a.1.cmp(&b.1)));
            v.dedup_by(|a, b| a.0 == b.0);
        }
        actions.extend(v.into_iter().map(|(e, _)| e));
    }

    fn next_state(&self, s: &St, e: Edit) -> Option<St> {
        let bytes = apply(&self.0.corpus, &s.bytes, &e)?;
        if bytes.len() > 1200 {
            return None;
        }
        // leaves: results of Full-only edits (a bit / offset that is not in the structural subset)
        let mut leaf = false;
        if self.0.alphabets[s.depth as usize] == Alphabet::Full {
            if let Edit::Flip(_) | Edit::Trunc(_) = e {
                let mut med = vec![];
                alphabet(&self.0.corpus, &s.bytes, Alphabet::Medium, &mut med);
                leaf = !med.iter().any(|(m, _)| *m == e);
            }
        }
        Some(St { bytes, depth: s.depth + 1, leaf })
    }

    fn properties(&self) -> Vec<Property<Self>> {
        vec![Property::always("presented bytes are rejected or yield exactly the authentic plaintext; releases are authenticated", |m: &EditModel, s: &St| {
            evaluate_state(&m.0, &s.bytes, json!({"depth": s.depth}))
        })]
    }

    fn within_boundary(&self, s: &St) -> bool {
        s.depth <= self.0.max_depth
    }
}

pub struct GraphStats {
    pub states: u64,
    pub transitions: u64,
    pub max_depth: usize,
    pub evaluated: u64,
    pub accepted: u64,
}

pub fn run_graph(ctx: Ctx) -> GraphStats {
    let ctx = Arc::new(ctx);
    let model = EditModel(ctx.clone());
    let threads = rayon::current_num_threads().max(1);
    let checker = model.checker().threads(threads).spawn_bfs().join();
    let disc = checker.discoveries();
    for (name, path) in disc {
        let actions: Vec<Edit> = path.into_actions();
        println!("  [{}] shortest counterexample path for '{}': {} edit(s): {:?}", ctx.label, name, actions.len(), actions);
        ctx.rep.extra(&format!("{}_counterexample_path", ctx.label), json!(format!("{:?}", actions)));
    }
    println!("  [{}] search finished at {:.1}s", ctx.label, ctx.rep.elapsed());
    let st = GraphStats {
        states: checker.unique_state_count() as u64,
        transitions: checker.state_count() as u64,
        max_depth: checker.max_depth(),
        evaluated: ctx.evaluated.load(Ordering::Relaxed),
        accepted: ctx.accepted.load(Ordering::Relaxed),
    };
    let rep = ctx.rep;
    rep.states.fetch_add(st.states, Ordering::Relaxed);
    rep.transitions.fetch_add(st.transitions, Ordering::Relaxed);
    rep.traces_validated.fetch_add(st.evaluated, Ordering::Relaxed);
    rep.eval(st.evaluated);
    rep.extra(
        &format!("graph_{}", ctx.label),
        json!({
            "unique_states": st.states, "transitions_incl_revisits": st.transitions, "max_depth": st.max_depth,
            "states_on_which_the_implementation_ran": st.evaluated, "accepting_states": st.accepted,
            "accepted_as": *ctx.accepted_as.lock().unwrap(), "reject_reasons": *ctx.reasons.lock().unwrap(),
            "model_vs_REF_cross_checks": ctx.ref_checked.load(Ordering::Relaxed),
        }),
    );
    st
}

pub fn new_ctx(rep: &'static Report, corpus: Corpus, which: Which, label: &str, alphabets: Vec<Alphabet>, init: Vec<usize>) -> Ctx {
    Ctx {
        corpus,
        which,
        rep,
        max_depth: alphabets.len() as u8,
        alphabets,
        init,
        evaluated: AtomicU64::new(0),
        accepted: AtomicU64::new(0),
        ref_checked: AtomicU64::new(0),
        reasons: Default::default(),
        accepted_as: Default::default(),
        label: label.to_string(),
    }
}

/// All edit graphs for a property, by tier.
pub fn run_all_graphs(rep: &'static Report, which: Which) {
    let seed = rep.seed;
    use Alphabet::*;
    // key mode
    let key_levels = rep.tier.pick(vec![Full, Medium], vec![Full, Medium, Small]);
    let c = Corpus::key_mode(seed);
    let init: Vec<usize> = (0..c.files.len()).collect();
    let st = run_graph(new_ctx(rep, c, which, "key", key_levels.clone(), init));
    println!("  graph key: states={} transitions={} depth={} accepting={}", st.states, st.transitions, st.max_depth, st.accepted);
    // hooked loop, both AAD prefixes
    for (aad, name) in [(vec![], "tiny"), (r::PASS_MAGIC.to_vec(), "tiny-magic")] {
        let css: Vec<u32> = rep.tier.pick(vec![2, 3], vec![2, 3, 4]);
        for cs in css {
            let c = Corpus::tiny(seed, &aad, cs);
            let levels = rep.tier.pick(vec![Full, Medium], vec![Full, Medium, Small]);
            let st = run_graph(new_ctx(rep, c, which, &format!("{}-cs{}", name, cs), levels, vec![0]));
            println!("  graph {}-cs{}: states={} transitions={} depth={} accepting={}", name, cs, st.states, st.transitions, st.max_depth, st.accepted);
        }
    }
    // files whose final chunk is exactly chunk-size bytes (a full buffer changes what the end-of-stream probe sees)
    for (aad, name) in [(vec![], "tinyfull"), (r::PASS_MAGIC.to_vec(), "tinyfull-magic")] {
        let cs = 2u32;
        let c = Corpus::tiny_full(seed, &aad, cs);
        let levels = rep.tier.pick(vec![Full, Medium], vec![Full, Medium, Small]);
        let st = run_graph(new_ctx(rep, c, which, &format!("{}-cs{}", name, cs), levels, vec![0]));
        println!("  graph {}-cs{}: states={} transitions={} depth={} accepting={}", name, cs, st.states, st.transitions, st.max_depth, st.accepted);
    }
    // password mode through the public API: depth 1 (one scrypt per state), explored breadth-first by hand
    // (same model object, rayon instead of stateright's job market: ~200..1500 states of 105 ms each)
    let c = Corpus::pass_mode(seed);
    let st = run_flat(new_ctx(rep, c, which, "pass", vec![rep.tier.pick(Medium, Full)], vec![0]));
    println!("  graph pass: states={} accepting={}", st.states, st.accepted);
}

/// Depth-1 breadth-first search of the same model without stateright (used where each state costs a scrypt).
pub fn run_flat(ctx: Ctx) -> GraphStats {
    use rayon::prelude::*;
    let ctx = Arc::new(ctx);
    let model = EditModel(ctx.clone());
    let mut states: Vec<St> = model.init_states();
    let mut seen: std::collections::HashSet<Vec<u8>> = states.iter().map(|s| s.bytes.clone()).collect();
    let mut transitions = 0u64;
    for s in model.init_states() {
        let mut acts = vec![];
        model.actions(&s, &mut acts);
        for a in acts {
            if let Some(n) = model.next_state(&s, a) {
                transitions += 1;
                if seen.insert(n.bytes.clone()) {
                    states.push(n);
                }
            }
        }
    }
    states.par_iter().for_each(|s| {
        evaluate_state(&ctx, &s.bytes, json!({"depth": s.depth}));
    });
    println!("  [{}] flat search finished at {:.1}s", ctx.label, ctx.rep.elapsed());
    let st = GraphStats { states: states.len() as u64, transitions, max_depth: 2, evaluated: ctx.evaluated.load(Ordering::Relaxed), accepted: ctx.accepted.load(Ordering::Relaxed) };
    let rep = ctx.rep;
    rep.states.fetch_add(st.states, Ordering::Relaxed);
    rep.transitions.fetch_add(st.transitions, Ordering::Relaxed);
    rep.traces_validated.fetch_add(st.evaluated, Ordering::Relaxed);
    rep.eval(st.evaluated);
    rep.extra(
        &format!("graph_{}", ctx.label),
        json!({
            "unique_states": st.states, "transitions_incl_revisits": st.transitions, "max_depth": 2, "engine": "hand-rolled BFS (depth 1)",
            "states_on_which_the_implementation_ran": st.evaluated, "accepting_states": st.accepted,
            "accepted_as": *ctx.accepted_as.lock().unwrap(), "reject_reasons": *ctx.reasons.lock().unwrap(),
        }),
    );
    st
}

pub fn replay_state(rep: &'static Report, which: Which, case: &Value) {
    let mode: Mode = serde_json::from_value(case["mode"].clone()).unwrap_or_else(|_| crate::report::machinery("bad mode"));
    let seed = rep.seed;
    let corpus = match &mode {
        Mode::Key { .. } => Corpus::key_mode(seed),
        Mode::Pass { .. } => Corpus::pass_mode(seed),
        Mode::Tiny { aad, cs, .. } => {
            if case["label"].as_str().unwrap_or("").starts_with("tinyfull") {
                Corpus::tiny_full(seed, &unhx(aad), *cs)
            } else {
                Corpus::tiny(seed, &unhx(aad), *cs)
            }
        }
    };
    let x = unhx(case["bytes"].as_str().unwrap_or(""));
    let ctx = new_ctx(rep, corpus, which, case["label"].as_str().unwrap_or("replay"), vec![], vec![]);
    let o1 = observe(&ctx.corpus.mode, &x);
    let o2 = observe(&ctx.corpus.mode, &x);
    if o1.res != o2.res || o1.out != o2.out {
        crate::report::machinery("replay not deterministic");
    }
    println!("  observed: {} ; {} bytes written in {} write call(s); expectation {:?}", o1.res.brief(), o1.out.len(), o1.writes.len(), judge(&ctx.corpus, &x));
    evaluate_state(&ctx, &x, json!("replay"));
}
