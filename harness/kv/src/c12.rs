//! C12 — CLI exit status truthful, independent of wiring (E-PROC product with a differential oracle).
use crate::fx::Party;
use crate::proc::{self, Cmd, Scratch};
use crate::refspec as r;
use crate::report::{Report, Tier};
use crate::util::*;
use rayon::prelude::*;
use serde_json::{json, Value};
use std::collections::BTreeMap;
use std::os::unix::fs::OpenOptionsExt;

const CS: usize = 65536;

#[derive(Clone, Copy, Debug, PartialEq, Eq, Hash, PartialOrd, Ord)]
pub struct Wiring {
    stdin_input: bool,
    stdout_output: bool,
    env_keyring: bool,
    short_opts: bool,
    alias: bool,
    opts_first: bool,
}

fn wirings(keyring_matters: bool) -> Vec<Wiring> {
    let mut v = vec![];
    for m in 0..64u32 {
        let w = Wiring { stdin_input: m & 1 != 0, stdout_output: m & 2 != 0, env_keyring: m & 4 != 0, short_opts: m & 8 != 0, alias: m & 16 != 0, opts_first: m & 32 != 0 };
        if !keyring_matters && w.env_keyring {
            continue;
        }
        v.push(w);
    }
    v
}

#[derive(Clone, Debug)]
enum Kind {
    Decrypt,
    Encrypt,
    PassEncrypt,
    PassDecrypt,
}

#[derive(Clone)]
struct Logical {
    name: String,
    kind: Kind,
    input: Vec<u8>,
    keyring: String,
    to: String,
    from: String,
    password: Option<String>,
    /// model: does the operation complete?
    succeeds: bool,
    /// decrypt: expected plaintext; encrypt: the plaintext (checked through REF)
    plain: Vec<u8>,
    /// decrypt success: expected stderr line about the sender
    sender_line: Option<String>,
    /// encrypt: (recipient private key, sender public key) for REF
    ref_keys: Option<([u8; 32], [u8; 32])>,
    pass_for_ref: Option<Vec<u8>>,
}

fn build_cmd(l: &Logical, w: &Wiring) -> (Cmd, Vec<(String, Vec<u8>)>, bool) {
    // returns (command, files, output_to_file)
    let mut files: Vec<(String, Vec<u8>)> = vec![("kr.txt".into(), l.keyring.as_bytes().to_vec())];
    let (word, sub): (&str, Option<&str>) = match (&l.kind, w.alias) {
        (Kind::Decrypt, false) => ("decrypt", None),
        (Kind::Decrypt, true) => ("dec", None),
        (Kind::Encrypt, false) => ("encrypt", None),
        (Kind::Encrypt, true) => ("enc", None),
        (Kind::PassEncrypt, false) => ("password", Some("encrypt")),
        (Kind::PassEncrypt, true) => ("pass", Some("enc")),
        (Kind::PassDecrypt, false) => ("password", Some("decrypt")),
        (Kind::PassDecrypt, true) => ("pass", Some("dec")),
    };
    let mut opts: Vec<String> = vec![];
    let o = |short: &str, long: &str| -> String { if w.short_opts { short.to_string() } else { long.to_string() } };
    match l.kind {
        Kind::Decrypt => {
            opts.push(o("-t", "--to"));
            opts.push(l.to.clone());
        }
        Kind::Encrypt => {
            opts.push(o("-t", "--to"));
            opts.push(l.to.clone());
            opts.push(o("-f", "--from"));
            opts.push(l.from.clone());
        }
        _ => {}
    }
    if !w.stdout_output {
        opts.push(o("-o", "--output"));
        opts.push("out.bin".into());
    }
    let keyring_cmd = matches!(l.kind, Kind::Decrypt | Kind::Encrypt);
    if keyring_cmd && !w.env_keyring {
        opts.push(o("-k", "--keyring"));
        opts.push("kr.txt".into());
    }
    opts.push("--env-pass".into());
    let mut args: Vec<String> = vec![word.to_string()];
    if let Some(s) = sub {
        args.push(s.to_string());
    }
    let positional: Vec<String> = if w.stdin_input {
        vec![]
    } else {
        files.push(("input.bin".into(), l.input.clone()));
        vec!["input.bin".to_string()]
    };
    if w.opts_first {
        args.extend(opts);
        args.extend(positional);
    } else {
        args.extend(positional);
        args.extend(opts);
    }
    let argrefs: Vec<&str> = args.iter().map(|s| s.as_str()).collect();
    let mut c = Cmd::new(&argrefs);
    if let Some(p) = &l.password {
        c = c.env("KESTREL_PASSWORD", p);
    }
    if keyring_cmd && w.env_keyring {
        c = c.env("KESTREL_KEYRING", "kr.txt");
    }
    if w.stdin_input {
        c = c.stdin(&l.input);
    }
    (c, files, !w.stdout_output)
}

/// (exit ok, output validity/plaintext digest, sender line) — what must be identical across wirings
#[derive(Clone, Debug, PartialEq, Eq)]
struct Outcome {
    ok: bool,
    output: String,
    sender_line: String,
}

fn run_one(l: &Logical, w: &Wiring) -> Result<Outcome, String> {
    let (cmd, files, to_file) = build_cmd(l, w);
    let sc = Scratch::new();
    for (n, d) in &files {
        sc.write(n, d);
    }
    let out = proc::run(&cmd, &sc.0);
    out.well_behaved().map_err(|e| format!("{} ({})", e, cmd.display()))?;
    let produced: Option<Vec<u8>> = if to_file { sc.read("out.bin") } else { Some(out.stdout.clone()) };
    let ok = out.ok();
    if ok != l.succeeds {
        return Err(format!(
            "exit status {} but the operation {} ({}; stderr {:?})",
            if ok { "0" } else { "1" },
            if l.succeeds { "should complete" } else { "cannot complete" },
            cmd.display(),
            out.stderr.chars().take(200).collect::<String>()
        ));
    }
    let mut sender_line = String::new();
    let mut output = String::new();
    if ok {
        let data = produced.ok_or("exit 0 but no output was produced")?;
        match l.kind {
            Kind::Decrypt | Kind::PassDecrypt => {
                if data != l.plain {
                    return Err(format!("exit 0 but the output ({} bytes) is not the full authenticated plaintext ({} bytes) ({})", data.len(), l.plain.len(), cmd.display()));
                }
                output = format!("plaintext:{}", hx(&r::sha256(&data)[..8]));
                if let Kind::Decrypt = l.kind {
                    // robust to message wording: which keyring entry names (other than the recipient's) are mentioned as
                    // whole words, and which encoded public keys (48-character base64 tokens) are printed
                    let is_word = |c: char| c.is_alphanumeric() || c == '-' || c == '_' || c == '+' || c == '/' || c == '=';
                    let tokens: Vec<&str> = out.stderr.split(|c: char| !is_word(c)).filter(|t| !t.is_empty()).collect();
                    let mut named: Vec<String> = vec![];
                    for kl in l.keyring.lines() {
                        if let Some(n) = kl.strip_prefix("Name = ") {
                            let n = n.trim();
                            if n != l.to && tokens.iter().any(|t| *t == n) && !named.contains(&n.to_string()) {
                                named.push(n.to_string());
                            }
                        }
                    }
                    named.sort();
                    let mut unknown: Vec<String> = tokens.iter().filter(|t| t.len() == 48 && r::decode_pk(t).is_some()).map(|t| t.to_string()).collect();
                    unknown.sort();
                    unknown.dedup();
                    sender_line = if !named.is_empty() { format!("from:{}", named.join("|")) } else { format!("unknown:{}", unknown.join("|")) };
                    let want = l.sender_line.clone().unwrap_or_default();
                    // sender == recipient: the recipient's own name is the sender's name (it was excluded above because
                    // messages may mention the recipient anyway): it must be mentioned and no key reported as unknown
                    if want == format!("from:{}", l.to) {
                        sender_line = if tokens.iter().any(|t| *t == l.to) && unknown.is_empty() { want.clone() } else { format!("unknown:{}", unknown.join("|")) };
                    }
                    if sender_line != want {
                        return Err(format!("sender reported as {:?}, expected {:?} (the keyring entry whose public key equals the authenticated sender key) ({})", sender_line, want, cmd.display()));
                    }
                }
            }
            Kind::Encrypt => {
                let (rsk, spk) = l.ref_keys.unwrap();
                match r::read_key_file(&rsk, &data) {
                    Ok(k) if k.parsed.plaintext == l.plain && k.sender == spk => output = "valid-file".into(),
                    _ => return Err(format!("exit 0 but the produced file does not decrypt (REF) to the input with the right sender ({})", cmd.display())),
                }
            }
            Kind::PassEncrypt => {
                if data.len() < 36 {
                    return Err("exit 0 but the produced password file is too short".into());
                }
                let salt: [u8; 32] = data[4..36].try_into().unwrap();
                let k = r::pass_key(l.pass_for_ref.as_ref().unwrap(), &salt);
                match r::read_pass_file_with_key(&k, &data) {
                    Ok(p) if p.plaintext == l.plain => output = "valid-file".into(),
                    _ => return Err(format!("exit 0 but the produced file does not decrypt (REF) under the password ({})", cmd.display())),
                }
            }
        }
    }
    Ok(Outcome { ok, output, sender_line })
}

fn logical_cases(seed: u64, tier: Tier) -> Vec<Logical> {
    let alice = Party::new(seed, "alice", "alicepw");
    let bob = Party::new(seed, "bob", "bobpw");
    let mallory = Party::new(seed, "mallory", "mpw");
    // decoys defeating weakened comparisons
    let enc = &alice.pk_enc;
    let blob = r::b64_decode(enc).unwrap();
    let mut d1 = blob.clone(); // shares the first 24 characters (first 18 bytes), valid checksum
    for b in d1[18..32].iter_mut() {
        *b ^= 0x5a;
    }
    let ck = r::sha256(&d1[..32]);
    d1[32..].copy_from_slice(&ck[..4]);
    let mut d2 = blob.clone(); // shares the last 24 characters (last 18 bytes incl. checksum)
    for b in d2[..18].iter_mut() {
        *b ^= 0xa5;
    }
    // the sender's 32 key bytes with a WRONG checksum: a different encoded key, must never be reported as the sender
    let mut d0 = blob.clone();
    d0[35] ^= 0x01;
    let decoys = format!(
        "{}\n{}\n{}\n{}\n{}\n{}\n",
        proc::keyring_entry("mallory-bad-checksum", &r::b64(&d0), None),
        proc::keyring_entry("alic", &r::b64(&d1), None),
        proc::keyring_entry("alice2", &r::b64(&d2), None),
        proc::keyring_entry("Alice", &r::encode_pk(&r::x25519_base(&derive32(seed, "c12-decoy3"))), None),
        proc::keyring_entry("bo", &r::encode_pk(&r::x25519_base(&derive32(seed, "c12-decoy4"))), None),
        proc::keyring_entry("bobby", &r::encode_pk(&r::x25519_base(&derive32(seed, "c12-decoy5"))), None),
    );
    let kr_first = format!("{}\n{}\n{}", alice.entry(true), decoys, bob.entry(true));
    let kr_last = format!("{}\n{}\n{}", decoys, bob.entry(true), alice.entry(true));
    let kr_absent = format!("{}\n{}", decoys, bob.entry(true));
    let kr_bob_pub = format!("{}\n{}\n{}", decoys, alice.entry(true), bob.entry(false));
    let e = derive32(seed, "c12-e");
    let pay = derive32(seed, "c12-pay");
    let p1 = plaintext(seed ^ 0xc1, 500);
    let p3 = plaintext(seed ^ 0xc3, 2 * CS + 77);
    let f1 = r::write_key_file(&alice.sk, &bob.pk, &e, &pay, &p1, &[500]).unwrap();
    let f3 = r::write_key_file(&alice.sk, &bob.pk, &e, &pay, &p3, &[CS, CS, 77]).unwrap();
    let f0 = r::write_key_file(&alice.sk, &bob.pk, &e, &pay, &[], &[0]).unwrap();
    let fm = r::write_key_file(&mallory.sk, &bob.pk, &e, &pay, &p1, &[500]).unwrap();
    let flip = |f: &[u8], at: usize| {
        let mut v = f.to_vec();
        v[at] ^= 1;
        v
    };
    let dec = |name: &str, input: Vec<u8>, kr: &str, to: &str, pw: Option<&str>, ok: bool, plain: &[u8], line: Option<String>| Logical {
        name: name.into(),
        kind: Kind::Decrypt,
        input,
        keyring: kr.into(),
        to: to.into(),
        from: String::new(),
        password: pw.map(|s| s.to_string()),
        succeeds: ok,
        plain: plain.to_vec(),
        sender_line: line,
        ref_keys: None,
        pass_for_ref: None,
    };
    let from_alice = Some("from:alice".to_string());
    let mut v = vec![
        dec("decrypt/valid-1-chunk-sender-first", f1.clone(), &kr_first, "bob", Some("bobpw"), true, &p1, from_alice.clone()),
        dec("decrypt/valid-3-chunks-sender-last", f3.clone(), &kr_last, "bob", Some("bobpw"), true, &p3, from_alice.clone()),
        dec("decrypt/valid-empty-plaintext", f0.clone(), &kr_last, "bob", Some("bobpw"), true, &[], from_alice.clone()),
        dec("decrypt/valid-sender-absent", f1.clone(), &kr_absent, "bob", Some("bobpw"), true, &p1, Some(format!("unknown:{}", alice.pk_enc))),
        dec("decrypt/valid-other-sender-absent", fm.clone(), &kr_first, "bob", Some("bobpw"), true, &p1, Some(format!("unknown:{}", mallory.pk_enc))),
        dec("decrypt/corrupted-header", flip(&f1, 50), &kr_first, "bob", Some("bobpw"), false, &[], None),
        dec("decrypt/corrupted-2nd-chunk", flip(&f3, 132 + 32 + CS + 40), &kr_first, "bob", Some("bobpw"), false, &[], None),
        dec("decrypt/truncated", f3[..f3.len() - 5].to_vec(), &kr_first, "bob", Some("bobpw"), false, &[], None),
        dec("decrypt/truncated-at-chunk-boundary", f3[..132 + 2 * (32 + CS)].to_vec(), &kr_first, "bob", Some("bobpw"), false, &[], None),
        dec("decrypt/trailing-byte", [f1.clone(), vec![0]].concat(), &kr_first, "bob", Some("bobpw"), false, &[], None),
        dec("decrypt/unknown-to", f1.clone(), &kr_first, "nobody", Some("bobpw"), false, &[], None),
        dec("decrypt/to-name-is-a-prefix-decoy", f1.clone(), &kr_first, "bo", Some("bobpw"), false, &[], None),
        dec("decrypt/to-without-private-key", f1.clone(), &kr_bob_pub, "bob", Some("bobpw"), false, &[], None),
        dec("decrypt/wrong-password", f1.clone(), &kr_first, "bob", Some("alicepw"), false, &[], None),
        dec("decrypt/password-variable-unset", f1.clone(), &kr_first, "bob", None, false, &[], None),
    ];
    // a message bob encrypted to himself: the sender named is bob
    let fself = r::write_key_file(&bob.sk, &bob.pk, &e, &pay, &p1, &[500]).unwrap();
    v.push(dec("decrypt/valid-self-encrypted", fself, &kr_first, "bob", Some("bobpw"), true, &p1, Some("from:bob".to_string())));
    // a keyring entry whose encoded key equals the sender's up to letter case (a different key with a valid checksum, found
    // by search once: CASE_TWIN) -- listed before the sender, and with the sender absent
    {
        let casepk = r::x25519_base(&CASE_SK);
        let caseenc = r::encode_pk(&casepk);
        if r::decode_pk(CASE_TWIN).is_none() || CASE_TWIN == caseenc || !CASE_TWIN.eq_ignore_ascii_case(&caseenc) {
            crate::report::machinery("CASE_TWIN is not a case twin of the fixed sender key");
        }
        let fcase = r::write_key_file(&CASE_SK, &bob.pk, &e, &pay, &p1, &[500]).unwrap();
        let kr_twin_first = format!("{}\n{}\n{}", proc::keyring_entry("caroltwin", CASE_TWIN, None), proc::keyring_entry("alicecase", &caseenc, None), bob.entry(true));
        let kr_twin_only = format!("{}\n{}", proc::keyring_entry("caroltwin", CASE_TWIN, None), bob.entry(true));
        v.push(dec("decrypt/valid-sender-has-a-case-twin-listed-first", fcase.clone(), &kr_twin_first, "bob", Some("bobpw"), true, &p1, Some("from:alicecase".to_string())));
        v.push(dec("decrypt/valid-sender-absent-but-a-case-twin-is-listed", fcase, &kr_twin_only, "bob", Some("bobpw"), true, &p1, Some(format!("unknown:{}", caseenc))));
    }
    // a sender whose public key is used in its other encoding (bit 255 set: the same curve point, different bytes): the file
    // carries those bytes as the sender key, the keyring lists exactly that encoding -- it is that entry that is named
    {
        let mut twin = alice.pk;
        twin[31] |= 0x80;
        if let Some(ftwin) = r::write_key_file_with_sender_pub(&alice.sk, &twin, &bob.pk, &e, &pay, &p1, &[500]) {
            let kr_twin = format!("{}\n{}\n{}", proc::keyring_entry("alicetwin", &r::encode_pk(&twin), None), proc::keyring_entry("someone", &r::encode_pk(&r::x25519_base(&derive32(seed, "c12-someone"))), None), bob.entry(true));
            v.push(dec("decrypt/valid-sender-key-in-its-bit-255-encoding", ftwin, &kr_twin, "bob", Some("bobpw"), true, &p1, Some("from:alicetwin".to_string())));
        }
    }
    // key names containing '=': two entries "ops=alice" (the sender) and "ops=bob" (another key) share everything up to
    // the second '='; the recipient is addressed as "to=bob"
    {
        let tobob = Party::new(seed, "to=bob", "bobpw");
        let other = Party::new(seed, "ops=bob", "x");
        let kr_eq = format!("{}\n{}\n{}", proc::keyring_entry("ops=bob", &other.pk_enc, None), proc::keyring_entry("ops=alice", &alice.pk_enc, None), tobob.entry(true));
        let feq = r::write_key_file(&alice.sk, &tobob.pk, &e, &pay, &p1, &[500]).unwrap();
        v.push(dec("decrypt/valid-names-contain-equals-signs", feq, &kr_eq, "to=bob", Some("bobpw"), true, &p1, Some("from:ops=alice".to_string())));
    }
    // a forged, keyless ending: after an authentic non-final chunk (or right after the header) comes a record that
    // claims {last = 1, length 0} with 16 arbitrary bytes where the tag should be
    {
        let forged_tail = |counter: u64| -> Vec<u8> {
            let mut t = counter.to_be_bytes().to_vec();
            t.extend_from_slice(&1u32.to_be_bytes());
            t.extend_from_slice(&0u32.to_be_bytes());
            t.extend_from_slice(&[0x5a; 16]);
            t
        };
        let mut a = f3[..132 + 32 + CS].to_vec();
        a.extend_from_slice(&forged_tail(1));
        v.push(dec("decrypt/forged-empty-final-chunk-after-chunk-1", a, &kr_first, "bob", Some("bobpw"), false, &[], None));
        let mut b = f3[..132].to_vec();
        b.extend_from_slice(&forged_tail(0));
        v.push(dec("decrypt/forged-empty-final-chunk-after-header", b, &kr_first, "bob", Some("bobpw"), false, &[], None));
        let mut c = f0.clone();
        let n = c.len();
        c[n - 1] ^= 1;
        v.push(dec("decrypt/empty-plaintext-file-with-a-tag-bit-changed", c, &kr_first, "bob", Some("bobpw"), false, &[], None));
    }
    // whole records moved as units (each still authentic on its own, the final record still last): the position of a
    // record in the stream is part of what is authenticated
    {
        let rec = |i: usize| -> Vec<u8> { f3[132 + i * (32 + CS)..(132 + (i + 1) * (32 + CS)).min(f3.len())].to_vec() };
        let hdr = f3[..132].to_vec();
        for (nm, order) in [("records-0-and-1-swapped", vec![1usize, 0, 2]), ("record-0-repeated", vec![0, 0, 1, 2]), ("record-1-dropped", vec![0, 2]), ("record-0-dropped", vec![1, 2])] {
            let mut x = hdr.clone();
            for i in order {
                x.extend_from_slice(&rec(i));
            }
            v.push(dec(&format!("decrypt/{}", nm), x, &kr_first, "bob", Some("bobpw"), false, &[], None));
        }
    }
    let enc_case = |name: &str, kr: &str, to: &str, from: &str, pw: Option<&str>, ok: bool, plain: &[u8]| Logical {
        name: name.into(),
        kind: Kind::Encrypt,
        input: plain.to_vec(),
        keyring: kr.into(),
        to: to.into(),
        from: from.into(),
        password: pw.map(|s| s.to_string()),
        succeeds: ok,
        plain: plain.to_vec(),
        sender_line: None,
        ref_keys: Some((bob.sk, alice.pk)),
        pass_for_ref: None,
    };
    v.push(enc_case("encrypt/valid", &kr_first, "bob", "alice", Some("alicepw"), true, &p1));
    v.push(enc_case("encrypt/valid-3-chunks", &kr_last, "bob", "alice", Some("alicepw"), true, &p3));
    v.push(enc_case("encrypt/unknown-recipient", &kr_first, "nobody", "alice", Some("alicepw"), false, &p1));
    v.push(enc_case("encrypt/unknown-sender", &kr_first, "bob", "alic3", Some("alicepw"), false, &p1));
    v.push(enc_case("encrypt/sender-is-a-public-only-decoy", &kr_first, "bob", "alic", Some("alicepw"), false, &p1));
    v.push(enc_case("encrypt/wrong-password", &kr_first, "bob", "alice", Some("bobpw"), false, &p1));
    let salt = derive32(seed, "c12-salt");
    let pk = r::pass_key(b"filepw", &salt);
    let q3 = r::write_pass_file_with_key(&pk, &salt, &p3, &[CS, CS, 77]);
    let pcase = |name: &str, kind: Kind, input: Vec<u8>, pw: Option<&str>, ok: bool, plain: &[u8]| Logical {
        name: name.into(),
        kind,
        input,
        keyring: String::new(),
        to: String::new(),
        from: String::new(),
        password: pw.map(|s| s.to_string()),
        succeeds: ok,
        plain: plain.to_vec(),
        sender_line: None,
        ref_keys: None,
        pass_for_ref: Some(b"filepw".to_vec()),
    };
    v.push(pcase("pass-encrypt/valid", Kind::PassEncrypt, p1.clone(), Some("filepw"), true, &p1));
    v.push(pcase("pass-encrypt/password-variable-unset", Kind::PassEncrypt, p1.clone(), None, false, &p1));
    v.push(pcase("pass-decrypt/valid-3-chunks", Kind::PassDecrypt, q3.clone(), Some("filepw"), true, &p3));
    v.push(pcase("pass-decrypt/wrong-password", Kind::PassDecrypt, q3.clone(), Some("otherpw"), false, &[]));
    v.push(pcase("pass-decrypt/corrupted-3rd-chunk", Kind::PassDecrypt, flip(&q3, 36 + 2 * (32 + CS) + 20), Some("filepw"), false, &[]));
    v.push(pcase("pass-decrypt/key-file-given", Kind::PassDecrypt, f1.clone(), Some("filepw"), false, &[]));
    v.push(pcase("pass-decrypt/trailing-byte", Kind::PassDecrypt, [q3.clone(), vec![0]].concat(), Some("filepw"), false, &[]));
    v.push(pcase("pass-decrypt/truncated-at-chunk-boundary", Kind::PassDecrypt, q3[..36 + 2 * (32 + CS)].to_vec(), Some("filepw"), false, &[]));
    {
        let rec = |i: usize| -> Vec<u8> { q3[36 + i * (32 + CS)..(36 + (i + 1) * (32 + CS)).min(q3.len())].to_vec() };
        for (nm, order) in [("records-0-and-1-swapped", vec![1usize, 0, 2]), ("record-1-dropped", vec![0, 2])] {
            let mut x = q3[..36].to_vec();
            for i in order {
                x.extend_from_slice(&rec(i));
            }
            v.push(pcase(&format!("pass-decrypt/{}", nm), Kind::PassDecrypt, x, Some("filepw"), false, &[]));
        }
    }
    let q1 = r::write_pass_file_with_key(&pk, &salt, &p1, &[500]);
    v.push(pcase("pass-decrypt/valid-1-chunk", Kind::PassDecrypt, q1.clone(), Some("filepw"), true, &p1));
    v.push(pcase("pass-decrypt/trailing-byte-1-chunk", Kind::PassDecrypt, [q1, vec![0x41]].concat(), Some("filepw"), false, &[]));
    if tier == Tier::Thorough {
        // boundary sizes in every command, valid and with the smallest damage at the very end
        let kr_mid = format!("{}\n{}\n{}\n{}", proc::keyring_entry("zeta", &r::encode_pk(&r::x25519_base(&derive32(seed, "c12-zeta"))), None), alice.entry(true), decoys, bob.entry(true));
        for n in [1usize, CS - 1, CS, CS + 1, 2 * CS] {
            let p = plaintext(seed ^ 0xc500 ^ n as u64, n);
            let ch: Vec<usize> = if n <= CS { vec![n] } else if n == 2 * CS { vec![CS, CS] } else { vec![CS, n - CS] };
            let kf = r::write_key_file(&alice.sk, &bob.pk, &e, &pay, &p, &ch).unwrap();
            let pf = r::write_pass_file_with_key(&pk, &salt, &p, &ch);
            v.push(dec(&format!("decrypt/valid-{}-bytes-sender-in-the-middle", n), kf.clone(), &kr_mid, "bob", Some("bobpw"), true, &p, from_alice.clone()));
            v.push(dec(&format!("decrypt/{}-bytes-last-tag-bit", n), flip(&kf, kf.len() - 1), &kr_mid, "bob", Some("bobpw"), false, &[], None));
            v.push(dec(&format!("decrypt/{}-bytes-one-byte-short", n), kf[..kf.len() - 1].to_vec(), &kr_mid, "bob", Some("bobpw"), false, &[], None));
            v.push(enc_case(&format!("encrypt/valid-{}-bytes", n), &kr_mid, "bob", "alice", Some("alicepw"), true, &p));
            v.push(pcase(&format!("pass-encrypt/valid-{}-bytes", n), Kind::PassEncrypt, p.clone(), Some("filepw"), true, &p));
            v.push(pcase(&format!("pass-decrypt/valid-{}-bytes", n), Kind::PassDecrypt, pf.clone(), Some("filepw"), true, &p));
            v.push(pcase(&format!("pass-decrypt/{}-bytes-last-tag-bit", n), Kind::PassDecrypt, flip(&pf, pf.len() - 1), Some("filepw"), false, &[]));
            v.push(pcase(&format!("pass-decrypt/{}-bytes-one-byte-short", n), Kind::PassDecrypt, pf[..pf.len() - 1].to_vec(), Some("filepw"), false, &[]));
        }
    }
    v
}

/// One of the names on the command line (`which` = output | input | keyring) is `in\xffput.bin`-like: not UTF-8. The file of
/// that exact name is the genuine one; a file whose name has U+FFFD in place of the bad byte holds different, equally
/// well-formed data. Exit 1 (a refusal) is truthful; exit 0 must mean the operation was done on the files that were named.
fn non_utf8_name(cases: &[Logical], ci: usize, which: &str) -> Result<(), String> {
    use std::os::unix::ffi::OsStrExt;
    let l = &cases[ci];
    let w = Wiring { stdin_input: false, stdout_output: false, env_keyring: false, short_opts: false, alias: false, opts_first: false };
    let (mut cmd, files, _) = build_cmd(l, &w);
    let (plain_name, bad, lossy): (&str, Vec<u8>, String) = match which {
        "output" => ("out.bin", b"ou\xfft.bin".to_vec(), "ou\u{fffd}t.bin".to_string()),
        "input" => ("input.bin", b"in\xffput.bin".to_vec(), "in\u{fffd}put.bin".to_string()),
        _ => ("kr.txt", b"k\xffr.txt".to_vec(), "k\u{fffd}r.txt".to_string()),
    };
    for a in cmd.args.iter_mut() {
        if a == plain_name.as_bytes() {
            *a = bad.clone();
        }
    }
    let sc = Scratch::new();
    for (n, d) in &files {
        if n == plain_name {
            std::fs::write(sc.0.join(std::ffi::OsStr::from_bytes(&bad)), d).map_err(|e| format!("MACHINERY: cannot create a file with a non-UTF-8 name: {}", e))?;
        } else {
            sc.write(n, d);
        }
    }
    // the neighbour
    match which {
        "input" => {
            let other: Vec<u8> = match l.kind {
                Kind::Encrypt | Kind::PassEncrypt => b"the neighbour's plaintext".to_vec(),
                _ => cases.iter().find(|c| c.succeeds && std::mem::discriminant(&c.kind) == std::mem::discriminant(&l.kind) && c.plain != l.plain && !c.plain.is_empty()).map(|c| c.input.clone()).unwrap_or_default(),
            };
            sc.write(&lossy, &other);
        }
        "keyring" => {
            // binds the same names to other keys (locked under the same passwords)
            let da = Party::new(1, "decoy-for-alice", "alicepw");
            let db = Party::new(1, "decoy-for-bob", "bobpw");
            sc.write(&lossy, format!("{}\n{}\n", proc::keyring_entry("alice", &da.pk_enc, Some(&da.locked)), proc::keyring_entry("bob", &db.pk_enc, Some(&db.locked))).as_bytes());
        }
        _ => {}
    }
    let out = proc::run(&cmd, &sc.0);
    out.well_behaved()?;
    if !out.ok() {
        return Ok(());
    }
    let outname: Vec<u8> = if which == "output" { bad.clone() } else { b"out.bin".to_vec() };
    let data = std::fs::read(sc.0.join(std::ffi::OsStr::from_bytes(&outname))).map_err(|_| format!("exit 0, but there is no file of the name given with -o ({:?}); the directory holds {:?}", String::from_utf8_lossy(&outname), std::fs::read_dir(&sc.0).map(|d| d.filter_map(|e| e.ok()).map(|e| e.file_name().to_string_lossy().to_string()).collect::<Vec<_>>()).unwrap_or_default()))?;
    let good = match l.kind {
        Kind::Decrypt | Kind::PassDecrypt => data == l.plain,
        Kind::Encrypt => {
            let (rsk, spk) = l.ref_keys.unwrap();
            matches!(r::read_key_file(&rsk, &data), Ok(k) if k.parsed.plaintext == l.plain && k.sender == spk)
        }
        Kind::PassEncrypt => data.len() >= 36 && matches!(r::read_pass_file_with_key(&r::pass_key(l.pass_for_ref.as_ref().unwrap(), data[4..36].try_into().unwrap()), &data), Ok(p) if p.plaintext == l.plain),
    };
    if !good {
        return Err(format!("exit 0, but the output is not the result of the operation on the files that were named (the {} name holds a byte that is not UTF-8; a neighbour named with U+FFFD in its place exists)", which));
    }
    Ok(())
}

pub fn run(rep: &'static Report) {
    rep.set_rule("E-PROC product: every logical case (valid and invalid inputs, keyrings with the sender first/last/absent and decoy entries sharing 24-character prefixes/suffixes of the sender's key and prefix/extension/case variants of the names) x the full product of wirings {file argument | stdin} x {-o | stdout} x {-k | KESTREL_KEYRING} x {long | short options} x {command | alias} x {options before | after the positional}: 64 per keyring command, 32 per password command. Each run is checked against the CLI reference model (exit status, plaintext bytes, REF-validity of produced files, sender line) and all wirings of one logical case must yield the same outcome. distinct non-trivial = distinct (logical case, wiring) runs");
    rep.rule_add("Library level: decryption/encryption into sinks of bounded capacity succeed exactly when everything fitted.");
    rep.rule_add("per logical case the extra wirings size-limited output, pre-existing output, FIFO input, alias-named FILE, 5 pseudo-terminal wirings, decoy environment, stdout=/dev/full, stdout=closed pipe, stdin in pieces, names that are not UTF-8 (output, input, keyring; a U+FFFD-named neighbour holds other data).");
    rep.rule_add("Logical cases include whole records swapped, repeated and dropped in both modes, and a keyring entry whose encoded key equals the sender's up to letter case.");
    rep.assume("terminal-attached branches are exercised through a pseudo-terminal (password typed at a controlling terminal or at a terminal stdin); a real terminal emulator is not involved");
    let cases = logical_cases(rep.seed, rep.tier);
    let mut jobs = vec![];
    for (ci, c) in cases.iter().enumerate() {
        let keyring_matters = matches!(c.kind, Kind::Decrypt | Kind::Encrypt);
        for w in wirings(keyring_matters) {
            jobs.push((ci, w));
        }
    }
    let results: Vec<(usize, Wiring, Result<Outcome, String>)> = jobs
        .par_iter()
        .map(|&(ci, w)| {
            rep.eval(1);
            rep.nontrivial(format!("{}-{:?}", cases[ci].name, w).as_bytes());
            let mut r1 = run_one(&cases[ci], &w);
            if r1.is_err() {
                // confirm once (real CSPRNG only affects bytes, never the verdict)
                let r2 = run_one(&cases[ci], &w);
                if r2.is_ok() {
                    crate::report::machinery(&format!("verdict flipped for {} {:?}: {:?}", cases[ci].name, w, r1));
                }
                r1 = r2;
            }
            (ci, w, r1)
        })
        .collect();
    let mut by_case: BTreeMap<usize, Vec<(Wiring, Outcome)>> = BTreeMap::new();
    for (ci, w, r) in results {
        match r {
            Err(e) => rep.violation(
                &format!("model/{}", cases[ci].name),
                json!({"kind":"run","case":cases[ci].name,"wiring":[w.stdin_input,w.stdout_output,w.env_keyring,w.short_opts,w.alias,w.opts_first]}),
                format!("{} under wiring {:?}: {}", cases[ci].name, w, e),
            ),
            Ok(o) => by_case.entry(ci).or_default().push((w, o)),
        }
    }
    // differential oracle: all wirings of one logical case agree
    for (ci, v) in &by_case {
        for (w, o) in v.iter().skip(1) {
            if *o != v[0].1 {
                rep.violation(
                    &format!("differential/{}", cases[*ci].name),
                    json!({"kind":"run","case":cases[*ci].name,"wiring":[w.stdin_input,w.stdout_output,w.env_keyring,w.short_opts,w.alias,w.opts_first]}),
                    format!("{}: outcome depends on the wiring: {:?} gives {:?} but {:?} gives {:?}", cases[*ci].name, v[0].0, v[0].1, w, o),
                );
                break;
            }
        }
    }
    // wiring "output file that cannot take the whole output" (size limit: short write, then EFBIG): the operation
    // cannot complete, so exit 0 would be untruthful
    let mut lim_jobs = vec![];
    for (ci, c) in cases.iter().enumerate() {
        if !c.succeeds {
            continue;
        }
        let full = match c.kind {
            Kind::Decrypt | Kind::PassDecrypt => c.plain.len(),
            Kind::Encrypt => 132 + 32 * ((c.plain.len() + CS - 1) / CS).max(1) + c.plain.len(),
            Kind::PassEncrypt => 36 + 32 * ((c.plain.len() + CS - 1) / CS).max(1) + c.plain.len(),
        };
        if full == 0 {
            continue;
        }
        for lim in [full as u64 - 1, (full / 2) as u64] {
            for stdin_input in [false, true] {
                lim_jobs.push((ci, lim, stdin_input));
            }
        }
    }
    lim_jobs.par_iter().for_each(|&(ci, lim, stdin_input)| {
        rep.eval(1);
        rep.nontrivial(format!("{}-limit-{}-{}", cases[ci].name, lim, stdin_input).as_bytes());
        let w = Wiring { stdin_input, stdout_output: false, env_keyring: false, short_opts: false, alias: false, opts_first: false };
        let (mut cmd, files, _) = build_cmd(&cases[ci], &w);
        cmd.fsize_limit = Some(lim);
        let attempt = || -> Result<(), String> {
            let sc = Scratch::new();
            for (n, d) in &files {
                sc.write(n, d);
            }
            let out = proc::run(&cmd, &sc.0);
            out.well_behaved()?;
            if out.ok() {
                return Err(format!("exit 0 although only {} of the output bytes could be written (file size limit): the operation did not complete", lim));
            }
            Ok(())
        };
        if attempt().is_err() {
            if let Err(e) = attempt() {
                rep.violation(
                    &format!("model/size-limited-output/{}", cases[ci].name),
                    json!({"kind":"limit","case":cases[ci].name,"limit":lim,"stdin":stdin_input}),
                    format!("{} with -o under a file size limit of {} bytes: {} ({})", cases[ci].name, lim, e, cmd.display()),
                );
            }
        }
    });
    rep.extra("size_limited_output_runs", json!(lim_jobs.len()));
    // wiring "the -o path already holds a longer file" and wiring "the FILE argument is a named pipe":
    // for every logical case, the outcome must be what the model says and equal to the baseline wiring
    let mut xjobs = vec![];
    for ci in 0..cases.len() {
        xjobs.push((ci, "preexisting-output"));
        xjobs.push((ci, "fifo-input"));
        // variables the command has no business reading are set to plausible decoys: KESTREL_NEW_PASSWORD (a left-over
        // of a key rotation) and, with -k given, KESTREL_KEYRING naming a keyring that binds the same names to other keys
        xjobs.push((ci, "decoy-environment"));
        // the output goes to a stdout that cannot take it (a full device; a pipe whose reader is gone): the operation
        // cannot complete, whatever its size, unless there is nothing to write
        xjobs.push((ci, "stdout-dev-full"));
        xjobs.push((ci, "stdout-closed-pipe"));
        // the input arrives on a stdin pipe in pieces (first byte alone, then 999 bytes, ...)
        xjobs.push((ci, "stdin-in-pieces"));
        // the FILE argument is literally named like a command alias (dec, enc, pass, gen)
        for nm in ["alias-named-file/dec", "alias-named-file/enc", "alias-named-file/pass", "alias-named-file/gen", "alias-named-file/decrypt"] {
            xjobs.push((ci, nm));
        }
        // a name on the command line holds a byte sequence that is not UTF-8 (a legal file name): either the command refuses
        // (exit 1), or it works on exactly the named file -- a neighbour whose name has U+FFFD at that place holds other data
        if cases[ci].succeeds {
            xjobs.push((ci, "non-utf8-name/output"));
            xjobs.push((ci, "non-utf8-name/input"));
            if matches!(cases[ci].kind, Kind::Decrypt | Kind::Encrypt) {
                xjobs.push((ci, "non-utf8-name/keyring"));
            }
        }
        // the password comes from the environment (--env-pass) while stdin is a terminal: the outcome is that of the
        // non-interactive run (in particular a wrong password ends the run with exit 1; nothing can be re-asked)
        if cases[ci].password.is_some() {
            xjobs.push((ci, "env-pass-at-a-terminal"));
        }
        // interactive wirings: the password is typed at a (pseudo-)terminal instead of coming from the environment
        if cases[ci].password.is_some() && !cases[ci].name.contains("wrong-password") {
            for k in ["tty-controlling/file/-o", "tty-controlling/stdin-pipe/stdout-pipe", "tty-is-stdin/file/-o", "tty-is-stdin/file/stdout-pipe", "tty-is-stdin-and-stdout/file/-o"] {
                xjobs.push((ci, k));
            }
        }
    }
    xjobs.par_iter().for_each(|&(ci, kind)| {
        rep.eval(1);
        rep.nontrivial(format!("{}-{}", cases[ci].name, kind).as_bytes());
        let attempt = || -> Result<(), String> {
            let l = &cases[ci];
            if let Some(which) = kind.strip_prefix("non-utf8-name/") {
                return non_utf8_name(&cases, ci, which);
            }
            let tty = kind.starts_with("tty-");
            let failing_stdout = kind == "stdout-dev-full" || kind == "stdout-closed-pipe";
            let w = Wiring { stdin_input: kind.contains("/stdin-pipe/") || kind == "stdin-in-pieces", stdout_output: kind.ends_with("/stdout-pipe") || failing_stdout, env_keyring: false, short_opts: false, alias: false, opts_first: false };
            let (mut cmd, mut files, _) = build_cmd(l, &w);
            if kind == "stdout-dev-full" {
                cmd.stdout_file = Some("/dev/full".into());
            }
            if kind == "stdout-closed-pipe" {
                cmd.stdout_closed_pipe = true;
            }
            if kind == "stdin-in-pieces" {
                cmd.stdin_splits = vec![1, 1000, 5000, 65536, 65537, 70000, 131072];
            }
            // with a stdout that takes nothing, only an operation that writes nothing can complete
            let nothing_to_write = matches!(l.kind, Kind::Decrypt | Kind::PassDecrypt) && l.plain.is_empty();
            let should_succeed = l.succeeds && (!failing_stdout || nothing_to_write);
            if let Some(nm) = kind.strip_prefix("alias-named-file/") {
                for a in cmd.args.iter_mut() {
                    if a == b"input.bin" {
                        *a = nm.as_bytes().to_vec();
                    }
                }
                for f in files.iter_mut() {
                    if f.0 == "input.bin" {
                        f.0 = nm.to_string();
                    }
                }
            }
            if kind == "decoy-environment" {
                let da = Party::new(rep.seed, "decoy-for-alice", "alicepw");
                let db = Party::new(rep.seed, "decoy-for-bob", "bobpw");
                let dkr = format!("{}\n{}\n", proc::keyring_entry("alice", &da.pk_enc, Some(&da.locked)), proc::keyring_entry("bob", &db.pk_enc, Some(&db.locked)));
                files.push(("decoy-keyring.txt".to_string(), dkr.into_bytes()));
                cmd = cmd.env("KESTREL_NEW_PASSWORD", "decoy-new-password").env("KESTREL_KEYRING", "decoy-keyring.txt");
            }
            if kind == "env-pass-at-a-terminal" {
                cmd.pty = Some(proc::PtySpec { typed: vec![], controlling: false, stdin_is_tty: true, stdout_is_tty: false });
            }
            if tty {
                cmd.args.retain(|a| a != b"--env-pass");
                cmd.env.retain(|(k, _)| k != "KESTREL_PASSWORD");
                let pw = l.password.clone().unwrap();
                let typed = if matches!(l.kind, Kind::PassEncrypt) { format!("{}\n{}\n", pw, pw) } else { format!("{}\n", pw) };
                cmd.pty = Some(proc::PtySpec {
                    typed: typed.into_bytes(),
                    controlling: kind.starts_with("tty-controlling"),
                    stdin_is_tty: kind.starts_with("tty-is-stdin"),
                    stdout_is_tty: kind.starts_with("tty-is-stdin-and-stdout"),
                });
            }
            let sc = Scratch::new();
            for (n, d) in &files {
                if kind == "fifo-input" && n == "input.bin" {
                    continue;
                }
                sc.write(n, d);
            }
            let stale = vec![b'S'; 300_000];
            if kind == "preexisting-output" {
                sc.write("out.bin", &stale);
            }
            let feeder = if kind == "fifo-input" {
                let path = sc.path("input.bin");
                let cpath = std::ffi::CString::new(path.to_str().unwrap()).unwrap();
                if unsafe { libc::mkfifo(cpath.as_ptr(), 0o600) } != 0 {
                    return Err("MACHINERY: mkfifo failed".into());
                }
                let data = l.input.clone();
                Some(std::thread::spawn(move || {
                    // open blocks until the CLI opens the pipe for reading; a CLI that never opens it is handled by O_NONBLOCK retry
                    use std::io::Write;
                    let t0 = std::time::Instant::now();
                    loop {
                        match std::fs::OpenOptions::new().write(true).custom_flags(libc::O_NONBLOCK).open(&path) {
                            Ok(mut f) => {
                                // back to blocking writes
                                unsafe {
                                    use std::os::unix::io::AsRawFd;
                                    let fl = libc::fcntl(f.as_raw_fd(), libc::F_GETFL);
                                    libc::fcntl(f.as_raw_fd(), libc::F_SETFL, fl & !libc::O_NONBLOCK);
                                }
                                let _ = f.write_all(&data);
                                break;
                            }
                            Err(_) => {
                                if t0.elapsed().as_secs() > 20 {
                                    break;
                                }
                                std::thread::sleep(std::time::Duration::from_millis(2));
                            }
                        }
                    }
                }))
            } else {
                None
            };
            let out = if kind == "env-pass-at-a-terminal" { proc::run_limit(&cmd, &sc.0, std::time::Duration::from_secs(12)) } else { proc::run(&cmd, &sc.0) };
            if let Some(f) = feeder {
                let _ = f.join();
            }
            out.well_behaved()?;
            if out.ok() != should_succeed {
                return Err(format!("exit status {} but the operation {} when {}", if out.ok() { 0 } else { 1 }, if should_succeed { "should complete" } else { "cannot complete" }, match kind { "stdout-dev-full" => "stdout is /dev/full".to_string(), "stdout-closed-pipe" => "stdout is a pipe whose reader is gone".to_string(), "stdin-in-pieces" => "the input arrives on a stdin pipe in pieces".to_string(), "fifo-input" => "the FILE argument is a named pipe carrying the same bytes".to_string(), "preexisting-output" => "the output path already holds a longer file".to_string(), "decoy-environment" => "KESTREL_NEW_PASSWORD and (next to -k) KESTREL_KEYRING are set to decoys".to_string(), "env-pass-at-a-terminal" => "the password comes from the environment while stdin is a terminal".to_string(), k if k.starts_with("non-utf8-name/") => "a name is not UTF-8".to_string(), k if k.starts_with("alias-named-file/") => format!("the input file is named '{}'", &k[17..]), k => format!("the password is typed at a terminal ({})", k) }));
            }
            if out.ok() && !failing_stdout {
                let data = if w.stdout_output { out.stdout.clone() } else { sc.read("out.bin").ok_or("exit 0 but no output file")? };
                match l.kind {
                    Kind::Decrypt | Kind::PassDecrypt => {
                        if data != l.plain {
                            return Err(format!("exit 0 but the output file holds {} bytes, the authenticated plaintext has {}{}", data.len(), l.plain.len(), if data.starts_with(&l.plain) { " (stale bytes of the previous file follow it)" } else { "" }));
                        }
                    }
                    Kind::Encrypt => {
                        let (rsk, spk) = l.ref_keys.unwrap();
                        match r::read_key_file(&rsk, &data) {
                            Ok(k) if k.parsed.plaintext == l.plain && k.sender == spk => {}
                            _ => return Err(format!("exit 0 but the {}-byte output file is not exactly a conforming encrypted file", data.len())),
                        }
                    }
                    Kind::PassEncrypt => {
                        let salt: [u8; 32] = data.get(4..36).ok_or("short output")?.try_into().unwrap();
                        let k = r::pass_key(l.pass_for_ref.as_ref().unwrap(), &salt);
                        match r::read_pass_file_with_key(&k, &data) {
                            Ok(p) if p.plaintext == l.plain => {}
                            _ => return Err(format!("exit 0 but the {}-byte output file is not exactly a conforming password file", data.len())),
                        }
                    }
                }
            }
            Ok(())
        };
        if let Err(e) = attempt() {
            if e.starts_with("MACHINERY") {
                crate::report::machinery(&e);
            }
            if let Err(e2) = attempt() {
                rep.violation(&format!("model/{}/{}", kind, cases[ci].name), json!({"kind":"extra-wiring","case":cases[ci].name,"wiring":kind}), format!("{} [{}]: {}", cases[ci].name, kind, e2));
            }
        }
    });
    rep.extra("extra_wiring_runs", json!(xjobs.len()));
    // terminal-specific behaviour of the model: (a) a wrong password typed at a terminal stdin is asked again and the right one
    // then succeeds; (b) binary output is refused when stdout is the terminal; (c) a terminal stdin is not accepted as data input
    {
        let find = |n: &str| cases.iter().find(|c| c.name == n).unwrap();
        let d = find("decrypt/valid-1-chunk-sender-first");
        let wfile = Wiring { stdin_input: false, stdout_output: false, env_keyring: false, short_opts: false, alias: false, opts_first: false };
        let run_tty = |l: &Logical, w: &Wiring, typed: &str, stdin_tty: bool, stdout_tty: bool, controlling: bool| -> (proc::Out, Option<Vec<u8>>) {
            let (mut cmd, files, _) = build_cmd(l, w);
            cmd.args.retain(|a| a != b"--env-pass");
            cmd.env.retain(|(k, _)| k != "KESTREL_PASSWORD");
            if stdin_tty {
                cmd.stdin = proc::StdinSpec::Null;
            }
            cmd.pty = Some(proc::PtySpec { typed: typed.as_bytes().to_vec(), controlling, stdin_is_tty: stdin_tty, stdout_is_tty: stdout_tty });
            let sc = Scratch::new();
            for (n, dd) in &files {
                sc.write(n, dd);
            }
            let out = proc::run(&cmd, &sc.0);
            let f = sc.read("out.bin");
            (out, f)
        };
        rep.eval(3);
        // (a)
        let (o, f) = run_tty(d, &wfile, "not-the-password\nbobpw\n", true, false, false);
        if o.well_behaved().is_err() || !o.ok() || f.as_deref() != Some(&d.plain[..]) {
            rep.violation("model/tty/retry-after-wrong-password", json!({"kind":"tty","case":"retry"}), format!("wrong then right password typed at a terminal stdin: {} (expected success with the full plaintext)", o.summary()));
        }
        // (b)
        let wout = Wiring { stdin_input: false, stdout_output: true, env_keyring: false, short_opts: false, alias: false, opts_first: false };
        let (o, _) = run_tty(d, &wout, "bobpw\n", true, true, true);
        if o.well_behaved().is_err() || o.ok() || o.tty_output.windows(8).any(|x| x == &d.plain[..8]) {
            rep.violation("model/tty/binary-output-to-terminal", json!({"kind":"tty","case":"stdout-tty"}), format!("decrypt with stdout attached to the terminal and no -o: {} (expected a refusal, exit 1, nothing written to the terminal)", o.summary()));
        }
        // (c)
        let win = Wiring { stdin_input: true, stdout_output: false, env_keyring: false, short_opts: false, alias: false, opts_first: false };
        let (o, f) = run_tty(d, &win, "bobpw\n", true, false, true);
        if o.well_behaved().is_err() || o.ok() || f.is_some() {
            rep.violation("model/tty/terminal-as-data-input", json!({"kind":"tty","case":"stdin-tty"}), format!("decrypt without FILE while stdin is a terminal: {} (expected a refusal, exit 1, no output file)", o.summary()));
        }
        rep.nontrivial(b"tty-model-cases");
    }
    rep.extra("logical_cases", json!(cases.iter().map(|c| c.name.clone()).collect::<Vec<_>>()));
    rep.extra("runs", json!(jobs.len()));
    rep.sample(json!({"case":"decrypt/valid-3-chunks-sender-last","wiring":{"input":"stdin","output":"stdout","keyring":"KESTREL_KEYRING","options":"short","command":"dec"},"expect":"exit 0; stdout == 131149 plaintext bytes; stderr 'Success. File from: alice' although decoy entries share 24 leading/trailing characters of alice's key"}));
    rep.sample(json!({"case":"decrypt/truncated-at-chunk-boundary","expect":"exit 1 with Error: under all 64 wirings"}));
    crate::c10::bounded_sink_cases(rep, "C12");
    rep.set_exhaustive(true);
}

pub fn replay(rep: &'static Report, case: &Value) {
    if case["kind"] == "bounded-sink" {
        crate::c10::bounded_sink_cases(rep, "C12");
        return;
    }
    let cases = logical_cases(rep.seed, rep.tier);
    let name = case["case"].as_str().unwrap_or("");
    let c = cases.iter().find(|c| c.name == name).unwrap_or_else(|| crate::report::machinery("unknown case"));
    if case["kind"] == "extra-wiring" {
        println!("  re-running C12 (extra wirings are part of the deterministic product)");
        run(rep);
        return;
    }
    if case["kind"] == "limit" {
        let w = Wiring { stdin_input: case["stdin"].as_bool().unwrap_or(false), stdout_output: false, env_keyring: false, short_opts: false, alias: false, opts_first: false };
        let (mut cmd, files, _) = build_cmd(c, &w);
        cmd.fsize_limit = case["limit"].as_u64();
        let sc = Scratch::new();
        for (n, d) in &files {
            sc.write(n, d);
        }
        let out = proc::run(&cmd, &sc.0);
        println!("  observed: {}", out.summary());
        if out.ok() || out.well_behaved().is_err() {
            rep.violation("replay/size-limited-output", case.clone(), out.summary());
        }
        return;
    }
    let b = |i: usize| case["wiring"][i].as_bool().unwrap_or(false);
    let w = Wiring { stdin_input: b(0), stdout_output: b(1), env_keyring: b(2), short_opts: b(3), alias: b(4), opts_first: b(5) };
    let base = Wiring { stdin_input: false, stdout_output: false, env_keyring: false, short_opts: false, alias: false, opts_first: false };
    match (run_one(c, &w), run_one(c, &base)) {
        (Err(e), _) => rep.violation("replay/model", case.clone(), e),
        (Ok(o), Ok(o0)) => {
            println!("  observed {:?}; baseline wiring {:?}", o, o0);
            if o != o0 {
                rep.violation("replay/differential", case.clone(), format!("{:?} vs {:?}", o, o0));
            }
        }
        (Ok(o), Err(e)) => println!("  observed {:?}; baseline wiring fails the model: {}", o, e),
    }
}

/// The fixed private key whose public key has a "case twin" (see CASE_TWIN): chosen once, independent of the seed.
pub const CASE_SK: [u8; 32] = [0x43, 0x31, 0x32, 0x2d, 0x63, 0x61, 0x73, 0x65, 0x2d, 0x74, 0x77, 0x69, 0x6e, 0x2d, 0x73, 0x65, 0x6e, 0x64, 0x65, 0x72, 0x2d, 0x6b, 0x65, 0x79, 0x2d, 0x76, 0x31, 0x00, 0x00, 0x00, 0x00, 0x01];

/// Encoding of another key that equals the encoding of CASE_SK's public key up to the case of ASCII letters (valid checksum).
pub const CASE_TWIN: &str = "A4LqLp8+MNCm0sj7gzKgiRayuXeNxkdke2pNT/UZ0B3ofbyr";

/// `kv find-case-twin`: search for a 32-byte key different from the public key of CASE_SK whose keyring encoding (base64
/// of key || 4-byte SHA-256 checksum) equals that key's encoding up to the case of ASCII letters. One-off tool; its
/// result is the constant CASE_TWIN.
pub fn find_case_twin() {
    let pk = r::x25519_base(&CASE_SK);
    let enc = r::encode_pk(&pk);
    println!("public key encoding: {}", enc);
    let chars: Vec<char> = enc.chars().collect();
    // letters among the first 42 characters (they decode to key bytes only)
    let letter_pos: Vec<usize> = (0..42).filter(|&i| chars[i].is_ascii_alphabetic()).collect();
    println!("{} letters in the key part", letter_pos.len());
    let nbits = letter_pos.len().min(34);
    let found = (1u64..(1u64 << nbits)).into_par_iter().find_any(|mask| {
        let mut c = chars.clone();
        for (b, &p) in letter_pos.iter().enumerate().take(nbits) {
            if mask >> b & 1 == 1 {
                c[p] = if c[p].is_ascii_lowercase() { c[p].to_ascii_uppercase() } else { c[p].to_ascii_lowercase() };
            }
        }
        // decode the first 43 characters' worth of key bytes: take the 44-char prefix (33 bytes), keep 32
        let s: String = c.iter().collect();
        let head = match r::b64_decode(&format!("{}AAAA", &s[..44])) {
            Some(v) => v,
            None => return false,
        };
        let mut k = [0u8; 32];
        k.copy_from_slice(&head[..32]);
        // characters 42..44 straddle key byte 31 and the checksum: only accept if re-encoding agrees up to case
        let e2 = r::encode_pk(&k);
        e2 != enc && e2.eq_ignore_ascii_case(&enc)
    });
    match found {
        Some(mask) => {
            let mut c = chars.clone();
            for (b, &p) in letter_pos.iter().enumerate().take(nbits) {
                if mask >> b & 1 == 1 {
                    c[p] = if c[p].is_ascii_lowercase() { c[p].to_ascii_uppercase() } else { c[p].to_ascii_lowercase() };
                }
            }
            let s: String = c.iter().collect();
            let head = r::b64_decode(&format!("{}AAAA", &s[..44])).unwrap();
            let mut k = [0u8; 32];
            k.copy_from_slice(&head[..32]);
            println!("twin: {}", r::encode_pk(&k));
        }
        None => println!("no twin found in 2^{} masks", nbits),
    }
}
