//! Fixtures for CLI-level checks: identities with locked keys and keyring texts, built by REF.
#![allow(dead_code)]

use crate::refspec as r;
use crate::util::*;

#[derive(Clone, Debug)]
pub struct Party {
    pub name: String,
    pub sk: [u8; 32],
    pub pk: [u8; 32],
    pub pk_enc: String,
    pub password: String,
    pub locked: String,
}

impl Party {
    pub fn new(seed: u64, name: &str, password: &str) -> Party {
        let sk = derive32(seed, &format!("party-{}", name));
        let pk = r::x25519_base(&sk);
        let salt = derive32(seed, &format!("party-salt-{}", name));
        let locked = r::b64(&r::lock_key(&sk, password.as_bytes(), &salt));
        Party { name: name.to_string(), sk, pk, pk_enc: r::encode_pk(&pk), password: password.to_string(), locked }
    }
    pub fn entry(&self, with_private: bool) -> String {
        crate::proc::keyring_entry(&self.name, &self.pk_enc, if with_private { Some(&self.locked) } else { None })
    }
}

pub fn keyring(parts: &[(&Party, bool)]) -> String {
    parts.iter().map(|(p, w)| p.entry(*w)).collect::<Vec<_>>().join("\n")
}
