//! The streaming subjects (real code) behind one uniform, replayable interface.
#![allow(dead_code)]

use crate::env::*;
use crate::util::*;
use kestrel_crypto::decrypt as kd;
use kestrel_crypto::encrypt as ke;
use kestrel_crypto::errors::{DecryptError, EncryptError};
use kestrel_crypto::{AsymFileFormat, PassFileFormat, PayloadKey};
use serde::{Deserialize, Serialize};
use serde_json::json;

#[derive(Clone, Debug, Serialize, Deserialize)]
pub enum Subject {
    TinyEnc { key: String, aad: String, cs: u32 },
    TinyDec { key: String, aad: String, cs: u32 },
    /// e/payload: hex or empty for "left to the implementation"
    KeyEnc { s: String, s_pub: String, r_pub: String, e: String, payload: String },
    KeyDec { r: String, r_pub: String },
    PassEnc { pw: String, salt: String },
    PassDec { pw: String },
}

#[derive(Clone, Copy, PartialEq, Eq, Debug, Serialize, Deserialize)]
pub enum ErrKind {
    IORead,
    IOWrite,
    UnexpectedData,
    ChunkLen,
    Auth,
    Other,
}

#[derive(Clone, PartialEq, Eq, Debug)]
pub enum Res {
    /// Ok; for key decryption the reported sender key
    Ok(Option<Vec<u8>>),
    Err(ErrKind, String),
    Panic(String),
}

impl Res {
    pub fn is_ok(&self) -> bool {
        matches!(self, Res::Ok(_))
    }
    pub fn brief(&self) -> String {
        match self {
            Res::Ok(None) => "Ok".into(),
            Res::Ok(Some(k)) => format!("Ok(sender={})", hx(k)),
            Res::Err(k, m) => format!("Err({:?}: {})", k, m),
            Res::Panic(m) => format!("PANIC({})", m),
        }
    }
}

fn enc_err(e: EncryptError) -> Res {
    let m = e.to_string();
    match e {
        EncryptError::IORead(_) => Res::Err(ErrKind::IORead, m),
        EncryptError::IOWrite(_) => Res::Err(ErrKind::IOWrite, m),
        EncryptError::UnexpectedData => Res::Err(ErrKind::UnexpectedData, m),
        EncryptError::Other(_) => Res::Err(ErrKind::Other, m),
        // a variant added by a change to /repo must not stop the harness from compiling
        #[allow(unreachable_patterns)]
        _ => Res::Err(ErrKind::Other, m),
    }
}

pub fn dec_err(e: DecryptError) -> Res {
    let m = e.to_string();
    match e {
        DecryptError::IORead(_) => Res::Err(ErrKind::IORead, m),
        DecryptError::IOWrite(_) => Res::Err(ErrKind::IOWrite, m),
        DecryptError::UnexpectedData => Res::Err(ErrKind::UnexpectedData, m),
        DecryptError::ChunkLen => Res::Err(ErrKind::ChunkLen, m),
        DecryptError::ChaPolyDecrypt => Res::Err(ErrKind::Auth, m),
        DecryptError::Other(_) => Res::Err(ErrKind::Other, m),
        #[allow(unreachable_patterns)]
        _ => Res::Err(ErrKind::Other, m),
    }
}

fn a32(h: &str) -> [u8; 32] {
    unhx(h).try_into().unwrap_or([0u8; 32])
}

/// Run the subject once over arbitrary Read/Write objects.
pub fn run_rw<R: std::io::Read, W: std::io::Write>(sub: &Subject, src: &mut R, sink: &mut W) -> Res {
    let r = guarded(|| match sub {
        Subject::TinyEnc { key, aad, cs } => match ke::verif_encrypt_chunks(src, sink, &unhx(key), &unhx(aad), *cs) {
            Ok(()) => Res::Ok(None),
            Err(e) => enc_err(e),
        },
        Subject::TinyDec { key, aad, cs } => match kd::verif_decrypt_chunks(src, sink, &unhx(key), &unhx(aad), *cs) {
            Ok(()) => Res::Ok(None),
            Err(e) => dec_err(e),
        },
        Subject::KeyEnc { s, s_pub, r_pub, e, payload } => {
            let sk = privkey(&a32(s));
            let spk = pubkey(&a32(s_pub));
            let rpk = pubkey(&a32(r_pub));
            let (ek, epk) = if e.is_empty() {
                (None, None)
            } else {
                let e = a32(e);
                (Some(privkey(&e)), Some(pubkey(&crate::refspec::x25519_base(&e))))
            };
            let pk = if payload.is_empty() { None } else { Some(PayloadKey::new(&unhx(payload))) };
            match ke::key_encrypt(src, sink, &sk, &spk, &rpk, ek.as_ref(), epk.as_ref(), pk.as_ref(), AsymFileFormat::V1) {
                Ok(()) => Res::Ok(None),
                Err(e) => enc_err(e),
            }
        }
        Subject::KeyDec { r, r_pub } => {
            let rk = privkey(&a32(r));
            let rpk = pubkey(&a32(r_pub));
            match kd::key_decrypt(src, sink, &rk, &rpk, AsymFileFormat::V1) {
                Ok(pk) => Res::Ok(Some(pk.as_bytes().to_vec())),
                Err(e) => dec_err(e),
            }
        }
        Subject::PassEnc { pw, salt } => match ke::pass_encrypt(src, sink, &unhx(pw), a32(salt), PassFileFormat::V1) {
            Ok(()) => Res::Ok(None),
            Err(e) => enc_err(e),
        },
        Subject::PassDec { pw } => match kd::pass_decrypt(src, sink, &unhx(pw), PassFileFormat::V1) {
            Ok(()) => Res::Ok(None),
            Err(e) => dec_err(e),
        },
    });
    match r {
        Ok(res) => res,
        Err(p) => Res::Panic(p),
    }
}

/// Run the subject once over the scripted environment.
pub fn run_env(sub: &Subject, env: &EnvRef) -> Res {
    let mut src = Src(env.clone());
    let mut sink = Sink(env.clone());
    run_rw(sub, &mut src, &mut sink)
}

/// Run over plain in-memory objects (all default answers); returns (result, output)
pub fn run_plain(sub: &Subject, input: &[u8]) -> (Res, Vec<u8>) {
    let mut out = Vec::new();
    let mut inp = input;
    let r = run_rw(sub, &mut inp, &mut out);
    (r, out)
}

/// A replayable E-ENV case.
#[derive(Clone, Debug, Serialize, Deserialize)]
pub struct Case {
    pub subject: Subject,
    pub src: String,
    pub menu: Menu,
    pub tape: Vec<u16>,
}

impl Case {
    pub fn new(subject: &Subject, src: &[u8], menu: Menu, env: &Env) -> Case {
        Case { subject: subject.clone(), src: hx(src), menu, tape: env.choices() }
    }
    pub fn json(&self, extra: serde_json::Value) -> serde_json::Value {
        json!({"env_case": serde_json::to_value(self).unwrap(), "extra": extra})
    }
    pub fn from_json(v: &serde_json::Value) -> Option<Case> {
        serde_json::from_value(v["env_case"].clone()).ok()
    }
    pub fn run(&self) -> (Env, Res) {
        let sub = self.subject.clone();
        run_tape(&unhx(&self.src), self.menu, &self.tape, &move |e| run_env(&sub, e))
    }
}

/// Human-readable rendering of the answers along a tape
pub fn describe(env: &Env) -> String {
    let mut s = vec![];
    for p in &env.points {
        let (a, c) = p.alts[p.chosen];
        if c != Class::Default {
            s.push(format!("{:?}#{}->{:?}", p.kind, s.len(), a));
        }
    }
    let mut out = vec![];
    for (i, p) in env.points.iter().enumerate() {
        let (a, c) = p.alts[p.chosen];
        if c != Class::Default {
            out.push(format!("call{}:{:?}={:?}", i, p.kind, a));
        }
    }
    let _ = s;
    if out.is_empty() {
        "all-default".into()
    } else {
        out.join(",")
    }
}
