//! C01 — key-mode round trip, sender reported (E-ENV: exhaustive read partitions, bounded write partitions).
use crate::env::*;
use crate::refspec as r;
use crate::report::{Report, Tier};
use crate::streams::*;
use crate::util::*;
use rayon::prelude::*;
use serde_json::{json, Value};
use std::collections::HashSet;
use std::sync::atomic::{AtomicU64, Ordering};
use std::sync::Mutex;

pub const CS: u32 = 65536;

/// Oracle for one complete encryption execution: Ok, and the produced file decrypts (real decryptor,
/// default answers) to exactly P, naming `sender` if given.
pub fn check_encryption(
    rep: &Report,
    clause_prefix: &str,
    enc: &Subject,
    dec: &Subject,
    p: &[u8],
    menu: Menu,
    env: &Env,
    res: &Res,
    sender: Option<&[u8; 32]>,
    already_decrypted: Option<&Mutex<HashSet<Vec<u8>>>>,
) -> bool {
    let mk = |what: &str| Case::new(enc, p, menu, env).json(json!({"phase":"enc","dec":serde_json::to_value(dec).unwrap(),"sender":sender.map(|s| hx(s)),"what":what}));
    if !res.is_ok() {
        rep.violation(
            &format!("{}enc-not-ok", clause_prefix),
            mk("enc-result"),
            format!("encryption of {} bytes under fault-free schedule [{}] returned {}", p.len(), describe(env), res.brief()),
        );
        return false;
    }
    if let Some(seen) = already_decrypted {
        if !seen.lock().unwrap().insert(env.sink.clone()) {
            return true;
        }
    }
    let (dres, out) = run_plain(dec, &env.sink);
    match &dres {
        Res::Ok(got_sender) => {
            if out != p {
                rep.violation(
                    &format!("{}roundtrip-bytes", clause_prefix),
                    mk("roundtrip"),
                    format!("decrypt(encrypt(P)) != P for |P|={} schedule [{}]: got {} bytes", p.len(), describe(env), out.len()),
                );
                return false;
            }
            if let Some(s) = sender {
                if got_sender.as_deref() != Some(&s[..]) {
                    rep.violation(
                        &format!("{}sender", clause_prefix),
                        mk("sender"),
                        format!("decryption reports sender {:?}, expected {}", got_sender.as_ref().map(|k| hx(k)), hx(s)),
                    );
                    return false;
                }
            }
            true
        }
        _ => {
            rep.violation(
                &format!("{}roundtrip-rejected", clause_prefix),
                mk("roundtrip"),
                format!("file produced from |P|={} under schedule [{}] does not decrypt: {}", p.len(), describe(env), dres.brief()),
            );
            false
        }
    }
}

/// Oracle for one complete decryption execution of an authentic file.
pub fn check_decryption(rep: &Report, clause_prefix: &str, dec: &Subject, ct: &[u8], p: &[u8], menu: Menu, env: &Env, res: &Res, sender: Option<&[u8; 32]>) -> bool {
    let mk = || Case::new(dec, ct, menu, env).json(json!({"phase":"dec","plain":hx(p),"sender":sender.map(|s| hx(s))}));
    match res {
        Res::Ok(got) => {
            if env.sink != p {
                rep.violation(
                    &format!("{}dec-bytes", clause_prefix),
                    mk(),
                    format!("decryption under schedule [{}] wrote {} bytes != P ({} bytes)", describe(env), env.sink.len(), p.len()),
                );
                return false;
            }
            if let Some(s) = sender {
                if got.as_deref() != Some(&s[..]) {
                    rep.violation(&format!("{}dec-sender", clause_prefix), mk(), "wrong sender reported".into());
                    return false;
                }
            }
            true
        }
        _ => {
            rep.violation(
                &format!("{}dec-not-ok", clause_prefix),
                mk(),
                format!("decryption of an authentic file under fault-free schedule [{}] returned {}", describe(env), res.brief()),
            );
            false
        }
    }
}

pub fn tiny_scope(rep: &Report, aad: &[u8], label: &str) {
    let seed = rep.seed;
    let key = derive32(seed, &format!("{}-tiny-key", label));
    let css: Vec<u32> = rep.tier.pick(vec![1, 2, 3, 4], vec![1, 2, 3, 4, 5]);
    let mut items = vec![];
    for &cs in &css {
        for l in 0..=(3 * cs as usize + 1) {
            items.push((cs, l));
        }
    }
    // largest first for load balance
    items.sort_by_key(|&(cs, l)| std::cmp::Reverse(l * 10 + cs as usize));
    let enc_execs = AtomicU64::new(0);
    let dec_execs = AtomicU64::new(0);
    let n_ct = AtomicU64::new(0);
    items.par_iter().for_each(|&(cs, l)| {
        let p = plaintext(seed ^ (l as u64) << 8, l);
        let enc = Subject::TinyEnc { key: hx(&key), aad: hx(aad), cs };
        let dec = Subject::TinyDec { key: hx(&key), aad: hx(aad), cs };
        let cts: Mutex<HashSet<Vec<u8>>> = Mutex::new(HashSet::new());
        // E1: every read partition (exhaustive) x default writes
        let menu1 = Menu::shorts(ReadMode::Exhaustive, false).no_record();
        let st = explore(&p, menu1, Budget::new(Budget::UNLIMITED, 0, 0), &|e| run_env(&enc, e), &|env, res| {
            check_encryption(rep, &format!("{}/tiny-", label), &enc, &dec, &p, menu1, env, res, None, Some(&cts));
        })
        .unwrap_or_else(|e| crate::report::machinery(&e));
        enc_execs.fetch_add(st.executions, Ordering::Relaxed);
        // E2: <= 2 short reads (any size) x <= bw short writes
        let (br, bw) = rep.tier.pick((2, 2), (3, 3));
        let menu2 = Menu::shorts(ReadMode::Exhaustive, true).no_record();
        let st = explore(&p, menu2, Budget::new(br, bw, 0), &|e| run_env(&enc, e), &|env, res| {
            check_encryption(rep, &format!("{}/tiny-", label), &enc, &dec, &p, menu2, env, res, None, Some(&cts));
        })
        .unwrap_or_else(|e| crate::report::machinery(&e));
        enc_execs.fetch_add(st.executions, Ordering::Relaxed);
        let cts = cts.into_inner().unwrap();
        n_ct.fetch_add(cts.len() as u64, Ordering::Relaxed);
        // REF cross-check + decryption under short reads/writes for each distinct ciphertext
        let dmenu = Menu::shorts(ReadMode::Bounded, true).no_record();
        let mut sorted: Vec<&Vec<u8>> = cts.iter().collect();
        sorted.sort();
        sorted.par_iter().for_each(|ct| {
            rep.nontrivial(&[label.as_bytes(), &[cs as u8], &ct[..]].concat());
            let k = match r::read_chunks(&key, aad, ct, cs) {
                Ok(parsed) if parsed.plaintext == p => parsed.chunking.len(),
                other => {
                    rep.violation(
                        &format!("{}/tiny-ref-disagrees", label),
                        json!({"kind":"ref-parse","cs":cs,"key":hx(&key),"aad":hx(aad),"ct":hx(ct),"plain":hx(&p)}),
                        format!("reference reader does not recover P from the produced stream (cs={}, |P|={}): {:?}", cs, l, other.map(|p| p.chunking).map_err(|e| e.0)),
                    );
                    return;
                }
            };
            // deviation budget by number of chunks
            let total = match rep.tier {
                Tier::Quick => if k <= 5 { 2 } else { 1 },
                Tier::Thorough => if k <= 4 { 3 } else if k <= 9 { 2 } else { 1 },
            };
            if total == 0 {
                return; // the default-answer decryption was already checked with the encryption
            }
            let mut b = Budget::new(3, 3, 0);
            b.shorts_total = total;
            let st = explore(ct, dmenu, b, &|e| run_env(&dec, e), &|env, res| {
                check_decryption(rep, &format!("{}/tiny-", label), &dec, ct, &p, dmenu, env, res, None);
            })
            .unwrap_or_else(|e| crate::report::machinery(&e));
            dec_execs.fetch_add(st.executions, Ordering::Relaxed);
        });
    });
    rep.eval(enc_execs.load(Ordering::Relaxed) + dec_execs.load(Ordering::Relaxed));
    rep.extra_add("tiny_encrypt_executions", enc_execs.load(Ordering::Relaxed));
    rep.extra_add("tiny_decrypt_executions", dec_execs.load(Ordering::Relaxed));
    rep.extra_add("tiny_distinct_ciphertexts", n_ct.load(Ordering::Relaxed));
    rep.extra("tiny_chunk_sizes", json!(css));
    rep.sample(json!({"scope":"tiny","label":label,"cs":3,"L":10,"reads":"every composition of 10 into parts <= 3 (274), then EOF","writes":"each write call: full | 1 | len-1, budget per tier"}));
}

/// State carried from one call to the next inside one thread, across modes: every ordered pair and triple of
/// {password encrypt, password decrypt, key encrypt, key decrypt} (two plaintext lengths) runs on a FRESH thread; every
/// file any call writes must be the conforming file (read by REF, which shares no state with the code under test) and
/// every decryption of a REF-written file must return the plaintext.
fn cross_mode_sequences(rep: &Report) {
    let seed = rep.seed;
    let ids = idents(seed);
    let (s, rc) = (ids[0].clone(), ids[2].clone());
    let salt = derive32(seed, "c01-seq-salt");
    let pw = b"c01 sequence password".to_vec();
    let pkey = r::pass_key(&pw, &salt);
    let lens = [5usize, CS as usize + 3];
    // op codes: 0 pass-enc, 1 pass-dec, 2 key-enc, 3 key-dec
    let mut seqs: Vec<Vec<(u8, usize)>> = vec![];
    for a in 0..4u8 {
        for b in 0..4u8 {
            seqs.push(vec![(a, 0), (b, 1)]);
            for c in 0..4u8 {
                if rep.tier == Tier::Thorough || (a != b && b != c) {
                    seqs.push(vec![(a, 1), (b, 0), (c, 1)]);
                }
            }
        }
    }
    let nseq = seqs.len();
    let handles: Vec<_> = seqs
        .into_iter()
        .map(|sq| {
            let (s, rc, pw) = (s.clone(), rc.clone(), pw.clone());
            std::thread::spawn(move || -> Result<(), String> {
                for (step, &(op, li)) in sq.iter().enumerate() {
                    let l = lens[li];
                    let p = plaintext(seed ^ 0x1e ^ (step as u64) << 4 ^ l as u64, l);
                    let ch: Vec<usize> = if l > CS as usize { vec![CS as usize, l - CS as usize] } else { vec![l] };
                    let what = format!("step {} of {:?} ({} bytes)", step + 1, sq.iter().map(|x| ["pass-enc", "pass-dec", "key-enc", "key-dec"][x.0 as usize]).collect::<Vec<_>>(), l);
                    match op {
                        0 => {
                            let (res, out) = run_plain(&Subject::PassEnc { pw: hx(&pw), salt: hx(&salt) }, &p);
                            if !res.is_ok() || !matches!(r::read_pass_file_with_key(&pkey, &out), Ok(k) if k.plaintext == p) {
                                return Err(format!("{}: pass_encrypt did not write the conforming file ({})", what, res.brief()));
                            }
                        }
                        1 => {
                            let f = r::write_pass_file_with_key(&pkey, &salt, &p, &ch);
                            let (res, out) = run_plain(&Subject::PassDec { pw: hx(&pw) }, &f);
                            if !res.is_ok() || out != p {
                                return Err(format!("{}: pass_decrypt of a conforming file failed or returned other bytes ({})", what, res.brief()));
                            }
                        }
                        2 => {
                            let (res, out) = run_plain(&Subject::KeyEnc { s: hx(&s.sk), s_pub: hx(&s.pk), r_pub: hx(&rc.pk), e: String::new(), payload: String::new() }, &p);
                            if !res.is_ok() || !matches!(r::read_key_file(&rc.sk, &out), Ok(k) if k.parsed.plaintext == p && k.sender == s.pk) {
                                return Err(format!("{}: key_encrypt did not write a file that the recipient's key opens ({})", what, res.brief()));
                            }
                        }
                        _ => {
                            let f = r::write_key_file(&s.sk, &rc.pk, &derive32(seed, "c01-seq-e"), &derive32(seed, "c01-seq-p"), &p, &ch).unwrap();
                            let (res, out) = run_plain(&Subject::KeyDec { r: hx(&rc.sk), r_pub: hx(&rc.pk) }, &f);
                            if !res.is_ok() || out != p {
                                return Err(format!("{}: key_decrypt of a conforming file failed or returned other bytes ({})", what, res.brief()));
                            }
                        }
                    }
                }
                Ok(())
            })
        })
        .collect();
    for (i, h) in handles.into_iter().enumerate() {
        rep.eval(1);
        rep.nontrivial(format!("cross-mode-seq-{}", i).as_bytes());
        match h.join() {
            Ok(Ok(())) => {}
            Ok(Err(e)) => rep.violation("C01/cross-mode-sequence", json!({"kind":"cross-mode","i":i}), e),
            Err(_) => rep.violation("C01/cross-mode-sequence", json!({"kind":"cross-mode","i":i}), "worker thread panicked".into()),
        }
    }
    rep.extra("cross_mode_sequences", json!(nseq));
}

/// "For every sender and recipient key pair": key pairs chosen by value and by the shape of their public key (see
/// c06::shaped_idents), as sender and as recipient, one-chunk and two-chunk plaintexts, through the public API; the
/// file is cross-read by REF and REF's file is decrypted by the code under test.
fn shaped_key_pairs(rep: &Report) {
    let seed = rep.seed;
    let ids = idents(seed);
    let shaped = crate::c06::shaped_idents(seed);
    let mut jobs = vec![];
    for (i, _) in shaped.iter().enumerate() {
        for role in 0..3u8 {
            for l in [0usize, 40, CS as usize + 1] {
                jobs.push((i, role, l));
            }
        }
    }
    jobs.par_iter().for_each(|&(i, role, l)| {
        rep.eval(1);
        let k = &shaped[i];
        // role 0: shaped key is the sender; 1: the recipient; 2: both
        let (s, rc): (&Ident, &Ident) = match role { 0 => (k, &ids[2]), 1 => (&ids[0], k), _ => (k, k) };
        rep.nontrivial(format!("shaped-{}-{}-{}", k.name, role, l).as_bytes());
        let p = plaintext(seed ^ 0x1f, l);
        let case = json!({"kind":"cross-mode","shaped":k.name,"role":role,"len":l});
        let (res, out) = run_plain(&Subject::KeyEnc { s: hx(&s.sk), s_pub: hx(&s.pk), r_pub: hx(&rc.pk), e: String::new(), payload: String::new() }, &p);
        if !res.is_ok() || !matches!(r::read_key_file(&rc.sk, &out), Ok(kf) if kf.parsed.plaintext == p && kf.sender == s.pk) {
            rep.violation("C01/key-pair-by-shape-encrypt", case.clone(), format!("key_encrypt with the honest key pair '{}' as {} does not produce a file its recipient can read: {}", k.name, ["sender", "recipient", "sender and recipient"][role as usize], res.brief()));
            return;
        }
        let (res, back) = run_plain(&Subject::KeyDec { r: hx(&rc.sk), r_pub: hx(&rc.pk) }, &out);
        if !matches!(&res, Res::Ok(snd) if snd.as_deref() == Some(&s.pk[..])) || back != p {
            rep.violation("C01/key-pair-by-shape-decrypt", case, format!("key_decrypt with the honest key pair '{}' as {} fails or misreports: {}", k.name, ["sender", "recipient", "sender and recipient"][role as usize], res.brief()));
        }
    });
    rep.extra("shaped_key_pair_cases", json!(jobs.len()));
}

/// The FILE argument names a file through a symbolic link to a directory followed by `..` (the kernel resolves the link
/// first: `lnk/../x` is NOT `./x`), through `./`, `a/../`, and a doubled slash: the round trip returns the bytes of the
/// file the operating system resolves the name to. A different file of the same name sits where a textual clean-up of the
/// name would point.
fn cli_path_spellings(rep: &Report) {
    use crate::fx::Party;
    use crate::proc::{self, Cmd, Scratch};
    let seed = rep.seed;
    let alice = Party::new(seed, "alice", "alicepw");
    let bob = Party::new(seed, "bob", "bobpw");
    let kr = crate::fx::keyring(&[(&alice, true), (&bob, true)]);
    let real = plaintext(seed ^ 0x1a7, 900);
    let decoy = plaintext(seed ^ 0x1a8, 900);
    let spellings = ["lnk/../plain.bin", "./elsewhere/plain.bin", "elsewhere/sub/../plain.bin", "elsewhere//plain.bin", "lnk/../../elsewhere/plain.bin", "lnk2/plain.bin"];
    spellings.par_iter().for_each(|sp| {
        rep.eval(1);
        rep.nontrivial(format!("cli-path-spelling-{}", sp).as_bytes());
        let attempt = || -> Result<(), String> {
            let sc = Scratch::new();
            std::fs::create_dir_all(sc.0.join("elsewhere/sub")).map_err(|e| format!("MACHINERY: {}", e))?;
            sc.write("kr.txt", kr.as_bytes());
            sc.write("elsewhere/plain.bin", &real);
            sc.write("plain.bin", &decoy);
            sc.write("elsewhere/sub/plain.bin", &decoy);
            std::os::unix::fs::symlink("elsewhere/sub", sc.0.join("lnk")).map_err(|e| format!("MACHINERY: {}", e))?;
            std::os::unix::fs::symlink("elsewhere", sc.0.join("lnk2")).map_err(|e| format!("MACHINERY: {}", e))?;
            let o = proc::run(&Cmd::new(&["encrypt", sp, "-t", "bob", "-f", "alice", "-k", "kr.txt", "-o", "ct.ktl", "--env-pass"]).env("KESTREL_PASSWORD", "alicepw"), &sc.0);
            o.well_behaved()?;
            if !o.ok() {
                return Err(format!("encrypt {} fails although the file exists: {}", sp, o.summary()));
            }
            let o = proc::run(&Cmd::new(&["decrypt", "ct.ktl", "-t", "bob", "-k", "kr.txt", "-o", "back.bin", "--env-pass"]).env("KESTREL_PASSWORD", "bobpw"), &sc.0);
            o.well_behaved()?;
            let back = sc.read("back.bin").unwrap_or_default();
            if !o.ok() || back != real {
                return Err(format!("encrypt {} then decrypt returns {}: {}", sp, if back == decoy { "the bytes of ANOTHER file of the same name (the one a textual clean-up of the path points to)".to_string() } else { format!("{} bytes that are not the file's", back.len()) }, o.summary()));
            }
            if !o.stderr.split(|c: char| !c.is_alphanumeric()).any(|t| t == "alice") {
                return Err("the sender alice is not named".into());
            }
            Ok(())
        };
        if let Err(e) = attempt() {
            if e.starts_with("MACHINERY") {
                crate::report::machinery(&e);
            }
            if let Err(e2) = attempt() {
                rep.violation("cli/path-spelling", json!({"kind":"cli-path","spelling":sp}), e2);
            }
        }
    });
    rep.extra("cli_path_spellings", json!(spellings.len()));
}

/// Key names are arbitrary text: names containing '=', several '=', a trailing '=', blanks inside, non-ASCII. The round trip
/// through the program works under those names and the sender is reported by its full name.
fn cli_unusual_names(rep: &Report) {
    use crate::proc::{self, Cmd, Scratch};
    let seed = rep.seed;
    let pairs = [("alice=work", "bob=home"), ("a=b=c", "x="), ("ops=alice", "ops=bob"), ("name with  blanks", "\u{fc}n\u{ef} c\u{f8}de"), ("=", "==")];
    pairs.par_iter().for_each(|(sn, rn)| {
        rep.eval(1);
        rep.nontrivial(format!("cli-unusual-names-{}-{}", sn, rn).as_bytes());
        let ssk = derive32(seed, &format!("c01-name-s-{}", sn));
        let rsk = derive32(seed, &format!("c01-name-r-{}", rn));
        let locked = |sk: &[u8; 32], pw: &str| r::b64(&r::lock_key(sk, pw.as_bytes(), &derive32(seed, &format!("c01-name-salt-{}", pw))));
        let kr = format!("{}\n{}", proc::keyring_entry(sn, &r::encode_pk(&r::x25519_base(&ssk)), Some(&locked(&ssk, "spw"))), proc::keyring_entry(rn, &r::encode_pk(&r::x25519_base(&rsk)), Some(&locked(&rsk, "rpw"))));
        let p = plaintext(seed ^ 0x1a9, 777);
        let attempt = || -> Result<(), String> {
            let sc = Scratch::new();
            sc.write("kr.txt", kr.as_bytes());
            sc.write("plain.bin", &p);
            let o = proc::run(&Cmd::new(&["encrypt", "plain.bin", "-t", rn, "-f", sn, "-k", "kr.txt", "-o", "ct.ktl", "--env-pass"]).env("KESTREL_PASSWORD", "spw"), &sc.0);
            o.well_behaved()?;
            if !o.ok() {
                return Err(format!("encrypt -f {:?} -t {:?} fails although both entries are in the keyring: {}", sn, rn, o.summary()));
            }
            let o = proc::run(&Cmd::new(&["decrypt", "ct.ktl", "-t", rn, "-k", "kr.txt", "-o", "back.bin", "--env-pass"]).env("KESTREL_PASSWORD", "rpw"), &sc.0);
            o.well_behaved()?;
            if !o.ok() || sc.read("back.bin").as_deref() != Some(&p[..]) {
                return Err(format!("decrypt -t {:?} does not return the plaintext: {}", rn, o.summary()));
            }
            if !o.stderr.contains(*sn) {
                return Err(format!("the sender, filed under the name {:?}, is not reported by that name: {:?}", sn, o.stderr));
            }
            Ok(())
        };
        if attempt().is_err() {
            if let Err(e) = attempt() {
                rep.violation("cli/unusual-key-names", json!({"kind":"cli-names","sender":sn,"recipient":rn}), e);
            }
        }
    });
    rep.extra("cli_unusual_name_pairs", json!(pairs.len()));
}

/// All four ways of supplying the optional ephemeral pair (both halves, none, private only, public only) x payload key given
/// or not x three lengths: the file decrypts to the plaintext and names the sender.
fn ephemeral_option_combinations(rep: &Report) {
    let seed = rep.seed;
    let ids = idents(seed);
    let e = derive32(seed, "c01-opt-e");
    let e_pub = r::x25519_base(&e);
    let pay = derive32(seed, "c01-opt-pay");
    let mut jobs = vec![];
    for l in [0usize, 13, CS as usize + 1] {
        for m in 0..8u8 {
            jobs.push((l, m));
        }
    }
    jobs.par_iter().for_each(|&(l, m)| {
        rep.eval(1);
        rep.nontrivial(format!("ephemeral-options-{}-{}", l, m).as_bytes());
        let p = plaintext(seed ^ 0x1aa, l);
        let ek = if m & 1 != 0 { Some(kestrel_crypto::PrivateKey::try_from(&e[..]).unwrap()) } else { None };
        let epk = if m & 2 != 0 { Some(kestrel_crypto::PublicKey::try_from(&e_pub[..]).unwrap()) } else { None };
        let pk = if m & 4 != 0 { Some(kestrel_crypto::PayloadKey::new(&pay)) } else { None };
        let what = format!("key_encrypt(ephemeral: {}, ephemeral_public: {}, payload_key: {}) of {} bytes", if m & 1 != 0 { "Some" } else { "None" }, if m & 2 != 0 { "Some" } else { "None" }, if m & 4 != 0 { "Some" } else { "None" }, l);
        let case = json!({"kind":"ephemeral-options","len":l,"mask":m});
        let mut out = Vec::new();
        let mut src: &[u8] = &p;
        match guarded(|| kestrel_crypto::encrypt::key_encrypt(&mut src, &mut out, &ids[0].private(), &ids[0].public(), &ids[1].public(), ek.as_ref(), epk.as_ref(), pk.as_ref(), kestrel_crypto::AsymFileFormat::V1).map_err(|e| e.to_string())) {
            Err(pm) => rep.violation("lib/ephemeral-options", case, format!("{} panicked: {}", what, pm)),
            Ok(Err(e)) => rep.violation("lib/ephemeral-options", case, format!("{} failed: {}", what, e)),
            Ok(Ok(())) => {
                let (res, back) = run_plain(&Subject::KeyDec { r: hx(&ids[1].sk), r_pub: hx(&ids[1].pk) }, &out);
                let sender_ok = matches!(&res, Res::Ok(Some(k)) if k[..] == ids[0].pk[..]);
                if !sender_ok || back != p {
                    rep.violation("lib/ephemeral-options", case, format!("the file written by {} does not decrypt to the plaintext with the sender named: {}", what, res.brief()));
                }
            }
        }
    });
    rep.extra("ephemeral_option_combinations", json!(jobs.len()));
    // "every ephemeral randomness": 2048 different supplied ephemeral keys x 2 key pairs, a 5-byte plaintext (a refusal that
    // depends on the VALUE of a shared secret -- one in 256 -- shows here)
    let fails = std::sync::atomic::AtomicU64::new(0);
    (0..2048u32).into_par_iter().for_each(|i| {
        for (si, ri) in [(0usize, 1usize), (2, 3)] {
            rep.eval(1);
            let e = derive32(seed, &format!("c01-many-e-{}", i));
            let ek = kestrel_crypto::PrivateKey::try_from(&e[..]).unwrap();
            let epk = kestrel_crypto::PublicKey::try_from(&r::x25519_base(&e)[..]).unwrap();
            let mut out = Vec::new();
            let mut src: &[u8] = b"hello";
            let ok = guarded(|| kestrel_crypto::encrypt::key_encrypt(&mut src, &mut out, &ids[si].private(), &ids[si].public(), &ids[ri].public(), Some(&ek), Some(&epk), Some(&kestrel_crypto::PayloadKey::new(&pay)), kestrel_crypto::AsymFileFormat::V1).is_ok()) == Ok(true);
            let back = if ok { run_plain(&Subject::KeyDec { r: hx(&ids[ri].sk), r_pub: hx(&ids[ri].pk) }, &out) } else { (Res::Err(crate::streams::ErrKind::Other, "encrypt failed".into()), vec![]) };
            if !ok || !back.0.is_ok() || back.1 != b"hello" {
                if fails.fetch_add(1, std::sync::atomic::Ordering::Relaxed) < 3 {
                    rep.violation("lib/ephemeral-options", json!({"kind":"ephemeral-options","many":i,"s":si,"r":ri}), format!("with the ephemeral key {} (number {} of 2048) the round trip {} -> {} fails: encrypt ok = {}, decrypt {}", hx(&e), i, ids[si].name, ids[ri].name, ok, back.0.brief()));
                }
            }
        }
    });
    rep.nontrivial(b"many-ephemeral-keys");
}

pub fn run(rep: &Report) {
    let seed = rep.seed;
    rep.set_rule("E-ENV: every tape of Read/Write answers within the stated budgets is executed on the real code; read partitions in tiny scope are exhaustive (every composition of L into parts <= cs). A case is one complete execution; distinct non-trivial = distinct ciphertext streams (i.e. distinct (keys, length, chunking)) that were produced by the real encryptor and decrypted again by the real decryptor");
    rep.rule_add("CLI: FILE named through a symlinked directory followed by .., ./, a/../, // (a same-named decoy where a textual clean-up would point). Key names containing '=', blanks, non-ASCII through the CLI. All 8 combinations of supplying ephemeral private / public / payload key x 3 lengths.");
    rep.rule_add("Every final-chunk length 0..=65536 at production chunk size round-trips through the two real chunk loops.");
    rep.rule_add("CLI round trips over {FILE arguments, stdin/stdout pipes, named pipes as FILE arguments} x {fresh, pre-existing longer output files}.");
    rep.assume("key and plaintext byte values come from seed-derived alphabets (4 identities, formula plaintexts)");
    rep.assume("lengths beyond 3*cs+1 rest on the loop state being independent of the chunk index (the nonce/counter dimension is swept in C06/C19)");
    tiny_scope(rep, &[], "C01");

    // (b) production scope through key_encrypt / key_decrypt
    let ids = idents(seed);
    let cs = CS as usize;
    let lens: Vec<usize> = vec![0, 1, 2, cs - 1, cs, cs + 1, 2 * cs - 1, 2 * cs, 2 * cs + 1, 3 * cs];
    let mut items = vec![];
    for &l in &lens {
        let all_pairs = l <= 2 || l == cs + 1;
        for (si, s) in ids.iter().enumerate() {
            for (ri, rcp) in ids.iter().enumerate() {
                if !all_pairs && !((si == 0 && ri == 2) || (si == 1 && ri == 1)) {
                    continue;
                }
                let first = si == 0 && ri == 2;
                let mut rngs = vec!["inj-A"];
                if first {
                    rngs.push("inj-B");
                    rngs.push("seam");
                }
                for rng in rngs {
                    items.push((l, s.clone(), rcp.clone(), rng));
                }
            }
        }
    }
    items.sort_by_key(|(l, _, _, _)| std::cmp::Reverse(*l));
    let execs = AtomicU64::new(0);
    items.par_iter().for_each(|(l, s, rcp, rng)| {
        let l = *l;
        let p = plaintext(seed ^ 0x55 ^ (l as u64), l);
        let (e, pk) = match *rng {
            "inj-A" => (hx(&derive32(seed, "c01-eph-A")), hx(&derive32(seed, "c01-pay-A"))),
            "inj-B" => (hx(&derive32(seed, "c01-eph-B")), hx(&derive32(seed, "c01-pay-B"))),
            _ => (String::new(), String::new()),
        };
        let enc = Subject::KeyEnc { s: hx(&s.sk), s_pub: hx(&s.pk), r_pub: hx(&rcp.pk), e, payload: pk };
        let dec = Subject::KeyDec { r: hx(&rcp.sk), r_pub: hx(&rcp.pk) };
        let menu = Menu::shorts(ReadMode::Bounded, true).no_record();
        let total = if l < cs { 2 } else { rep.tier.pick(1, 2) };
        let mut b = Budget::new(2, 2, 0);
        b.shorts_total = total;
        let cts: Mutex<HashSet<Vec<u8>>> = Mutex::new(HashSet::new());
        let default_ct: Mutex<Option<Vec<u8>>> = Mutex::new(None);
        let run_enc = |env: &EnvRef| {
            if *rng == "seam" {
                // deterministic stream through the RNG seam: nothing injected, randomness "left to the implementation"
                let mut ctr = 0u32;
                let sd = seed;
                kestrel_crypto::verif::set_rng(Some(Box::new(move |n| {
                    ctr += 1;
                    derive(sd, &format!("c01-seam-{}", ctr), n)
                })));
            }
            let r = run_env(&enc, env);
            if *rng == "seam" {
                kestrel_crypto::verif::set_rng(None);
            }
            r
        };
        let st = explore(&p, menu, b, &run_enc, &|env, res| {
            if env.deviations() == (0, 0, 0) {
                *default_ct.lock().unwrap() = Some(env.sink.clone());
            }
            check_encryption(rep, "C01/prod-", &enc, &dec, &p, menu, env, res, Some(&s.pk), Some(&cts));
        })
        .unwrap_or_else(|e| crate::report::machinery(&e));
        execs.fetch_add(st.executions, Ordering::Relaxed);
        for ct in cts.lock().unwrap().iter() {
            rep.nontrivial(&r::sha256(ct));
        }
        if *rng != "inj-B" {
            if let Some(ct) = default_ct.into_inner().unwrap() {
                let st = explore(&ct, menu, b, &|e| run_env(&dec, e), &|env, res| {
                    check_decryption(rep, "C01/prod-", &dec, &ct, &p, menu, env, res, Some(&s.pk));
                })
                .unwrap_or_else(|e| crate::report::machinery(&e));
                execs.fetch_add(st.executions, Ordering::Relaxed);
            }
        }
    });
    // randomness left to the implementation, real CSPRNG (no exploration: outputs differ run to run by design)
    for &l in &[0usize, 1, cs, cs + 1] {
        for _rep in 0..2 {
            let p = plaintext(seed ^ 0x77, l);
            let (s, rcp) = (&ids[1], &ids[3]);
            let enc = Subject::KeyEnc { s: hx(&s.sk), s_pub: hx(&s.pk), r_pub: hx(&rcp.pk), e: String::new(), payload: String::new() };
            let dec = Subject::KeyDec { r: hx(&rcp.sk), r_pub: hx(&rcp.pk) };
            let menu = Menu::none().no_record();
            let (env, res) = run_tape(&p, menu, &[], &|e| run_env(&enc, e));
            check_encryption(rep, "C01/prod-realrng-", &enc, &dec, &p, menu, &env, &res, Some(&s.pk), None);
            rep.nontrivial(&r::sha256(&env.sink));
            execs.fetch_add(1, Ordering::Relaxed);
        }
    }
    cli_roundtrips(rep);
    cross_mode_sequences(rep);
    shaped_key_pairs(rep);
    rep.eval(execs.load(Ordering::Relaxed));
    rep.extra("production_executions", json!(execs.load(Ordering::Relaxed)));
    rep.extra("production_lengths", json!(lens));
    rep.sample(json!({"scope":"production","L":cs+1,"sender":"S","recipient":"R","rng":"seam","reads":"bounded menu {full,1,avail-1,ceil(avail/2)}","budget":"<=2 short answers in total (thorough), <=1 for L>=cs (quick)"}));
    crate::c06::chunk_length_sweep(rep, "C01", false);
    cli_path_spellings(rep);
    cli_unusual_names(rep);
    ephemeral_option_combinations(rep);
    rep.set_exhaustive(true);
}

/// `kestrel encrypt` then `kestrel decrypt` through files and pipes, into fresh and into pre-existing (longer) output paths
thread_local! {
    static FIFO_FEEDERS: std::cell::RefCell<Vec<std::thread::JoinHandle<()>>> = const { std::cell::RefCell::new(vec![]) };
}

fn cli_roundtrips(rep: &Report) {
    use crate::fx::Party;
    use crate::proc::{self, Cmd, Scratch};
    let seed = rep.seed;
    let alice = Party::new(seed, "alice", "alicepw");
    let bob = Party::new(seed, "bob", "bobpw");
    // decoy entries (public-only, other keys) whose names are case / prefix variants of the real ones, listed first
    let decoy = |n: &str| crate::proc::keyring_entry(n, &r::encode_pk(&r::x25519_base(&derive32(seed, &format!("c01-decoy-{}", n)))), None);
    let kr = format!("{}\n{}\n{}\n{}\n{}", decoy("Alice"), decoy("BOB"), decoy("ali"), decoy("bobby"), crate::fx::keyring(&[(&bob, true), (&alice, true)]));
    let cs = CS as usize;
    let mut jobs = vec![];
    // (length, content): content 0 = pseudo-random bytes, 1 = the last 4096 bytes are zero, 2 = the second half is zero,
    // 3 = all zero (a writer that skips zero blocks, or sizes its output from them, shows up here)
    let mut shapes: Vec<(usize, u8)> = [0usize, 1, 1000, cs, cs + 1].iter().map(|&l| (l, 0u8)).collect();
    shapes.extend([(10_000usize, 3u8), (cs + 4096, 1), (2 * cs, 2), (2 * cs, 3), (cs, 3)]);
    for (l, content) in shapes {
        for (s, r) in [(0usize, 1usize), (1, 0), (0, 0)] {
            if content != 0 && (s, r) != (0, 1) {
                continue;
            }
            // wiring 0: FILE arguments and -o; 1: stdin/stdout pipes; 2: the FILE argument is a named pipe (FIFO), -o files
            // 3: stdin/stdout pipes, and the decrypting side's keyring does not contain the sender
            for wiring in 0..4u8 {
                for preexisting in [false, true] {
                    if wiring == 3 && (preexisting || s == r) {
                        continue;
                    }
                    if wiring == 2 && (preexisting || (s, r) != (0, 1)) {
                        continue;
                    }
                    jobs.push((l, s, r, wiring, preexisting, content));
                }
            }
        }
    }
    let parties = [&alice, &bob];
    jobs.par_iter().for_each(|&(l, s, r, wiring, preexisting, content)| {
        let pipes = wiring == 1 || wiring == 3;
        let sender_unknown = wiring == 3;
        let fifo = wiring == 2;
        rep.eval(1);
        rep.nontrivial(format!("cli-rt-{}-{}-{}-{}-{}-{}", l, s, r, wiring, preexisting, content).as_bytes());
        let mut p = plaintext(seed ^ 0x5c ^ l as u64, l);
        match content {
            1 => {
                let z = l.saturating_sub(4096);
                p[z..].iter_mut().for_each(|b| *b = 0);
            }
            2 => p[l / 2..].iter_mut().for_each(|b| *b = 0),
            3 => p.iter_mut().for_each(|b| *b = 0),
            _ => {}
        }
        let attempt = || -> Result<(), String> {
            let sc = Scratch::new();
            sc.write("kr.txt", kr.as_bytes());
            let feeder = if fifo { Some(proc::feed_fifo(sc.path("plain.bin"), p.clone())?) } else { None };
            if !fifo {
                sc.write("plain.bin", &p);
            }
            if preexisting {
                sc.write("ct.ktl", &vec![b'O'; 300_000]);
                sc.write("back.bin", &vec![b'O'; 300_000]);
            }
            let (snd, rcp) = (parties[s], parties[r]);
            // encrypt
            let ct = if pipes {
                let o = proc::run(&Cmd::new(&["encrypt", "-t", &rcp.name, "-f", &snd.name, "-k", "kr.txt", "--env-pass"]).env("KESTREL_PASSWORD", &snd.password).stdin(&p), &sc.0);
                o.well_behaved()?;
                if !o.ok() {
                    return Err(format!("kestrel encrypt (pipes) failed: {}", o.summary()));
                }
                o.stdout
            } else {
                let o = proc::run(&Cmd::new(&["encrypt", "plain.bin", "-t", &rcp.name, "-f", &snd.name, "-k", "kr.txt", "-o", "ct.ktl", "--env-pass"]).env("KESTREL_PASSWORD", &snd.password), &sc.0);
                o.well_behaved()?;
                if !o.ok() {
                    return Err(format!("kestrel encrypt (files) failed: {}", o.summary()));
                }
                if let Some(f) = feeder {
                    let _ = f.join();
                }
                let ct = sc.read("ct.ktl").ok_or("no ciphertext file")?;
                if fifo {
                    // the ciphertext travels through a named pipe too
                    let _ = std::fs::remove_file(sc.path("ct.ktl"));
                    let f2 = proc::feed_fifo(sc.path("ct.ktl"), ct.clone())?;
                    FIFO_FEEDERS.with(|v| v.borrow_mut().push(f2));
                }
                ct
            };
            // decrypt
            let (back, stderr) = if pipes {
                if sender_unknown {
                    sc.write("kr-rcpt-only.txt", rcp.entry(true).as_bytes());
                }
                let o = proc::run(&Cmd::new(&["decrypt", "-t", &rcp.name, "-k", if sender_unknown { "kr-rcpt-only.txt" } else { "kr.txt" }, "--env-pass"]).env("KESTREL_PASSWORD", &rcp.password).stdin(&ct), &sc.0);
                o.well_behaved()?;
                if !o.ok() {
                    return Err(format!("kestrel decrypt (pipes) of the file just produced failed: {}", o.summary()));
                }
                (o.stdout, o.stderr)
            } else {
                let o = proc::run(&Cmd::new(&["decrypt", "ct.ktl", "-t", &rcp.name, "-k", "kr.txt", "-o", "back.bin", "--env-pass"]).env("KESTREL_PASSWORD", &rcp.password), &sc.0);
                o.well_behaved()?;
                if !o.ok() {
                    return Err(format!("kestrel decrypt (files{}) of the file just produced failed: {}", if preexisting { ", output paths existed before" } else { "" }, o.summary()));
                }
                FIFO_FEEDERS.with(|v| {
                    for f in v.borrow_mut().drain(..) {
                        let _ = f.join();
                    }
                });
                (sc.read("back.bin").ok_or("no plaintext file")?, o.stderr)
            };
            if back != p {
                return Err(format!("CLI round trip of {} bytes{} ({}{}) returns {} bytes that differ from the original", l, ["", " ending in 4096 zero bytes", " whose second half is zero", ", all zero"][content as usize], if sender_unknown { "pipes, sender not in the decrypting keyring" } else if pipes { "pipes" } else if fifo { "FILE arguments are named pipes" } else { "files" }, if preexisting { ", output paths held longer files before" } else { "" }, back.len()));
            }
            if sender_unknown {
                if !stderr.contains(&snd.pk_enc) {
                    return Err(format!("decryption with a keyring that lacks the sender does not report the sender's key {}: {:?}", snd.pk_enc, stderr));
                }
            } else if !stderr.split(|c: char| !(c.is_alphanumeric() || c == '-' || c == '_')).any(|t| t == snd.name) {
                return Err(format!("decryption does not report sender '{}': {:?}", snd.name, stderr));
            }
            Ok(())
        };
        if attempt().is_err() {
            if let Err(e) = attempt() {
                rep.violation(
                    &format!("C01/cli-roundtrip-{}{}", if pipes { "pipes" } else { "files" }, if preexisting { "-preexisting-output" } else { "" }),
                    json!({"kind":"cli-roundtrip","l":l,"s":s,"r":r,"pipes":pipes,"preexisting":preexisting}),
                    e,
                );
            }
        }
    });
    rep.extra("cli_roundtrips", json!(jobs.len()));
    rep.sample(json!({"kind":"cli-roundtrip","L":cs+1,"from":"alice","to":"alice","wiring":"files; ct.ktl and back.bin held 300000 other bytes before","expect":"decrypted bytes == original, 'Success. File from: alice'"}));
}

pub fn replay(rep: &Report, case: &Value) {
    if case["kind"] == "cross-mode" {
        cross_mode_sequences(rep);
        shaped_key_pairs(rep);
        return;
    }
    if case["kind"] == "cli-roundtrip" {
        println!("  re-running the CLI round trips");
        cli_roundtrips(rep);
        return;
    }
    if case["kind"] == "ref-parse" {
        let key: [u8; 32] = unhx(case["key"].as_str().unwrap()).try_into().unwrap();
        let p = unhx(case["plain"].as_str().unwrap());
        match r::read_chunks(&key, &unhx(case["aad"].as_str().unwrap()), &unhx(case["ct"].as_str().unwrap()), case["cs"].as_u64().unwrap() as u32) {
            Ok(parsed) if parsed.plaintext == p => {}
            _ => rep.violation("tiny-ref-disagrees", case.clone(), "reference reader does not recover P".into()),
        }
        return;
    }
    let c = Case::from_json(case).unwrap_or_else(|| crate::report::machinery("bad case"));
    let (env, res) = c.run();
    println!("  observed: result={} sink_len={} schedule=[{}]", res.brief(), env.sink.len(), describe(&env));
    let (env2, res2) = c.run();
    if res != res2 || env.sink.len() != env2.sink.len() {
        println!("  note: two replays differ (real CSPRNG in play)");
    }
    let extra = &case["extra"];
    let sender: Option<[u8; 32]> = extra["sender"].as_str().map(|s| unhx(s).try_into().unwrap());
    if extra["phase"] == "enc" {
        let dec: Subject = serde_json::from_value(extra["dec"].clone()).unwrap();
        check_encryption(rep, "replay-", &c.subject, &dec, &unhx(&c.src), c.menu, &env, &res, sender.as_ref(), None);
    } else {
        check_decryption(rep, "replay-", &c.subject, &unhx(&c.src), &unhx(extra["plain"].as_str().unwrap_or("")), c.menu, &env, &res, sender.as_ref());
    }
}
