//! C14 — `key generate` into an existing keyring keeps every key (E-GRAPH over command histories via E-PROC).
use crate::c17::{classify, Class};
use crate::fx::Party;
use crate::kra;
use crate::proc::{self, Cmd, Scratch};
use crate::refspec as r;
use crate::report::Report;
use crate::util::*;
use serde_json::{json, Value};
use stateright::{Model, Property};
use std::collections::HashMap;
use std::sync::atomic::{AtomicU64, Ordering};
use std::sync::{Arc, Mutex};

/// what is typed at the "Key name:" prompt (the tool trims it)
const NAMES: [&str; 8] = ["k1", "second key", "Zo\u{eb}", "x-k1", "  padded \u{a0}", "team=ops", "team=dev", "K1"];
const PASSWORDS: [&str; 2] = ["", "p\u{e4}ss w"];

/// (initial file state, then (name index, password index) per key generation)
#[derive(Clone, Debug, Hash, PartialEq, Eq)]
pub struct Hist {
    init: u8,
    gens: Vec<(u8, u8)>,
}

pub fn initial_states(seed: u64) -> Vec<(&'static str, Option<Vec<u8>>)> {
    let a = Party::new(seed, "existing-a", "pa");
    let b = Party::new(seed, "existing-b", "pb");
    let two = format!("{}\n{}", a.entry(true), b.entry(false));
    vec![
        ("absent", None),
        ("empty", Some(vec![])),
        ("keyring-with-trailing-newline", Some(two.clone().into_bytes())),
        ("keyring-without-trailing-newline", Some(two.trim_end().as_bytes().to_vec())),
        ("keyring-with-comments-and-blank-lines", Some(format!("# my keys\n\n{}\n# bob has no private key\n\n{}\n\n\n", a.entry(true), b.entry(false)).into_bytes())),
        ("keyring-with-non-ascii-comment-no-final-newline", Some(format!("# Schl\u{fc}ssel f\u{fc}r Zo\u{eb} \u{1F511}\n{}\n# \u{e9}nd", a.entry(true)).into_bytes())),
        ("keyring-with-crlf", Some(two.replace('\n', "\r\n").into_bytes())),
        ("keyring-behind-a-symlink", Some(two.clone().into_bytes())),
        ("keyring-with-indented-section-headers", Some(two.replace("[Key]", "  [Key]").into_bytes())),
        ("keyring-with-tab-indented-lines", Some(two.lines().map(|l| format!("\t{}", l)).collect::<Vec<_>>().join("\n").into_bytes())),
        ("comment-only-file", Some(b"# keys go here\n# (none yet)\n".to_vec())),
        ("keyring-larger-than-8KiB", Some(format!("{}\n{}\n{}", "# long comment line that pads the keyring file beyond any small buffer size ....\n".repeat(130), a.entry(true), b.entry(false)).into_bytes())),
    ]
}

struct Ctx {
    rep: &'static Report,
    seed: u64,
    max_gens: usize,
    inits: Vec<(&'static str, Option<Vec<u8>>)>,
    /// end state (file bytes) of every history already executed
    memo: Mutex<HashMap<Hist, Option<Vec<u8>>>>,
    executed: AtomicU64,
    /// the command's stdout is a (pseudo-)terminal, as when it is typed at a prompt
    stdout_tty: bool,
}

/// run the last generation of `h` on top of the memoised parent state; check the step and state invariants
fn step(ctx: &Ctx, h: &Hist) -> Result<Option<Vec<u8>>, String> {
    let before: Option<Vec<u8>> = if h.gens.is_empty() {
        ctx.inits[h.init as usize].1.clone()
    } else {
        let mut parent = h.clone();
        parent.gens.pop();
        match ctx.memo.lock().unwrap().get(&parent) {
            Some(b) => b.clone(),
            None => return Err("MACHINERY: parent history not executed yet".into()),
        }
    };
    if h.gens.is_empty() {
        return Ok(before);
    }
    let (ni, pi) = *h.gens.last().unwrap();
    let sc = Scratch::new();
    // "behind a symlink": the path given to -o is a symbolic link to the real keyring (e.g. kept in a dotfiles checkout)
    let via_link = ctx.inits[h.init as usize].0.contains("symlink");
    if let Some(b) = &before {
        if via_link {
            sc.write("real-keys.txt", b);
            std::os::unix::fs::symlink("real-keys.txt", sc.path("keys.txt")).map_err(|e| format!("MACHINERY: symlink: {}", e))?;
        } else {
            sc.write("keys.txt", b);
        }
    }
    let mut gcmd = Cmd::new(&["key", "generate", "-o", "keys.txt", "--env-pass"]).env("KESTREL_PASSWORD", PASSWORDS[pi as usize]).stdin(format!("{}\n", NAMES[ni as usize]).as_bytes());
    if ctx.stdout_tty {
        gcmd.pty = Some(proc::PtySpec { typed: vec![], controlling: false, stdin_is_tty: false, stdout_is_tty: true });
    }
    let out = proc::run(&gcmd, &sc.0);
    out.well_behaved()?;
    if !out.ok() {
        return Err(format!("key generate exited {:?}: {}", out.code, out.summary()));
    }
    let after = sc.read("keys.txt").ok_or("keyring file missing after key generate")?;
    if via_link {
        // whatever the tool did with the link, the real keyring must not have lost anything
        let real = sc.read("real-keys.txt").ok_or("the real keyring behind the symbolic link is gone")?;
        if let Some(b) = &before {
            if !real.starts_with(b) {
                return Err(format!("-o named a symbolic link to the keyring: the {} bytes of the real keyring are not a prefix of its {} bytes afterwards (existing keys destroyed)", b.len(), real.len()));
            }
        }
    }
    // 1. earlier contents are a byte prefix
    if let Some(b) = &before {
        if !after.starts_with(b) {
            return Err(format!("the {} bytes present before the command are not a prefix of the {} bytes after it (existing keys destroyed)", b.len(), after.len()));
        }
    }
    // 2. parses (real parser and REF's reading)
    let text = String::from_utf8(after.clone()).map_err(|_| "keyring is not UTF-8 after key generate".to_string())?;
    // (the real parser in-process when the seam is available; otherwise REF's reading alone, the CLI having written the file)
    let kr = if kra::AVAILABLE {
        match guarded(|| kra::parse(&text)) {
            Ok(Ok(k)) => Some(k),
            Ok(Err(e)) => return Err(format!("the file no longer parses as a keyring: {}", e)),
            Err(m) => return Err(format!("parser panicked: {}", m)),
        }
    } else {
        None
    };
    let entries = match classify(&text) {
        Class::WellFormed(e) => e,
        other => return Err(format!("REF does not read the file as a well-formed keyring: {:?}", other)),
    };
    // the name text the tool wrote for the newest key (from the bytes it appended) must be the name the parser returns
    {
        let appended = String::from_utf8_lossy(&after[before.as_ref().map(|b| b.len()).unwrap_or(0)..]).to_string();
        let written: Vec<&str> = appended.lines().filter_map(|l| l.strip_prefix("Name = ")).collect();
        if written.len() != 1 {
            return Err(format!("the appended text does not contain exactly one 'Name = ' line: {:?}", appended));
        }
        let has = match &kr {
            Some(k) => k.get_key(written[0]).is_some(),
            None => entries.iter().any(|e| e.name == written[0]),
        };
        if !has {
            return Err(format!("the name was written as {:?} but the keyring has no entry under that name (it does not read back as written)", written[0]));
        }
    }
    // 3. every key generated so far is present and usable with its own password
    for (gi, &(n, p)) in h.gens.iter().enumerate() {
        let name = NAMES[n as usize].trim();
        let e = entries.iter().find(|e| e.name == name).ok_or(format!("key '{}' (generated by command {}) is no longer in the keyring (REF's reading)", name, gi + 1))?;
        if let Some(kr) = &kr {
            let k = kr.get_key(name).ok_or(format!("key '{}' (generated by command {}) is no longer in the keyring", name, gi + 1))?;
            if k.pk != e.pk {
                return Err("real parser and REF disagree on an entry".into());
            }
        }
        let sk_str = e.sk.as_ref().ok_or(format!("generated key '{}' has no PrivateKey line", name))?;
        let blob = r::b64_decode(sk_str).ok_or("PrivateKey not base64")?;
        // unlocking costs a scrypt: verify the newest key always, older ones only at the last level (they were verified when generated and prefix-preservation holds)
        if gi + 1 == h.gens.len() {
            let sk = r::unlock_key(&blob, PASSWORDS[p as usize].as_bytes()).ok_or(format!("key '{}' does not unlock with its own password {:?}", name, PASSWORDS[p as usize]))?;
            let pk = r::decode_pk(&e.pk).ok_or("PublicKey line of generated key is not a valid encoded key")?;
            if r::x25519_base(&sk) != pk {
                return Err(format!("PublicKey of '{}' is not the X25519 public key of its private key", name));
            }
            // ... and the tool's own unlock agrees (in-process seam, or `key extract-pub` when the seam is unavailable)
            // (quick tier: at the first level only -- one key derivation less per deeper state)
            if kra::AVAILABLE && (h.gens.len() == 1 || ctx.rep.tier == crate::report::Tier::Thorough) {
                match guarded(|| kra::unlock(sk_str, PASSWORDS[p as usize].as_bytes())) {
                    Ok(Some(k)) if k[..] == sk[..] => {}
                    Ok(other) => return Err(format!("key '{}' is not unlocked by the tool itself with its own password {:?} ({})", name, PASSWORDS[p as usize], if other.is_some() { "another key comes out" } else { "refused" })),
                    Err(m) => return Err(format!("unlocking key '{}' panicked: {}", name, m)),
                }
            } else if !kra::AVAILABLE {
                let o = proc::run(&Cmd::new(&["key", "extract-pub", sk_str, "--env-pass"]).env("KESTREL_PASSWORD", PASSWORDS[p as usize]), &sc.0);
                if !o.ok() || !String::from_utf8_lossy(&o.stdout).contains(&e.pk) {
                    return Err(format!("key '{}' is not usable with its own password {:?}: {}", name, PASSWORDS[p as usize], o.summary()));
                }
            }
        }
    }
    // entries that were in the initial file are still there
    if let Some(b0) = &ctx.inits[h.init as usize].1 {
        if let Class::WellFormed(e0) = classify(&String::from_utf8_lossy(b0)) {
            for e in e0 {
                if !entries.contains(&e) {
                    return Err(format!("pre-existing key '{}' is no longer in the keyring", e.name));
                }
            }
        }
    }
    if entries.len() != h.gens.len() + ctx.inits[h.init as usize].1.as_ref().map(|b| match classify(&String::from_utf8_lossy(b)) { Class::WellFormed(e) => e.len(), _ => 0 }).unwrap_or(0) {
        return Err(format!("keyring has {} entries after {} generation(s)", entries.len(), h.gens.len()));
    }
    Ok(Some(after))
}

#[derive(Clone)]
struct M(Arc<Ctx>);

impl Model for M {
    type State = Hist;
    type Action = (u8, u8);
    fn init_states(&self) -> Vec<Hist> {
        (0..self.0.inits.len()).map(|i| Hist { init: i as u8, gens: vec![] }).collect()
    }
    fn actions(&self, s: &Hist, a: &mut Vec<(u8, u8)>) {
        if s.gens.len() >= self.0.max_gens {
            return;
        }
        // quick tier: second-level histories only from three of the initial states (all of them in thorough)
        if self.0.max_gens == 2 && s.gens.len() == 1 && ![0usize, 3, 8].contains(&(s.init as usize)) {
            return;
        }
        for n in 0..NAMES.len() as u8 {
            if s.gens.iter().any(|g| g.0 == n) {
                continue; // distinct names
            }
            for p in 0..PASSWORDS.len() as u8 {
                a.push((n, p));
            }
        }
    }
    fn next_state(&self, s: &Hist, a: (u8, u8)) -> Option<Hist> {
        let mut h = s.clone();
        h.gens.push(a);
        Some(h)
    }
    fn properties(&self) -> Vec<Property<Self>> {
        vec![Property::always("every key generation preserves the earlier contents; the file parses; every key so far is usable", |m: &M, s: &Hist| {
            let ctx = &m.0;
            ctx.executed.fetch_add(1, Ordering::Relaxed);
            let mut r1 = step(ctx, s);
            if let Err(e) = &r1 {
                if e.starts_with("MACHINERY") {
                    crate::report::machinery(e);
                }
                // re-run once: the verdict must not flip (real CSPRNG in play)
                let r2 = step(ctx, s);
                if r2.is_ok() {
                    crate::report::machinery(&format!("verdict flipped on re-execution of {:?}: {}", s, e));
                }
                r1 = r2;
            }
            match r1 {
                Ok(end) => {
                    ctx.memo.lock().unwrap().insert(s.clone(), end);
                    true
                }
                Err(e) => {
                    let gens: Vec<String> = s.gens.iter().map(|&(n, p)| format!("generate name={:?} password={:?}", NAMES[n as usize], PASSWORDS[p as usize])).collect();
                    ctx.rep.violation(
                        &format!("history/{}", e.split(&['(', ':'][..]).next().unwrap_or("").trim().chars().filter(|c| !c.is_ascii_digit()).take(60).collect::<String>()),
                        json!({"kind":"history","init":s.init,"stdout_tty":ctx.stdout_tty,"gens":s.gens.iter().map(|g| json!([g.0,g.1])).collect::<Vec<_>>()}),
                        format!("initial file '{}', then {:?}: {}", ctx.inits[s.init as usize].0, gens, e),
                    );
                    false
                }
            }
        })]
    }
}

/// What a long-running consumer of the library and the keyring module does when it generates many keys in ONE process
/// and thread (the CLI is one process per key): PrivateKey::generate, a fresh salt from secure_random, lock, serialize,
/// append. After every step the text must still parse, contain every key generated so far, and no two entries may share a
/// public key. (In-process seam; skipped when the adapter is unavailable.)
fn in_process_sequence(rep: &Report) {
    if !kra::AVAILABLE {
        return;
    }
    let n = rep.tier.pick(24usize, 72);
    let mut text = String::new();
    let mut names: Vec<String> = vec![];
    for i in 0..n {
        rep.eval(1);
        let step = guarded(|| -> Result<String, String> {
            let sk = kestrel_crypto::PrivateKey::generate();
            let skb: [u8; 32] = sk.as_bytes().try_into().map_err(|_| "private key is not 32 bytes".to_string())?;
            let salt: [u8; 32] = kestrel_crypto::secure_random(32).try_into().map_err(|_| "secure_random(32) did not return 32 bytes".to_string())?;
            // real locks for the first 14 keys, under passwords whose lengths go down and up again (state kept between
            // derivations on one thread must not leak from a longer password into a shorter one); later keys use a
            // cheap stand-in for the locked string
            // (the last four sit at the block sizes of HMAC-SHA-256: 63, 64, 65 and 128 bytes)
            let pws: [&[u8]; 14] = [b"pw1", b"a considerably longer passphrase than the first one", b"tiny", b"", b"mid-length pw", b"x", b"another rather long passphrase, longer than sixty-four bytes in total.", b"pw1", b"zz", b"a considerably longer passphrase than the first one", &[b'k'; 63], &[b'k'; 64], &[b'k'; 65], &[b'k'; 128]];
            let locked = if i < 14 {
                let l = kra::lock(&skb, pws[i], &salt);
                if r::b64_decode(&l).and_then(|b| r::unlock_key(&b, pws[i])) != Some(skb) {
                    return Err(format!("key {} generated in one thread: its locked string does not unlock (REF) to the key under its own password ({} bytes)", i + 1, pws[i].len()));
                }
                l
            } else {
                r::b64(&[&r::SK_MAGIC[..], &salt[..], &[0u8; 48][..]].concat())
            };
            let pk = r::encode_pk(&r::x25519_base(&skb));
            Ok(kra::serialize_key(&format!("key-{}", i), &pk, &locked))
        });
        let sec = match step {
            Ok(Ok(s)) => s,
            Ok(Err(e)) | Err(e) => {
                rep.violation("in-process/generate-failed", json!({"kind":"in-process","i":i}), e);
                return;
            }
        };
        if !text.is_empty() {
            text.push('\n');
        }
        text.push_str(&sec);
        names.push(format!("key-{}", i));
        match guarded(|| kra::parse(&text)) {
            Ok(Ok(kr)) => {
                if let Some(missing) = names.iter().find(|nm| kr.get_key(nm).is_none()) {
                    rep.violation("in-process/key-lost", json!({"kind":"in-process","i":i}), format!("after {} keys generated in one thread, '{}' is not in the keyring", i + 1, missing));
                    return;
                }
            }
            Ok(Err(e)) => {
                rep.violation("in-process/keyring-no-longer-parses", json!({"kind":"in-process","i":i}), format!("after {} keys generated and appended in one thread the keyring no longer parses: {}", i + 1, e));
                return;
            }
            Err(m) => {
                rep.violation("in-process/panic", json!({"kind":"in-process","i":i}), m);
                return;
            }
        }
    }
    rep.nontrivial(b"in-process-sequence");
    rep.extra("in_process_generate_sequence", json!(n));
}

/// Names at the 128-byte limit typed at `key generate -o F` onto an existing keyring: the tool either refuses (F is left
/// byte-for-byte intact) or appends a section after which F still parses and still contains every earlier key.
fn limit_names(rep: &Report) {
    use rayon::prelude::*;
    let inits = initial_states(rep.seed);
    let base = inits.iter().find(|i| i.0 == "keyring-with-trailing-newline").unwrap().1.clone().unwrap();
    let names: Vec<String> = vec![
        "\u{43a}".repeat(75),                       // 75 characters, 150 bytes
        "\u{43a}".repeat(64),                       // 64 characters, 128 bytes (at the limit)
        format!("{}a", "\u{e9}".repeat(64)),        // 65 characters, 129 bytes
        "\u{20ac}".repeat(43),                      // 43 characters, 129 bytes
        "\u{20ac}".repeat(42),                      // 126 bytes
        "n".repeat(128),
        "n".repeat(129),
        format!("{}\u{1F511}", "n".repeat(125)),    // 129 bytes, the last character straddles the limit
        "   ".to_string(),                          // nothing but blanks
        "\t".to_string(),
        " \u{a0} ".to_string(),
        "".to_string(),
    ];
    names.par_iter().for_each(|name| {
        rep.eval(1);
        rep.nontrivial(format!("limit-name-{}", name).as_bytes());
        let attempt = || -> Result<(), String> {
            let sc = Scratch::new();
            sc.write("keys.txt", &base);
            let out = proc::run(&Cmd::new(&["key", "generate", "-o", "keys.txt", "--env-pass"]).env("KESTREL_PASSWORD", "pw").stdin(format!("{}\n", name).as_bytes()), &sc.0);
            out.well_behaved()?;
            let after = sc.read("keys.txt").ok_or("keyring file missing")?;
            if !out.ok() {
                if after != base {
                    return Err(format!("key generate refused a {}-character / {}-byte name but changed the keyring", name.chars().count(), name.len()));
                }
                return Ok(());
            }
            if !after.starts_with(&base) {
                return Err("earlier contents are not a prefix".into());
            }
            let text = String::from_utf8(after).map_err(|_| "keyring not UTF-8".to_string())?;
            match classify(&text) {
                Class::WellFormed(es) if es.iter().any(|e| e.name == name.trim() || e.name == *name) && es.len() == 3 => {}
                other => return Err(format!("after `key generate` accepted a {}-character / {}-byte name the keyring is no longer well-formed (REF: {:?}): every key in it is unusable", name.chars().count(), name.len(), match other { Class::WellFormed(e) => format!("{} entries", e.len()), Class::Bad(w) => w.to_string(), Class::Open => "open".into() })),
            }
            if kra::AVAILABLE {
                if let Err(e) = kra::parse(&text) {
                    return Err(format!("after `key generate` accepted a {}-character / {}-byte name the keyring no longer parses: {}", name.chars().count(), name.len(), e));
                }
            }
            Ok(())
        };
        if attempt().is_err() {
            if let Err(e) = attempt() {
                rep.violation("limit-name", json!({"kind":"in-process","name":name}), e);
            }
        }
    });
    rep.extra("limit_names", json!(names.len()));
}

/// "Every key generated so far is usable": also when the random source happens to deliver a private key of a particular
/// value. The LD_PRELOAD shim answers one getrandom call with chosen bytes; when that call was the one that became the
/// private key (REF unlocks the new entry to exactly those bytes), the key must work: extract-pub prints its PublicKey
/// line's key and it serves as a sender.
fn steered_keys(rep: &Report) {
    use rayon::prelude::*;
    let seed = rep.seed;
    let mut xz = derive32(seed, "c14-xor-zero");
    let x = xz.iter().fold(0u8, |a, b| a ^ b);
    xz[31] ^= x;
    let mut one = [0u8; 32];
    one[0] = 1;
    let mut sumz = derive32(seed, "c14-sum-zero");
    let sm = sumz.iter().fold(0u8, |a, b| a.wrapping_add(*b));
    sumz[31] = sumz[31].wrapping_sub(sm);
    let specials: Vec<(&str, [u8; 32])> = vec![("all-zero", [0u8; 32]), ("bytes-xor-to-zero", xz), ("bytes-sum-to-zero", sumz), ("all-ones", [0xff; 32]), ("integer-1", one), ("all-bytes-0x42", [0x42; 32])];
    let rcpt = Party::new(seed, "rcpt", "rpw");
    let steered = AtomicU64::new(0);
    specials.par_iter().for_each(|(name, val)| {
        rep.eval(1);
        rep.nontrivial(format!("steered-key-{}", name).as_bytes());
        let mut hit = false;
        for k in 1..=4usize {
            let sc = Scratch::new();
            let mut cmd = Cmd::new(&["key", "generate", "-o", "kr.txt", "--env-pass"]).env("KESTREL_PASSWORD", "pw").env("KV_RNG_HEX", &hx(val)).stdin(b"me\n");
            for (a, b) in crate::c07::rng_env("first-hex", k, None) {
                cmd = cmd.env(&a, &b);
            }
            let out = proc::run(&cmd, &sc.0);
            if !out.ok() {
                continue;
            }
            let text = String::from_utf8_lossy(&sc.read("kr.txt").unwrap_or_default()).to_string();
            let pk_line = text.lines().find_map(|l| l.strip_prefix("PublicKey = ")).map(|x| x.trim().to_string());
            let sk_line = text.lines().find_map(|l| l.strip_prefix("PrivateKey = ")).map(|x| x.trim().to_string());
            let (pk_line, sk_line) = match (pk_line, sk_line) {
                (Some(a), Some(b)) => (a, b),
                _ => continue,
            };
            let sk = match r::b64_decode(&sk_line).and_then(|b| r::unlock_key(&b, b"pw")) {
                Some(k) => k,
                None => continue,
            };
            if sk != *val {
                continue; // this call did not become the private key
            }
            hit = true;
            steered.fetch_add(1, Ordering::Relaxed);
            let case = json!({"kind":"steered","name":name,"call":k});
            let fail = |what: String| rep.violation("steered-key/unusable", case.clone(), format!("the random source delivered the private key '{}' ({}): {}", name, hx(val), what));
            if r::decode_pk(&pk_line) != Some(r::x25519_base(val)) {
                fail("the PublicKey line written is not its X25519 public key".into());
                break;
            }
            let o = proc::run(&Cmd::new(&["key", "extract-pub", &sk_line, "--env-pass"]).env("KESTREL_PASSWORD", "pw"), &sc.0);
            if o.well_behaved().is_err() || !o.ok() || !String::from_utf8_lossy(&o.stdout).contains(&pk_line) {
                fail(format!("extract-pub with its own password does not print its public key: {}", o.summary()));
                break;
            }
            sc.write("kr2.txt", format!("{}\n{}", text, rcpt.entry(false)).as_bytes());
            sc.write("plain.bin", b"steered");
            let o = proc::run(&Cmd::new(&["encrypt", "plain.bin", "-t", "rcpt", "-f", "me", "-k", "kr2.txt", "-o", "out.ktl", "--env-pass"]).env("KESTREL_PASSWORD", "pw"), &sc.0);
            let good = o.ok() && matches!(sc.read("out.ktl").map(|f| r::read_key_file(&rcpt.sk, &f)), Some(Ok(k)) if k.parsed.plaintext == b"steered" && k.sender == r::x25519_base(val));
            if o.well_behaved().is_err() || !good {
                fail(format!("it cannot be used as a sender with its own password: {}", o.summary()));
            }
            break;
        }
        if !hit {
            rep.extra(&format!("steered_key_{}_not_steered", name), json!("none of the first four getrandom calls became the private key: not judged"));
        }
    });
    rep.extra("steered_private_keys", json!({"values":specials.len(),"steered":steered.load(Ordering::Relaxed)}));
}

pub fn run(rep: &'static Report) {
    rep.set_rule("E-GRAPH over histories: breadth-first search (stateright) over initial keyring states x all sequences of <=2 (quick) / <=3 (thorough) `kestrel key generate -o F --env-pass` commands with distinct names from a 7-name alphabet (non-ASCII, with a space, a suffix of another, typed with surrounding whitespace, two names containing '=' with a common prefix) and 2 passwords; each state's last command is executed by the real CLI on the memoised file of its parent history, and the state invariant (prefix preserved, parses for the real parser and for REF, every generated key present, unlocks under its own password to the private key of its PublicKey, pre-existing entries kept) is checked. distinct non-trivial = histories with at least one generation");
    rep.rule_add("Password channels: two generations into one file, 8 passwords with blanks at their ends x every ordered pair of {environment, controlling terminal, stdin terminal}; REF unlocks each key with exactly the password given.");
    rep.rule_add("One-generation histories from every initial state with stdout on a terminal; generated private keys steered by value through the random source (all-zero, XOR-zero, all ones, ...).");
    rep.rule_add("in-process sequence of 24/72 generations in one thread; keyring behind a symbolic link as an initial state.");
    rep.assume("CLI runs use the real CSPRNG, so bytes differ between runs; a violating history is executed twice and the verdict must not flip");
    let ctx = Arc::new(Ctx { rep, seed: rep.seed, max_gens: rep.tier.pick(2, 3), inits: initial_states(rep.seed), memo: Mutex::new(HashMap::new()), executed: AtomicU64::new(0), stdout_tty: false });
    let _ = ctx.seed;
    let st = crate::search::bfs_levels(&M(ctx.clone()));
    for (name, s) in &st.violating {
        println!("  shortest counterexample for '{}': {:?}", name, s);
    }
    let states = st.states;
    rep.states.fetch_add(states, Ordering::Relaxed);
    rep.transitions.fetch_add(st.transitions, Ordering::Relaxed);
    rep.extra("search_engine", json!("level-synchronous parallel BFS over the stateright::Model (search.rs)"));
    let ex = ctx.executed.load(Ordering::Relaxed);
    rep.traces_validated.fetch_add(ex, Ordering::Relaxed);
    rep.eval(ex);
    rep.add_distinct(states.saturating_sub(ctx.inits.len() as u64));
    rep.extra("histories", json!({"initial_states":ctx.inits.iter().map(|i| i.0).collect::<Vec<_>>(),"max_generations":ctx.max_gens,"names":NAMES,"passwords":PASSWORDS,"states":states}));
    rep.sample(json!({"init":"keyring-without-trailing-newline","history":["generate name='k1' password=''","generate name='Zo\u{eb}' password='p\u{e4}'"],"expect":"old bytes are a prefix; 4 entries; both new keys unlock under their own passwords"}));
    // the same search one level deep from every initial state with the command's stdout on a terminal
    {
        let ctx2 = Arc::new(Ctx { rep, seed: rep.seed, max_gens: 1, inits: initial_states(rep.seed), memo: Mutex::new(HashMap::new()), executed: AtomicU64::new(0), stdout_tty: true });
        let st2 = crate::search::bfs_levels(&M(ctx2.clone()));
        rep.states.fetch_add(st2.states, Ordering::Relaxed);
        rep.transitions.fetch_add(st2.transitions, Ordering::Relaxed);
        let ex2 = ctx2.executed.load(Ordering::Relaxed);
        rep.traces_validated.fetch_add(ex2, Ordering::Relaxed);
        rep.eval(ex2);
        rep.add_distinct(st2.states.saturating_sub(ctx2.inits.len() as u64));
        rep.extra("histories_with_stdout_on_a_terminal", json!({"max_generations":1,"states":st2.states}));
    }
    in_process_sequence(rep);
    limit_names(rep);
    steered_keys(rep);
    crate::chan::generate(rep, "C14");
    rep.set_exhaustive(true);
}

pub fn replay(rep: &'static Report, case: &Value) {
    if case["kind"] == "steered" {
        steered_keys(rep);
        return;
    }
    if case["kind"] == "chan" {
        println!("  re-running the password-channel part");
        crate::chan::generate(rep, "C14");
        return;
    }
    if case["kind"] == "in-process" {
        in_process_sequence(rep);
        limit_names(rep);
        return;
    }
    let h = Hist { init: case["init"].as_u64().unwrap() as u8, gens: case["gens"].as_array().unwrap().iter().map(|g| (g[0].as_u64().unwrap() as u8, g[1].as_u64().unwrap() as u8)).collect() };
    let ctx = Ctx { rep, seed: rep.seed, max_gens: 9, inits: initial_states(rep.seed), memo: Mutex::new(HashMap::new()), executed: AtomicU64::new(0), stdout_tty: case["stdout_tty"].as_bool().unwrap_or(false) };
    for n in 0..=h.gens.len() {
        let p = Hist { init: h.init, gens: h.gens[..n].to_vec() };
        match step(&ctx, &p) {
            Ok(end) => {
                println!("  after {} generation(s): file is {:?} bytes, invariant holds", n, end.as_ref().map(|b| b.len()));
                ctx.memo.lock().unwrap().insert(p, end);
            }
            Err(e) => {
                rep.violation("history/replay", case.clone(), format!("after {} generation(s): {}", n, e));
                return;
            }
        }
    }
}
