//! C06 — byte-for-byte conformance to the frozen wire format (E-GRID vs REF).
use crate::env::SchedReader;
use crate::refspec as r;
use crate::report::{Report, Tier};
use crate::streams::*;
use crate::util::*;
use rayon::prelude::*;
use serde_json::{json, Value};

const CS: usize = 65536;
pub const GOLDEN_SEED: u64 = 424242;
pub const GOLDEN_DIR: &str = "/verif/golden";

fn legal_chunking(ch: &[usize], cs: usize) -> bool {
    if ch.is_empty() {
        return false;
    }
    if ch == [0] {
        return true;
    }
    ch.iter().all(|&c| c >= 1 && c <= cs)
}

/// Honest key pairs chosen by the VALUE of the private key or by the SHAPE of the public key (the latter found by a
/// search over derived private keys). Shared by C01 and C06.
pub fn shaped_idents(seed: u64) -> Vec<Ident> {
    let mut xz = derive32(seed, "c06-xor-zero");
    let x = xz.iter().fold(0u8, |a, b| a ^ b);
    xz[31] ^= x;
    let mut one = [0u8; 32];
    one[0] = 1;
    let mut v: Vec<Ident> = [("xor-zero", xz), ("all-0x42", [0x42; 32]), ("integer-1", one), ("all-ones", [0xff; 32]), ("all-0x80", [0x80; 32])].iter().map(|(n, k)| Ident { name: n, sk: *k, pk: r::x25519_base(k) }).collect();
    let shapes: Vec<(&'static str, Box<dyn Fn(&[u8; 32]) -> bool + Sync>)> = vec![
        ("pk-ends-7f-starts-ed-or-more", Box::new(|pk| pk[31] == 0x7f && pk[0] >= 0xed)),
        ("pk-ends-7f", Box::new(|pk| pk[31] == 0x7f)),
        ("pk-ends-00", Box::new(|pk| pk[31] == 0x00)),
        ("pk-starts-00", Box::new(|pk| pk[0] == 0x00)),
        ("pk-starts-ff", Box::new(|pk| pk[0] == 0xff)),
        ("pk-starts-01-ends-small", Box::new(|pk| pk[0] <= 0x01 && pk[31] < 0x10)),
        ("pk-starts-ec-or-more", Box::new(|pk| pk[0] >= 0xec && pk[31] >= 0x70)),
    ];
    let cands: Vec<([u8; 32], [u8; 32])> = (0..40_000u32).into_par_iter().map(|i| { let sk = derive32(seed, &format!("c06-shape-{}", i)); (sk, r::x25519_base(&sk)) }).collect();
    for (name, pred) in &shapes {
        match cands.iter().find(|(_, pk)| pred(pk)) {
            Some((sk, pk)) => v.push(Ident { name, sk: *sk, pk: *pk }),
            None => crate::report::machinery(&format!("key-shape search found no key for {}", name)),
        }
    }
    v
}

/// encrypt side, key mode, public API: Rust output == REF.write(same inputs, observed chunking)
fn enc_key_case(rep: &Report, s: &Ident, rc: &Ident, e: &[u8; 32], pk: &[u8; 32], p: &[u8], sizes: &[usize]) {
    rep.eval(1);
    let case = json!({"kind":"enc-key","s":hx(&s.sk),"r":hx(&rc.sk),"e":hx(e),"pk":hx(pk),"len":p.len(),"pseed":hx(&p[..p.len().min(4)]),"plain": if p.len() <= 64 { hx(p) } else { String::new() },"sizes":sizes});
    let sub = Subject::KeyEnc { s: hx(&s.sk), s_pub: hx(&s.pk), r_pub: hx(&rc.pk), e: hx(e), payload: hx(pk) };
    let mut src = SchedReader::new(p, sizes);
    let mut out = Vec::new();
    let res = run_rw(&sub, &mut src, &mut out);
    if !res.is_ok() {
        rep.violation("enc-key-error", case, format!("key_encrypt failed: {}", res.brief()));
        return;
    }
    match r::read_key_file(&rc.sk, &out) {
        Ok(kf) => {
            if kf.parsed.plaintext != p || kf.sender != s.pk {
                rep.violation("enc-key-ref-plaintext", case, "REF reads a different plaintext/sender from the Rust output".into());
                return;
            }
            if !legal_chunking(&kf.parsed.chunking, CS) {
                rep.violation("enc-key-illegal-chunking", case, format!("illegal chunking {:?}", kf.parsed.chunking));
                return;
            }
            let want = r::write_key_file(&s.sk, &rc.pk, e, pk, p, &kf.parsed.chunking).unwrap();
            if want != out {
                let at = want.iter().zip(out.iter()).position(|(a, b)| a != b).unwrap_or(want.len().min(out.len()));
                rep.violation("enc-key-bytes-differ", case, format!("Rust output differs from the specification at byte {} (|P|={}, reads {:?})", at, p.len(), sizes));
            }
        }
        Err(e) => rep.violation("enc-key-ref-rejects", case, format!("the specification reader rejects the Rust output: {:?} (|P|={}, reads {:?})", e, p.len(), sizes)),
    }
}

fn enc_pass_case(rep: &Report, pw: &[u8], salt: &[u8; 32], key: &[u8; 32], p: &[u8], sizes: &[usize]) {
    rep.eval(1);
    let case = json!({"kind":"enc-pass","pw":hx(pw),"salt":hx(salt),"len":p.len(),"sizes":sizes});
    let sub = Subject::PassEnc { pw: hx(pw), salt: hx(salt) };
    let mut src = SchedReader::new(p, sizes);
    let mut out = Vec::new();
    let res = run_rw(&sub, &mut src, &mut out);
    if !res.is_ok() {
        rep.violation("enc-pass-error", case, format!("pass_encrypt failed: {}", res.brief()));
        return;
    }
    match r::read_pass_file_with_key(key, &out) {
        Ok(parsed) => {
            if parsed.plaintext != p || !legal_chunking(&parsed.chunking, CS) {
                rep.violation("enc-pass-ref-plaintext", case, "REF reads a different plaintext / illegal chunking".into());
                return;
            }
            if r::write_pass_file_with_key(key, salt, p, &parsed.chunking) != out {
                rep.violation("enc-pass-bytes-differ", case, format!("Rust password-mode output differs from the specification (|P|={}, reads {:?})", p.len(), sizes));
            }
        }
        Err(e) => rep.violation("enc-pass-ref-rejects", case, format!("the specification reader (scrypt 32768/8/1, aad=magic) rejects the Rust output: {:?}", e)),
    }
}

/// tiny scope through the hook: all partitions
fn enc_tiny_case(rep: &Report, key: &[u8; 32], aad: &[u8], cs: u32, p: &[u8], sizes: &[usize]) {
    rep.eval(1);
    let case = json!({"kind":"enc-tiny","key":hx(key),"aad":hx(aad),"cs":cs,"plain":hx(p),"sizes":sizes});
    let sub = Subject::TinyEnc { key: hx(key), aad: hx(aad), cs };
    let mut src = SchedReader::new(p, sizes);
    let mut out = Vec::new();
    let res = run_rw(&sub, &mut src, &mut out);
    if !res.is_ok() {
        rep.violation("enc-tiny-error", case, format!("encrypt loop failed: {}", res.brief()));
        return;
    }
    match r::read_chunks(key, aad, &out, cs) {
        Ok(parsed) if parsed.plaintext == p && legal_chunking(&parsed.chunking, cs as usize) => {
            if r::write_chunks(key, aad, p, &parsed.chunking) != out {
                rep.violation("enc-tiny-bytes-differ", case, format!("chunk stream differs from the specification (cs={}, reads {:?})", cs, sizes));
            }
        }
        other => rep.violation("enc-tiny-ref-rejects", case, format!("specification reader: {:?} (cs={}, reads {:?})", other.map(|p| p.chunking).map_err(|e| e.0), cs, sizes)),
    }
}

/// decrypt side: a REF-written conforming file must decrypt in Rust to REF's plaintext and sender
fn dec_key_case(rep: &Report, s: &Ident, rc: &Ident, e: &[u8; 32], pk: &[u8; 32], p: &[u8], chunking: &[usize]) {
    rep.eval(1);
    let descr = if chunking.len() > 12 { format!("{} chunks, first {:?}", chunking.len(), &chunking[..4]) } else { format!("{:?}", chunking) };
    let case = json!({"kind":"dec-key","s":hx(&s.sk),"r":hx(&rc.sk),"e":hx(e),"pk":hx(pk),"len":p.len(),"plain": if p.len() <= 64 { hx(p) } else { String::new() },"chunking": if chunking.len() <= 64 { json!(chunking) } else { json!({"n":chunking.len(),"each":chunking[0]}) }});
    let file = r::write_key_file(&s.sk, &rc.pk, e, pk, p, chunking).unwrap();
    let sub = Subject::KeyDec { r: hx(&rc.sk), r_pub: hx(&rc.pk) };
    let (res, out) = run_plain(&sub, &file);
    match res {
        Res::Ok(Some(sender)) => {
            if out != p {
                rep.violation("dec-key-wrong-plaintext", case, format!("conforming file with chunking {} decrypts to different bytes", descr));
            } else if sender != s.pk {
                rep.violation("dec-key-wrong-sender", case, "wrong sender reported".into());
            }
        }
        other => rep.violation("dec-key-rejected", case, format!("conforming file (|P|={}, chunking {}) rejected: {}", p.len(), descr, other.brief())),
    }
}

fn dec_stream_case(rep: &Report, clause: &str, sub: &Subject, file: &[u8], p: &[u8], case: Value, descr: &str) {
    rep.eval(1);
    let (res, out) = run_plain(sub, file);
    match res {
        Res::Ok(_) => {
            if out != p {
                rep.violation(&format!("{}-wrong-plaintext", clause), case, format!("conforming stream {} decrypts to different bytes", descr));
            }
        }
        other => rep.violation(&format!("{}-rejected", clause), case, format!("conforming stream {} rejected: {}", descr, other.brief())),
    }
}

pub fn golden_specs() -> Vec<(String, usize, Vec<usize>)> {
    // (name, plaintext length, read schedule) — written once by the pinned tree
    vec![
        ("len0".into(), 0, vec![]),
        ("len1".into(), 1, vec![]),
        ("len65535".into(), CS - 1, vec![]),
        ("len65536".into(), CS, vec![]),
        ("len65537".into(), CS + 1, vec![]),
        ("short-chunks".into(), 1000, vec![1, 10, 100, 500]),
    ]
}

pub fn golden_write() {
    std::fs::create_dir_all(GOLDEN_DIR).unwrap();
    let ids = idents(GOLDEN_SEED);
    let (s, rc) = (&ids[0], &ids[2]);
    for (name, len, sizes) in golden_specs() {
        let p = plaintext(GOLDEN_SEED, len);
        let sub = Subject::KeyEnc { s: hx(&s.sk), s_pub: hx(&s.pk), r_pub: hx(&rc.pk), e: String::new(), payload: String::new() };
        let mut out = Vec::new();
        let res = run_rw(&sub, &mut SchedReader::new(&p, &sizes), &mut out);
        assert!(res.is_ok());
        std::fs::write(format!("{}/key-{}.ktl", GOLDEN_DIR, name), &out).unwrap();
        let salt: [u8; 32] = kestrel_crypto::secure_random(32).try_into().unwrap();
        let sub = Subject::PassEnc { pw: hx(b"golden password \xc3\xa9"), salt: hx(&salt) };
        let mut out = Vec::new();
        let res = run_rw(&sub, &mut SchedReader::new(&p, &sizes), &mut out);
        assert!(res.is_ok());
        std::fs::write(format!("{}/pass-{}.ktl", GOLDEN_DIR, name), &out).unwrap();
    }
    std::fs::copy("/repo/src/cli/tests/data.txt.ktl", format!("{}/repo-data.txt.ktl", GOLDEN_DIR)).unwrap();
    std::fs::copy("/repo/src/cli/tests/pdata.txt.ktl", format!("{}/repo-pdata.txt.ktl", GOLDEN_DIR)).unwrap();
    std::fs::copy("/repo/src/cli/tests/keyring.txt", format!("{}/repo-keyring.txt", GOLDEN_DIR)).unwrap();
    println!("golden files written to {}", GOLDEN_DIR);
}

fn golden(rep: &Report) {
    let ids = idents(GOLDEN_SEED);
    let (s, rc) = (&ids[0], &ids[2]);
    let mut n = 0;
    for (name, len, _) in golden_specs() {
        let p = plaintext(GOLDEN_SEED, len);
        for mode in ["key", "pass"] {
            let path = format!("{}/{}-{}.ktl", GOLDEN_DIR, mode, name);
            let file = match std::fs::read(&path) {
                Ok(f) => f,
                Err(e) => crate::report::machinery(&format!("golden file {} missing: {}", path, e)),
            };
            rep.eval(1);
            n += 1;
            let case = json!({"kind":"golden","path":path});
            let (sub, want_sender) = if mode == "key" {
                (Subject::KeyDec { r: hx(&rc.sk), r_pub: hx(&rc.pk) }, Some(s.pk.to_vec()))
            } else {
                (Subject::PassDec { pw: hx(b"golden password \xc3\xa9") }, None)
            };
            let (res, out) = run_plain(&sub, &file);
            match res {
                Res::Ok(sender) => {
                    if out != p || sender != want_sender {
                        rep.violation("golden-wrong-output", case, format!("golden file {} decrypts to different bytes / sender", path));
                    }
                }
                other => rep.violation("golden-rejected", case, format!("golden file {} no longer decrypts: {}", path, other.brief())),
            }
            rep.nontrivial(path.as_bytes());
        }
    }
    // the repository's two genuine old artefacts (frozen copies)
    let kr = std::fs::read_to_string(format!("{}/repo-keyring.txt", GOLDEN_DIR)).unwrap_or_default();
    let mut bob_locked = String::new();
    let mut alice_pk = String::new();
    let mut cur = String::new();
    for l in kr.lines() {
        if let Some(v) = l.strip_prefix("Name = ") {
            cur = v.trim().to_string();
        }
        if let Some(v) = l.strip_prefix("PrivateKey = ") {
            if cur == "bob" {
                bob_locked = v.trim().to_string();
            }
        }
        if let Some(v) = l.strip_prefix("PublicKey = ") {
            if cur == "alice" {
                alice_pk = v.trim().to_string();
            }
        }
    }
    let bob_sk = r::b64_decode(&bob_locked).and_then(|b| r::unlock_key(&b, b"bob"));
    match bob_sk {
        Some(sk) => {
            let file = std::fs::read(format!("{}/repo-data.txt.ktl", GOLDEN_DIR)).unwrap();
            rep.eval(1);
            n += 1;
            let sub = Subject::KeyDec { r: hx(&sk), r_pub: hx(&r::x25519_base(&sk)) };
            let (res, out) = run_plain(&sub, &file);
            let want_sender = r::decode_pk(&alice_pk).map(|k| k.to_vec());
            match res {
                Res::Ok(sender) if out == b"plaintext." && sender == want_sender => {}
                other => rep.violation("golden-repo-data", json!({"kind":"golden","path":"repo-data.txt.ktl"}), format!("src/cli/tests/data.txt.ktl (1.x artefact) no longer decrypts to 'plaintext.' from alice: {}", other.brief())),
            }
            rep.nontrivial(b"repo-data");
        }
        None => crate::report::machinery("cannot unlock bob's key of the frozen repository keyring with REF"),
    }
    {
        let file = std::fs::read(format!("{}/repo-pdata.txt.ktl", GOLDEN_DIR)).unwrap();
        rep.eval(1);
        n += 1;
        let sub = Subject::PassDec { pw: hx(b"pass123") };
        let (res, out) = run_plain(&sub, &file);
        match res {
            Res::Ok(_) if out == b"plaintext." => {}
            other => rep.violation("golden-repo-pdata", json!({"kind":"golden","path":"repo-pdata.txt.ktl"}), format!("src/cli/tests/pdata.txt.ktl (1.x artefact) no longer decrypts: {}", other.brief())),
        }
        rep.nontrivial(b"repo-pdata");
    }
    rep.extra("golden_files", json!(n));
}

/// Every length of a chunk at production chunk size: for L = 0..=65536 a plaintext of L bytes delivered by one read, alone
/// and (every 17th L, all L in the thorough tier) after a full first chunk, through the real chunk loops with cs = 65536.
/// `conformance`: the encryptor's bytes equal REF's and the real decryptor opens REF's bytes; otherwise the oracle is the
/// round trip through the two real loops only.
pub fn chunk_length_sweep(rep: &Report, tag: &str, conformance: bool) {
    use rayon::prelude::*;
    use std::sync::atomic::Ordering;
    const CSZ: usize = 65536;
    let key = derive32(rep.seed, "length-sweep-key");
    let aad: Vec<u8> = if conformance { r::PASS_MAGIC.to_vec() } else { vec![] };
    let pool = plaintext(rep.seed ^ 0x51ee9, 2 * CSZ + 7);
    let every = rep.tier.pick(17usize, 1);
    let enc = Subject::TinyEnc { key: hx(&key), aad: hx(&aad), cs: CSZ as u32 };
    let dec = Subject::TinyDec { key: hx(&key), aad: hx(&aad), cs: CSZ as u32 };
    let bad = std::sync::atomic::AtomicU64::new(0);
    (0..=CSZ).into_par_iter().for_each(|l| {
        if bad.load(Ordering::Relaxed) > 3 {
            return;
        }
        let mut shapes: Vec<Vec<usize>> = vec![if l == 0 { vec![] } else { vec![l] }];
        if l > 0 && l % every == 0 {
            shapes.push(vec![CSZ, l]);
        }
        for sizes in shapes {
            rep.eval(1);
            let total: usize = sizes.iter().sum();
            let off = l % 7;
            let p = &pool[off..off + total];
            let mut src = SchedReader::new(p, &sizes);
            let mut out = Vec::with_capacity(total + 100);
            let res = run_rw(&enc, &mut src, &mut out);
            let case = json!({"kind":"length-sweep","l":l,"reads":sizes});
            let mut fail = |what: String| {
                bad.fetch_add(1, Ordering::Relaxed);
                rep.violation(&format!("{}/chunk-length-sweep", tag), case.clone(), what);
            };
            if !res.is_ok() {
                fail(format!("the encrypt loop fails for reads {:?}: {}", sizes, res.brief()));
                continue;
            }
            let chunking: Vec<usize> = if total == 0 { vec![0] } else { sizes.clone() };
            if conformance {
                let want = r::write_chunks(&key, &aad, p, &chunking);
                if out != want {
                    fail(format!("for reads {:?} the encryptor's {} bytes differ from the format's {} bytes", sizes, out.len(), want.len()));
                    continue;
                }
            }
            let (dres, got) = run_plain(&dec, &out);
            if !dres.is_ok() || got != p {
                fail(format!("a plaintext delivered as reads {:?} does not come back: decrypt gives {} with {} bytes", sizes, dres.brief(), got.len()));
            }
        }
    });
    rep.nontrivial(format!("{}-chunk-length-sweep", tag).as_bytes());
    rep.add_distinct(CSZ as u64);
    rep.extra("chunk_length_sweep", json!({"lengths":"0..=65536","after_a_full_chunk_every":every}));
}

pub fn run(rep: &'static Report) {
    let seed = rep.seed;
    rep.set_rule("E-GRID vs REF: every point of the stated products (lengths x read partitions x key sets; every composition of L<=8 into chunk sizes; counter sweep; golden files) is executed once on the real code and compared byte for byte with the executable specification; distinct non-trivial = distinct (mode, direction, keys, length, partition/chunking) points with at least one chunk record compared");
    rep.rule_add("Encryption with one or two interrupted reads (and one short read) at any call: a completed file is the format's file for the plaintext.");
    rep.rule_add("The four library operations on threads with 128/192/256 KiB of stack (child processes) give the bytes they give on a large stack.");
    rep.rule_add("CLI path layouts: 7 (input, output) placements incl. the same base name in different directories x 4 commands.");
    rep.rule_add("Every final-chunk length 0..=65536 at production chunk size (alone; after a full chunk for every 17th / every length): encryptor bytes == REF bytes, decryptor opens them.");
    rep.rule_add("Password channels: 8 passwords differing in blanks at their ends x {environment, controlling terminal, stdin terminal} x {password encrypt judged by REF, REF file opened by password decrypt}.");
    rep.rule_add("CLI password-file conformance in both directions x {fresh, pre-existing longer output}.");
    rep.assume("REF (OpenSSL-based executable specification written from the RFCs, the Noise spec and docs/file-format.txt) is the meaning of 'the documented format'; it is self-tested against RFC vectors and the published cacophony vector at start");
    rep.assume("key/plaintext values from seed-derived alphabets; 'earlier 1.x releases' are represented only by the repository's two test artefacts");
    let ids = idents(seed);
    let keysets: Vec<(&Ident, &Ident)> = vec![(&ids[0], &ids[2]), (&ids[1], &ids[3]), (&ids[0], &ids[0])];
    let e = derive32(seed, "c06-eph");
    let pk = derive32(seed, "c06-pay");

    // (i) encrypt side, key mode: all read partitions of all L <= 10 (quick: <= 8 for key sets 2,3)
    let mut jobs: Vec<(usize, usize, Vec<usize>)> = vec![];
    for (ki, _) in keysets.iter().enumerate() {
        let maxl = if ki == 0 { 10 } else { rep.tier.pick(6, 10) };
        for l in 0..=maxl {
            if l == 0 {
                jobs.push((ki, 0, vec![]));
            }
            for comp in compositions(l, l.max(1)) {
                if l > 0 {
                    jobs.push((ki, l, comp));
                }
            }
        }
    }
    jobs.par_iter().for_each(|(ki, l, comp)| {
        let (s, rc) = keysets[*ki];
        let p = plaintext(seed ^ 0x61, *l);
        enc_key_case(rep, s, rc, &e, &pk, &p, comp);
        rep.nontrivial(format!("enc-key-{}-{}-{:?}", ki, l, comp).as_bytes());
    });
    rep.sample(json!({"kind":"enc-key","L":10,"reads":[3,1,4,2],"keys":"S->R","check":"Rust bytes == REF.write(same keys, ephemeral, payload key, observed chunking)"}));
    // boundary lengths x bounded partitions
    let mut bjobs = vec![];
    for l in [CS - 1, CS, CS + 1, 2 * CS, 2 * CS + 1] {
        for sizes in [vec![], vec![1], vec![CS - 1], vec![CS / 2], vec![CS, 1], vec![CS - 1, 1, CS]] {
            for ki in 0..keysets.len() {
                if ki > 0 && !sizes.is_empty() && rep.tier == Tier::Quick {
                    continue;
                }
                bjobs.push((ki, l, sizes.clone()));
            }
        }
    }
    bjobs.par_iter().for_each(|(ki, l, sizes)| {
        let (s, rc) = keysets[*ki];
        let p = plaintext(seed ^ 0x62, *l);
        enc_key_case(rep, s, rc, &e, &pk, &p, sizes);
        rep.nontrivial(format!("enc-key-b-{}-{}-{:?}", ki, l, sizes).as_bytes());
    });

    // value shapes: plaintexts of zero / 0xff / repeating bytes, keys and nonces-to-be chosen by value (bytes that XOR
    // to zero, all bytes equal, the integer 1, all ones), at one-chunk and three-chunk lengths, both directions
    {
        let mut xz = derive32(seed, "c06-xor-zero");
        let x = xz.iter().fold(0u8, |a, b| a ^ b);
        xz[31] ^= x;
        let mut one = [0u8; 32];
        one[0] = 1;
        let special_keys: Vec<(&str, [u8; 32])> = vec![("xor-zero", xz), ("all-0x42", [0x42; 32]), ("integer-1", one), ("all-ones", [0xff; 32]), ("all-0x80", [0x80; 32])];
        let mut special_ids: Vec<Ident> = special_keys.iter().map(|(n, k)| Ident { name: n, sk: *k, pk: r::x25519_base(k) }).collect();
        // honest key pairs whose PUBLIC key has an extreme shape (found by search over derived private keys): a
        // too-coarse "canonical encoding" / "small order" / "high bit" test on public keys would refuse them
        {
            let shapes: Vec<(&'static str, Box<dyn Fn(&[u8; 32]) -> bool + Sync>)> = vec![
                ("pk-ends-7f-starts-ed-or-more", Box::new(|pk| pk[31] == 0x7f && pk[0] >= 0xed)),
                ("pk-ends-7f", Box::new(|pk| pk[31] == 0x7f)),
                ("pk-ends-00", Box::new(|pk| pk[31] == 0x00)),
                ("pk-starts-00", Box::new(|pk| pk[0] == 0x00)),
                ("pk-starts-ff", Box::new(|pk| pk[0] == 0xff)),
                ("pk-starts-01-ends-small", Box::new(|pk| pk[0] <= 0x01 && pk[31] < 0x10)),
                ("pk-starts-ec-or-more", Box::new(|pk| pk[0] >= 0xec && pk[31] >= 0x70)),
            ];
            let cands: Vec<([u8; 32], [u8; 32])> = (0..40_000u32).into_par_iter().map(|i| { let sk = derive32(seed, &format!("c06-shape-{}", i)); (sk, r::x25519_base(&sk)) }).collect();
            for (name, pred) in &shapes {
                match cands.iter().find(|(_, pk)| pred(pk)) {
                    Some((sk, pk)) => special_ids.push(Ident { name, sk: *sk, pk: *pk }),
                    None => crate::report::machinery(&format!("key-shape search found no key for {}", name)),
                }
            }
        }
        let shapes: Vec<(&str, Box<dyn Fn(usize) -> Vec<u8> + Sync>)> = vec![
            ("zeros", Box::new(|l| vec![0u8; l])),
            ("ones", Box::new(|l| vec![0xffu8; l])),
            ("repeating", Box::new(|l| (0..l).map(|i| b"kestrel!"[i % 8]).collect())),
            ("zero-tail", Box::new(move |l| { let mut v = plaintext(7, l); let z = l.saturating_sub(4096); v[z..].iter_mut().for_each(|b| *b = 0); v })),
        ];
        let mut vjobs: Vec<(usize, usize, usize, usize)> = vec![]; // (shape, length, sender, recipient) with 0 = ordinary ids[0]/ids[2]
        for si in 0..shapes.len() {
            for l in [1usize, 4096, CS, 2 * CS + 5] {
                vjobs.push((si, l, 0, 0));
            }
        }
        for k in 1..=special_ids.len() {
            vjobs.push((0, 33, k, 0));
            vjobs.push((0, 33, 0, k));
            vjobs.push((2, CS + 1, k, k));
        }
        vjobs.par_iter().for_each(|&(si, l, sk, rk)| {
            let p = (shapes[si].1)(l);
            let s = if sk == 0 { &ids[0] } else { &special_ids[sk - 1] };
            let rc = if rk == 0 { &ids[2] } else { &special_ids[rk - 1] };
            // special values also for the ephemeral and the payload key when a special identity is involved
            let (ee, pp) = if sk + rk > 0 && sk <= special_keys.len() && rk <= special_keys.len() { (special_keys[(sk + rk) % special_keys.len()].1, special_keys[(sk + 2 * rk + 1) % special_keys.len()].1) } else { (e, pk) };
            enc_key_case(rep, s, rc, &ee, &pp, &p, &[]);
            let ch: Vec<usize> = { let mut c = vec![]; let mut rem = l; while rem > 0 { let n = rem.min(CS); c.push(n); rem -= n; } c };
            dec_key_case(rep, s, rc, &ee, &pp, &p, &ch);
            rep.nontrivial(format!("value-shape-{}-{}-{}-{}", shapes[si].0, l, sk, rk).as_bytes());
        });
        rep.extra("value_shape_cases", json!(vjobs.len()));
    }
    // password mode: public API (bounded number of scrypt runs) + hook with aad = magic for all partitions
    let pws: Vec<(Vec<u8>, [u8; 32])> = vec![
        (b"pw one".to_vec(), derive32(seed, "c06-salt-1")),
        ("p\u{e4}ss".as_bytes().to_vec(), derive32(seed, "c06-salt-2")),
        (vec![], derive32(seed, "c06-salt-3")),
        (vec![b'k'; 63], derive32(seed, "c06-salt-4")),
        (vec![b'k'; 64], derive32(seed, "c06-salt-5")),
        (vec![b'k'; 65], derive32(seed, "c06-salt-6")),
    ];
    let pkeys: Vec<[u8; 32]> = pws.par_iter().map(|(pw, salt)| r::pass_key(pw, salt)).collect();
    let mut pjobs: Vec<(usize, usize, Vec<usize>)> = vec![];
    for pi in 0..pws.len() {
        pjobs.push((pi, 0, vec![]));
        pjobs.push((pi, 1, vec![]));
        pjobs.push((pi, 7, vec![2, 1, 4]));
        pjobs.push((pi, 7, vec![1; 7]));
        if pi == 0 || rep.tier == Tier::Thorough {
            pjobs.push((pi, CS, vec![]));
            pjobs.push((pi, CS + 1, vec![]));
            pjobs.push((pi, 2 * CS + 1, vec![CS - 1, 2]));
        }
    }
    pjobs.par_iter().for_each(|(pi, l, sizes)| {
        let p = plaintext(seed ^ 0x63, *l);
        enc_pass_case(rep, &pws[*pi].0, &pws[*pi].1, &pkeys[*pi], &p, sizes);
        rep.nontrivial(format!("enc-pass-{}-{}-{:?}", pi, l, sizes).as_bytes());
    });
    rep.extra("password_public_api_runs", json!(pjobs.len()));
    let tkey = derive32(seed, "c06-tiny-key");
    let css: Vec<u32> = rep.tier.pick(vec![1, 2, 3, 4], vec![1, 2, 3, 4, 5]);
    let mut tjobs = vec![];
    for &cs in &css {
        for aad in [vec![], r::PASS_MAGIC.to_vec()] {
            for l in 0..=(3 * cs as usize + 1) {
                tjobs.push((cs, aad.clone(), l));
            }
        }
    }
    tjobs.par_iter().for_each(|(cs, aad, l)| {
        let p = plaintext(seed ^ 0x64, *l);
        if *l == 0 {
            enc_tiny_case(rep, &tkey, aad, *cs, &p, &[]);
        }
        for comp in compositions(*l, *cs as usize) {
            enc_tiny_case(rep, &tkey, aad, *cs, &p, &comp);
            rep.nontrivial(format!("enc-tiny-{}-{}-{:?}", cs, aad.len(), comp).as_bytes());
        }
    });
    rep.sample(json!({"kind":"enc-tiny","cs":3,"aad":"65676b20","L":10,"reads":"every composition into parts <= 3"}));

    // (ii) decrypt side: REF-written files with every composition of L <= 8 (incl. chunkings the encryptor never emits)
    let mut djobs: Vec<(usize, Vec<usize>)> = vec![(0, vec![0])];
    for l in 1..=8usize {
        for comp in compositions(l, l) {
            djobs.push((l, comp));
        }
    }
    djobs.par_iter().for_each(|(l, comp)| {
        let p = plaintext(seed ^ 0x65, *l);
        for (ki, (s, rc)) in keysets.iter().enumerate() {
            if ki > 0 && *l > 5 && rep.tier == Tier::Quick {
                continue;
            }
            dec_key_case(rep, s, rc, &e, &pk, &p, comp);
        }
        // password mode framing through the hook (aad = magic) and through the public API for one password
        let stream = r::write_chunks(&tkey, &r::PASS_MAGIC, &p, comp);
        dec_stream_case(
            rep,
            "dec-tiny-magic",
            &Subject::TinyDec { key: hx(&tkey), aad: hx(&r::PASS_MAGIC), cs: 65536 },
            &stream,
            &p,
            json!({"kind":"dec-tiny","key":hx(&tkey),"aad":hx(&r::PASS_MAGIC),"plain":hx(&p),"chunking":comp}),
            &format!("{:?}", comp),
        );
        rep.nontrivial(format!("dec-{}-{:?}", l, comp).as_bytes());
    });
    rep.sample(json!({"kind":"dec-key","L":8,"chunking":[1,1,2,1,3],"note":"written by REF, must decrypt in Rust to the same plaintext and sender"}));
    // mixtures of chunk sizes {1, 2, cs-1, cs}
    let mixes: Vec<Vec<usize>> = vec![
        vec![CS, CS],
        vec![1, CS],
        vec![CS, 1],
        vec![CS - 1, 2, CS, 1],
        vec![2, CS - 1, 1],
        vec![CS, CS - 1, CS],
        vec![1, 2, 1, 2, CS],
    ];
    mixes.par_iter().for_each(|mix| {
        let l: usize = mix.iter().sum();
        let p = plaintext(seed ^ 0x66, l);
        let (s, rc) = keysets[0];
        dec_key_case(rep, s, rc, &e, &pk, &p, mix);
        let stream = r::write_pass_file_with_key(&pkeys[0], &pws[0].1, &p, mix);
        dec_stream_case(rep, "dec-pass", &Subject::PassDec { pw: hx(&pws[0].0) }, &stream, &p, json!({"kind":"dec-pass","pw":hx(&pws[0].0),"salt":hx(&pws[0].1),"len":l,"chunking":mix}), &format!("{:?}", mix));
        rep.nontrivial(format!("dec-mix-{:?}", mix).as_bytes());
    });
    // many 1-byte chunks: counters reach the third nonce byte through the real decrypt path
    let nchunks = rep.tier.pick(66000usize, 70000);
    {
        let p = plaintext(seed ^ 0x67, nchunks);
        let (s, rc) = keysets[0];
        dec_key_case(rep, s, rc, &e, &pk, &p, &vec![1; nchunks]);
        rep.nontrivial(b"dec-many-chunks");
        rep.extra("max_chunk_counter_through_decrypt_path", json!(nchunks - 1));
    }
    // encrypt side with many chunks (1-byte reads): counters beyond 255 and 65535 on the encrypt path
    {
        let n = rep.tier.pick(66000usize, 70000);
        let p = plaintext(seed ^ 0x68, n);
        let (s, rc) = keysets[0];
        enc_key_case(rep, s, rc, &e, &pk, &p, &vec![1; n]);
        rep.nontrivial(b"enc-many-chunks");
    }

    // (iii) nonce layout through the hook (shared with C19)
    let nk = derive32(seed, "c06-noise-key");
    for &c in &crate::c19::counters() {
        rep.eval(1);
        let want = r::aead_seal(&nk, &r::noise_nonce(c), b"ad", b"data");
        match guarded(|| kestrel_crypto::verif_chapoly_encrypt_noise(&nk, c, b"ad", b"data")) {
            Ok(got) if got == want => {}
            _ => rep.violation("nonce-layout", json!({"kind":"nonce","key":hx(&nk),"counter":c.to_string()}), format!("nonce for counter {} is not 00000000 || LE64(counter)", c)),
        }
        rep.nontrivial(format!("nonce-{}", c).as_bytes());
    }

    // recipient public key supplied with bit 255 set (non-canonical but legal encoding): the raw bytes are hashed into the
    // handshake, the scalar multiplication masks the bit (RFC 7748)
    {
        let (s, rc) = (&ids[0], &ids[2]);
        let mut topbit = rc.pk;
        topbit[31] |= 0x80;
        for l in [0usize, 5, 100] {
            rep.eval(2);
            let p = plaintext(seed ^ 0x69, l);
            let want = r::write_key_file(&s.sk, &topbit, &e, &pk, &p, &[l]).unwrap();
            let sub = Subject::KeyEnc { s: hx(&s.sk), s_pub: hx(&s.pk), r_pub: hx(&topbit), e: hx(&e), payload: hx(&pk) };
            let (res, got) = run_plain(&sub, &p);
            if !res.is_ok() || got != want {
                rep.violation("enc-key-topbit-recipient", json!({"kind":"topbit","len":l}), format!("key_encrypt to a recipient key encoded with bit 255 set: output differs from the specification ({})", res.brief()));
            }
            // the reader that knows its own key under that encoding must accept the specification's file
            let (dres, out) = run_plain(&Subject::KeyDec { r: hx(&rc.sk), r_pub: hx(&topbit) }, &want);
            if !matches!(&dres, Res::Ok(Some(sn)) if sn[..] == s.pk[..]) || out != p {
                rep.violation("dec-key-topbit-recipient", json!({"kind":"topbit","len":l}), format!("conforming file addressed to a recipient key encoded with bit 255 set is not decrypted: {}", dres.brief()));
            }
            rep.nontrivial(format!("topbit-{}", l).as_bytes());
        }
    }
    cli_conformance(rep);
    cli_odd_chunkings(rep);
    call_order_conformance(rep);
    // (iv) golden files
    golden(rep);
    crate::chan::password_files(rep, "C06");
    chunk_length_sweep(rep, "C06", true);
    cli_path_layouts(rep);
    small_stacks(rep);
    interrupted_reads(rep);
    rep.set_exhaustive(true);
}

/// "Every conforming file, however it is split into chunks, decrypts to its plaintext" through the CLI: REF-written files
/// with short non-final chunks, chunks of 1 byte, and an empty final chunk, given as FILE and on stdin, to -o and to stdout.
fn cli_odd_chunkings(rep: &Report) {
    use crate::fx::Party;
    use crate::proc::{self, Cmd, Scratch};
    use rayon::prelude::*;
    let seed = rep.seed;
    let alice = Party::new(seed, "alice", "alicepw");
    let bob = Party::new(seed, "bob", "bobpw");
    let kr = crate::fx::keyring(&[(&alice, false), (&bob, true)]);
    let salt = derive32(seed, "c06-odd-salt");
    let pkey = r::pass_key(b"oddpw", &salt);
    let chunkings: Vec<(&str, Vec<usize>)> = vec![("five-chunks-of-1000", vec![1000; 5]), ("descending", vec![3000, 2000, 1000, 1]), ("twenty-1-byte-chunks", vec![1; 20]), ("full-then-1", vec![CS, 1]), ("short-then-full", vec![10, CS])];
    let mut jobs = vec![];
    for (cn, ch) in &chunkings {
        for mode in ["key", "pass"] {
            for wiring in 0..3u8 {
                jobs.push((*cn, ch.clone(), mode, wiring));
            }
        }
    }
    jobs.par_iter().for_each(|(cn, ch, mode, wiring)| {
        rep.eval(1);
        rep.nontrivial(format!("cli-odd-{}-{}-{}", cn, mode, wiring).as_bytes());
        let total: usize = ch.iter().sum();
        let p = plaintext(seed ^ 0x6c, total);
        let file = if *mode == "key" { r::write_key_file(&alice.sk, &bob.pk, &derive32(seed, "c06-odd-e"), &derive32(seed, "c06-odd-p"), &p, ch).unwrap() } else { r::write_pass_file_with_key(&pkey, &salt, &p, ch) };
        let attempt = || -> Result<(), String> {
            let sc = Scratch::new();
            sc.write("kr.txt", kr.as_bytes());
            sc.write("in.ktl", &file);
            // wiring 0: FILE -> -o ; 1: FILE -> stdout ; 2: stdin -> -o
            let mut a: Vec<&str> = if *mode == "key" { vec!["decrypt", "-t", "bob", "-k", "kr.txt", "--env-pass"] } else { vec!["password", "decrypt", "--env-pass"] };
            if *wiring != 2 {
                a.push("in.ktl");
            }
            if *wiring != 1 {
                a.extend_from_slice(&["-o", "out.bin"]);
            }
            let mut c = Cmd::new(&a).env("KESTREL_PASSWORD", if *mode == "key" { "bobpw" } else { "oddpw" });
            if *wiring == 2 {
                c = c.stdin(&file);
            }
            let o = proc::run(&c, &sc.0);
            o.well_behaved()?;
            let got = if *wiring == 1 { o.stdout.clone() } else { sc.read("out.bin").unwrap_or_default() };
            if !o.ok() || got != p {
                return Err(format!("a conforming {}-mode file of {} bytes in chunks {:?} ({}) is not decrypted to its plaintext: exit {:?}, {} bytes out", mode, total, if ch.len() > 6 { &ch[..6] } else { &ch[..] }, ["FILE to -o", "FILE to stdout", "stdin to -o"][*wiring as usize], o.code, got.len()));
            }
            Ok(())
        };
        if attempt().is_err() {
            if let Err(e) = attempt() {
                rep.violation("cli/odd-chunking", json!({"kind":"cli-conf","chunking":cn,"mode":mode,"wiring":wiring}), e);
            }
        }
    });
    rep.extra("cli_odd_chunking_runs", json!(jobs.len()));
}

/// Byte-for-byte conformance must not depend on what the same thread did before: every ordered pair of
/// {key encrypt, password encrypt, key decrypt, password decrypt} on a fresh thread, each step checked against REF.
fn call_order_conformance(rep: &'static Report) {
    let seed = rep.seed;
    let ids = idents(seed);
    let (s, rc) = (ids[0].clone(), ids[2].clone());
    let e = derive32(seed, "c06-seq-e");
    let pk = derive32(seed, "c06-seq-pk");
    let pw = b"c06 order".to_vec();
    let salt = derive32(seed, "c06-seq-salt");
    let key = r::pass_key(&pw, &salt);
    let mut hs = vec![];
    for a in 0..4u8 {
        for b in 0..4u8 {
            let (s, rc, pw) = (s.clone(), rc.clone(), pw.clone());
            hs.push(std::thread::spawn(move || {
                for (step, op) in [a, b].into_iter().enumerate() {
                    let l = if step == 0 { 70usize } else { 9 };
                    let p = plaintext(seed ^ 0x6b ^ step as u64, l);
                    match op {
                        0 => enc_key_case(rep, &s, &rc, &e, &pk, &p, &[]),
                        1 => enc_pass_case(rep, &pw, &salt, &key, &p, &[]),
                        2 => dec_key_case(rep, &s, &rc, &e, &pk, &p, &[l]),
                        _ => {
                            let f = r::write_pass_file_with_key(&key, &salt, &p, &[l]);
                            dec_stream_case(rep, "dec-pass", &Subject::PassDec { pw: hx(&pw) }, &f, &p, json!({"kind":"call-order","a":a,"b":b}), "password file after another call on the same thread");
                        }
                    }
                }
            }));
        }
    }
    for h in hs {
        if h.join().is_err() {
            rep.violation("call-order/panic", json!({"kind":"call-order"}), "worker thread panicked".into());
        }
    }
    rep.nontrivial(b"call-order-pairs");
    rep.extra("call_order_pairs_on_fresh_threads", json!(16));
}

/// CLI level: password files written by the specification decrypt with the CLI under exactly those password bytes, and
/// files written by the CLI are read by the specification — for passwords with leading/trailing blanks and line ends.
/// Where the files are must not matter: conforming files decrypt, and plaintexts encrypt to conforming files, with input
/// and output named through sub-directories (same base name in different directories included), `./`, absolute paths.
fn cli_path_layouts(rep: &Report) {
    use crate::fx::Party;
    use crate::proc::{self, Cmd, Scratch};
    let seed = rep.seed;
    let alice = Party::new(seed, "alice", "alicepw");
    let bob = Party::new(seed, "bob", "bobpw");
    let kr = crate::fx::keyring(&[(&alice, true), (&bob, true)]);
    let p = plaintext(seed ^ 0x6b, 300);
    let kf = r::write_key_file(&alice.sk, &bob.pk, &derive32(seed, "c06-path-e"), &derive32(seed, "c06-path-p"), &p, &[300]).unwrap();
    let salt = derive32(seed, "c06-path-salt");
    let pf = r::write_pass_file_with_key(&r::pass_key(b"filepw", &salt), &salt, &p, &[300]);
    let layouts: Vec<(&str, &str)> = vec![("inbox/data.txt", "plain/data.txt"), ("a/b/c/in.dat", "out.dat"), ("in.dat", "deep/er/out.dat"), ("./in.dat", "./out.dat"), ("ABS/in.dat", "ABS/out.dat"), ("d1/x", "d2/x"), ("data.txt", "sub/data.txt")];
    let mut jobs = vec![];
    for li in 0..layouts.len() {
        for op in ["decrypt", "encrypt", "pass-decrypt", "pass-encrypt"] {
            jobs.push((li, op));
        }
    }
    jobs.par_iter().for_each(|&(li, op)| {
        rep.eval(1);
        rep.nontrivial(format!("cli-path-layout-{}-{}", li, op).as_bytes());
        let attempt = || -> Result<(), String> {
            let sc = Scratch::new();
            let root = sc.0.to_str().unwrap().to_string();
            let fix = |n: &str| -> String { n.replace("ABS", &root) };
            let (inn, outn) = (fix(layouts[li].0), fix(layouts[li].1));
            for n in [&inn, &outn] {
                if let Some(dir) = std::path::Path::new(n).parent() {
                    let d = if dir.is_absolute() { dir.to_path_buf() } else { sc.0.join(dir) };
                    let _ = std::fs::create_dir_all(d);
                }
            }
            sc.write("kr.txt", kr.as_bytes());
            let input: &[u8] = match op {
                "decrypt" => &kf,
                "pass-decrypt" => &pf,
                _ => &p,
            };
            let ip = if std::path::Path::new(&inn).is_absolute() { std::path::PathBuf::from(&inn) } else { sc.0.join(&inn) };
            std::fs::write(&ip, input).map_err(|e| format!("MACHINERY: {}", e))?;
            let (args, pw): (Vec<&str>, &str) = match op {
                "decrypt" => (vec!["decrypt", &inn, "-t", "bob", "-k", "kr.txt", "-o", &outn, "--env-pass"], "bobpw"),
                "encrypt" => (vec!["encrypt", &inn, "-t", "bob", "-f", "alice", "-k", "kr.txt", "-o", &outn, "--env-pass"], "alicepw"),
                "pass-decrypt" => (vec!["password", "decrypt", &inn, "-o", &outn, "--env-pass"], "filepw"),
                _ => (vec!["password", "encrypt", &inn, "-o", &outn, "--env-pass"], "filepw"),
            };
            let o = proc::run(&Cmd::new(&args).env("KESTREL_PASSWORD", pw), &sc.0);
            o.well_behaved()?;
            let op_path = if std::path::Path::new(&outn).is_absolute() { std::path::PathBuf::from(&outn) } else { sc.0.join(&outn) };
            let got = std::fs::read(&op_path).unwrap_or_default();
            let good = o.ok()
                && match op {
                    "decrypt" | "pass-decrypt" => got == p,
                    "encrypt" => matches!(r::read_key_file(&bob.sk, &got), Ok(k) if k.parsed.plaintext == p && k.sender == alice.pk),
                    _ => got.len() >= 36 && matches!(r::read_pass_file_with_key(&r::pass_key(b"filepw", got[4..36].try_into().unwrap()), &got), Ok(k) if k.plaintext == p),
                };
            if !good {
                return Err(format!("kestrel {} with input '{}' and output '{}': {} ({} bytes at the output path)", op, layouts[li].0, layouts[li].1, o.summary(), got.len()));
            }
            Ok(())
        };
        if let Err(e) = attempt() {
            if e.starts_with("MACHINERY") {
                crate::report::machinery(&e);
            }
            if let Err(e2) = attempt() {
                rep.violation("cli/path-layout", json!({"kind":"cli-conf","layout":[layouts[li].0, layouts[li].1],"op":op}), e2);
            }
        }
    });
    // an input whose reported size is 0 although it has content (/proc/version): both encryptors produce the conforming file
    // of its content
    if let Ok(data) = std::fs::read("/proc/version") {
        for op in ["encrypt", "pass-encrypt"] {
            rep.eval(1);
            rep.nontrivial(format!("cli-proc-input-{}", op).as_bytes());
            let sc = Scratch::new();
            sc.write("kr.txt", kr.as_bytes());
            let (args, pw): (Vec<&str>, &str) = if op == "encrypt" { (vec!["encrypt", "/proc/version", "-t", "bob", "-f", "alice", "-k", "kr.txt", "-o", "out.ktl", "--env-pass"], "alicepw") } else { (vec!["password", "encrypt", "/proc/version", "-o", "out.ktl", "--env-pass"], "filepw") };
            let o = proc::run(&Cmd::new(&args).env("KESTREL_PASSWORD", pw), &sc.0);
            let got = sc.read("out.ktl").unwrap_or_default();
            let good = o.ok() && if op == "encrypt" { matches!(r::read_key_file(&bob.sk, &got), Ok(k) if k.parsed.plaintext == data) } else { got.len() >= 36 && matches!(r::read_pass_file_with_key(&r::pass_key(b"filepw", got[4..36].try_into().unwrap()), &got), Ok(k) if k.plaintext == data) };
            if !good {
                rep.violation("cli/path-layout", json!({"kind":"cli-conf","layout":["/proc/version","out.ktl"],"op":op}), format!("kestrel {} of /proc/version ({} bytes, reported size 0): the {}-byte output is not the conforming file of its content ({})", op, data.len(), got.len(), o.summary().chars().take(120).collect::<String>()));
            }
        }
    }
    rep.extra("cli_path_layout_runs", json!(jobs.len()));
}

/// `kv stack-child <stack_kib>`: the four library operations on a thread whose stack has the given size; prints the hex
/// SHA-256 of each output. 128 KiB is the smallest default thread stack among common C libraries (musl).
pub fn stack_child_main(a: &[String]) -> ! {
    let kib: usize = a[0].parse().unwrap_or(128);
    let seed: u64 = a[1].parse().unwrap_or(1);
    let t = std::thread::Builder::new().stack_size(kib * 1024).spawn(move || {
        const CSZ: usize = 65536;
        let ids = idents(seed);
        let p = plaintext(seed ^ 0x57ac, CSZ + 77);
        let e = derive32(seed, "stack-e");
        let pay = derive32(seed, "stack-pay");
        let salt = derive32(seed, "stack-salt");
        let mut lines = vec![];
        let mut out = Vec::new();
        let mut src: &[u8] = &p;
        let r1 = run_rw(&Subject::KeyEnc { s: hx(&ids[0].sk), s_pub: hx(&ids[0].pk), r_pub: hx(&ids[1].pk), e: hx(&e), payload: hx(&pay) }, &mut src, &mut out);
        lines.push(format!("key_encrypt {} {}", r1.is_ok(), hx(&r::sha256(&out))));
        let kf = out.clone();
        let mut out2 = Vec::new();
        let mut src2: &[u8] = &kf;
        let r2 = run_rw(&Subject::KeyDec { r: hx(&ids[1].sk), r_pub: hx(&ids[1].pk) }, &mut src2, &mut out2);
        lines.push(format!("key_decrypt {} {}", r2.is_ok(), hx(&r::sha256(&out2))));
        let mut out3 = Vec::new();
        let mut src3: &[u8] = &p;
        let r3 = run_rw(&Subject::PassEnc { pw: hx(b"stackpw"), salt: hx(&salt) }, &mut src3, &mut out3);
        lines.push(format!("pass_encrypt {} {}", r3.is_ok(), hx(&r::sha256(&out3))));
        let mut out4 = Vec::new();
        let mut src4: &[u8] = &out3;
        let r4 = run_rw(&Subject::PassDec { pw: hx(b"stackpw") }, &mut src4, &mut out4);
        lines.push(format!("pass_decrypt {} {}", r4.is_ok(), hx(&r::sha256(&out4))));
        lines
    });
    match t.map(|h| h.join()) {
        Ok(Ok(lines)) => {
            for l in lines {
                println!("{}", l);
            }
            std::process::exit(0)
        }
        _ => std::process::exit(3),
    }
}

/// The library's need for stack is part of "decrypts": the four operations on threads with 128 / 192 / 256 KiB of stack
/// (child processes, so that an overflow is attributed) produce exactly the bytes they produce on a large stack.
fn small_stacks(rep: &Report) {
    use std::os::unix::process::ExitStatusExt;
    let exe = std::env::current_exe().unwrap_or_else(|_| crate::report::machinery("current_exe"));
    let run = |kib: usize| std::process::Command::new(&exe).args(["stack-child", &kib.to_string(), &rep.seed.to_string()]).stdin(std::process::Stdio::null()).stderr(std::process::Stdio::null()).output();
    let base = match run(8192) {
        Ok(o) if o.status.success() => String::from_utf8_lossy(&o.stdout).to_string(),
        other => crate::report::machinery(&format!("the stack child does not run on an 8 MiB stack: {:?}", other.map(|o| o.status))),
    };
    // the four results on the large stack are themselves checked: both encryptions are what REF reads back
    if base.lines().count() != 4 || base.lines().any(|l| !l.contains(" true ")) {
        rep.violation("lib/small-stack", json!({"kind":"stack","kib":8192}), format!("the four operations do not all succeed on an 8 MiB stack: {:?}", base));
        return;
    }
    for kib in [128usize, 192, 256] {
        rep.eval(1);
        rep.nontrivial(format!("small-stack-{}", kib).as_bytes());
        match run(kib) {
            Err(e) => crate::report::machinery(&format!("cannot start the stack child: {}", e)),
            Ok(o) => {
                let got = String::from_utf8_lossy(&o.stdout).to_string();
                if !o.status.success() || got != base {
                    rep.violation(
                        "lib/small-stack",
                        json!({"kind":"stack","kib":kib}),
                        format!("key_encrypt / key_decrypt / pass_encrypt / pass_decrypt of a 2-chunk plaintext on a thread with {} KiB of stack: {}", kib, if let Some(s) = o.status.signal() { format!("the process died by signal {} (stack overflow)", s) } else if !o.status.success() { format!("exit status {:?}", o.status.code()) } else { "results differ from those on a large stack".to_string() }),
                    );
                }
            }
        }
    }
    rep.extra("small_stack_sizes_kib", json!([128, 192, 256]));
}

/// Conformance of the writer when a read of the plaintext is interrupted (EINTR) at any one call: the encryptor may report
/// the interruption, but a file it completes (Ok) is the format's file for the plaintext -- consecutive chunk numbers,
/// REF reads it back.
fn interrupted_reads(rep: &Report) {
    use crate::env::*;
    let seed = rep.seed;
    let tkey = derive32(seed, "c06-intr-key");
    let ids = idents(seed);
    let e = derive32(seed, "c06-intr-e");
    let pay = derive32(seed, "c06-intr-pay");
    let mut items: Vec<(String, Subject, Vec<u8>)> = vec![];
    for (cs, l) in [(2u32, 7usize), (3, 10), (1, 4)] {
        items.push((format!("tiny cs={} len={}", cs, l), Subject::TinyEnc { key: hx(&tkey), aad: hx(&r::PASS_MAGIC), cs }, plaintext(seed ^ 0x6c, l)));
    }
    items.push(("key_encrypt 2 chunks".into(), Subject::KeyEnc { s: hx(&ids[0].sk), s_pub: hx(&ids[0].pk), r_pub: hx(&ids[1].pk), e: hx(&e), payload: hx(&pay) }, plaintext(seed ^ 0x6d, 65536 + 9)));
    let execs = std::sync::atomic::AtomicU64::new(0);
    items.par_iter().for_each(|(label, sub, p)| {
        let mut menu = Menu::shorts(ReadMode::Bounded, false).no_record();
        menu.read_intr = true;
        let mut b = Budget::new(1, 0, 2);
        b.shorts_total = 1;
        let st = explore(p, menu, b, &|e| run_env(sub, e), &|env, res| {
            if !res.is_ok() {
                return;
            }
            let good = match sub {
                Subject::TinyEnc { cs, .. } => matches!(r::read_chunks(&tkey, &r::PASS_MAGIC, &env.sink, *cs), Ok(k) if k.plaintext == *p && r::write_chunks(&tkey, &r::PASS_MAGIC, p, &k.chunking) == env.sink),
                _ => matches!(r::read_key_file(&ids[1].sk, &env.sink), Ok(k) if k.parsed.plaintext == *p),
            };
            if !good {
                let mut c = Case::new(sub, p, menu, env).json(json!({"label":label}));
                c["kind"] = json!("intr-read");
                rep.violation("enc-ok-but-not-conforming-after-an-interrupted-read", c, format!("{}: Ok under [{}], but the {} bytes written are not the format's file for the plaintext", label, describe(env), env.sink.len()));
            }
        })
        .unwrap_or_else(|e| crate::report::machinery(&e));
        execs.fetch_add(st.executions, std::sync::atomic::Ordering::Relaxed);
        rep.nontrivial(format!("intr-read-{}", label).as_bytes());
    });
    rep.eval(execs.load(std::sync::atomic::Ordering::Relaxed));
    rep.extra("interrupted_read_executions", json!(execs.load(std::sync::atomic::Ordering::Relaxed)));
}

fn cli_conformance(rep: &Report) {
    use crate::proc::{self, Cmd, Scratch};
    let seed = rep.seed;
    let pws = ["pw", "pw\n", "pw\r\n", " pw ", "p\u{e4}ss", "", "\n"];
    let p = plaintext(seed ^ 0x6a, 70);
    let mut jobs = vec![];
    for pw in pws {
        for pre in [false, true] {
            jobs.push((pw, pre));
        }
    }
    jobs.par_iter().for_each(|&(pw, pre)| {
        let pw = &pw;
        rep.eval(2);
        rep.nontrivial(format!("cli-conf-{:?}-{}", pw, pre).as_bytes());
        let attempt = || -> Result<(), String> {
            let sc = Scratch::new();
            if pre {
                // both output paths already hold longer files: what the tool leaves there must still be exactly the file
                sc.write("out.bin", &vec![b'Q'; 5000]);
                sc.write("cli.ktl", &vec![b'Q'; 5000]);
            }
            let salt = derive32(seed, "c06-cli-salt");
            let reff = r::write_pass_file_with_key(&r::pass_key(pw.as_bytes(), &salt), &salt, &p, &[70]);
            sc.write("ref.ktl", &reff);
            sc.write("plain.bin", &p);
            let o = proc::run(&Cmd::new(&["password", "decrypt", "ref.ktl", "-o", "out.bin", "--env-pass"]).env("KESTREL_PASSWORD", pw), &sc.0);
            o.well_behaved()?;
            if !o.ok() || sc.read("out.bin").as_deref() != Some(&p[..]) {
                return Err(format!("a conforming password file written for the password {:?} is not decrypted by `kestrel password decrypt` given exactly that password: {}", pw, o.summary()));
            }
            let o = proc::run(&Cmd::new(&["password", "encrypt", "plain.bin", "-o", "cli.ktl", "--env-pass"]).env("KESTREL_PASSWORD", pw), &sc.0);
            o.well_behaved()?;
            let f = sc.read("cli.ktl").ok_or("no file written")?;
            if !o.ok() || f.len() < 36 {
                return Err(format!("password encrypt failed: {}", o.summary()));
            }
            let s2: [u8; 32] = f[4..36].try_into().unwrap();
            match r::read_pass_file_with_key(&r::pass_key(pw.as_bytes(), &s2), &f) {
                Ok(pp) if pp.plaintext == p => Ok(()),
                other => Err(format!("the file `kestrel password encrypt` writes for the password {:?} is not the conforming file for those password bytes: {:?}", pw, other.map(|x| x.chunking))),
            }
        };
        if attempt().is_err() {
            if let Err(e) = attempt() {
                rep.violation(if pre { "cli/password-file-conformance-preexisting-output" } else { "cli/password-file-conformance" }, json!({"kind":"cli-conf","pw":pw,"preexisting_output":pre}), e);
            }
        }
    });
}

pub fn replay(rep: &'static Report, case: &Value) {
    if case["kind"] == "intr-read" {
        interrupted_reads(rep);
        return;
    }
    if case["kind"] == "stack" {
        small_stacks(rep);
        return;
    }
    if case["kind"] == "length-sweep" {
        chunk_length_sweep(rep, "C06", true);
        return;
    }
    if case["kind"] == "chan" {
        println!("  re-running the password-channel part");
        crate::chan::password_files(rep, "C06");
        return;
    }
    if case["kind"] == "cli-conf" || case["kind"] == "topbit" || case["kind"] == "call-order" {
        println!("  re-running C06");
        run(rep);
        return;
    }
    let a32 = |k: &str| -> [u8; 32] { unhx(case[k].as_str().unwrap_or("")).try_into().unwrap_or([0; 32]) };
    let ident = |k: &str| -> Ident {
        let sk = a32(k);
        Ident { name: "replay", sk, pk: r::x25519_base(&sk) }
    };
    let sizes = |k: &str| -> Vec<usize> { case[k].as_array().map(|a| a.iter().map(|v| v.as_u64().unwrap() as usize).collect()).unwrap_or_default() };
    let len = case["len"].as_u64().unwrap_or(0) as usize;
    match case["kind"].as_str().unwrap_or("") {
        "enc-key" => {
            // plaintext regenerated by formula: try the generators used by run()
            for x in [0x61u64, 0x62, 0x68] {
                let p = plaintext(rep.seed ^ x, len);
                if case["plain"].as_str().map(|h| h.is_empty() || unhx(h) == p).unwrap_or(true) && hx(&p[..p.len().min(4)]) == case["pseed"].as_str().unwrap_or("") {
                    enc_key_case(rep, &ident("s"), &ident("r"), &a32("e"), &a32("pk"), &p, &sizes("sizes"));
                    return;
                }
            }
            crate::report::machinery("cannot regenerate plaintext for replay");
        }
        "enc-pass" => {
            let pw = unhx(case["pw"].as_str().unwrap());
            let salt = a32("salt");
            let p = plaintext(rep.seed ^ 0x63, len);
            enc_pass_case(rep, &pw, &salt, &r::pass_key(&pw, &salt), &p, &sizes("sizes"));
        }
        "enc-tiny" => enc_tiny_case(rep, &a32("key"), &unhx(case["aad"].as_str().unwrap()), case["cs"].as_u64().unwrap() as u32, &unhx(case["plain"].as_str().unwrap()), &sizes("sizes")),
        "dec-key" => {
            let chunking: Vec<usize> = if case["chunking"].is_array() { sizes("chunking") } else { vec![case["chunking"]["each"].as_u64().unwrap() as usize; case["chunking"]["n"].as_u64().unwrap() as usize] };
            for x in [0x65u64, 0x66, 0x67] {
                let p = plaintext(rep.seed ^ x, len);
                if case["plain"].as_str().map(|h| h.is_empty() || unhx(h) == p).unwrap_or(true) {
                    dec_key_case(rep, &ident("s"), &ident("r"), &a32("e"), &a32("pk"), &p, &chunking);
                }
            }
        }
        "dec-tiny" => {
            let p = unhx(case["plain"].as_str().unwrap());
            let key = a32("key");
            let aad = unhx(case["aad"].as_str().unwrap());
            let stream = r::write_chunks(&key, &aad, &p, &sizes("chunking"));
            dec_stream_case(rep, "dec-tiny-magic", &Subject::TinyDec { key: hx(&key), aad: hx(&aad), cs: 65536 }, &stream, &p, case.clone(), "replay");
        }
        "dec-pass" => {
            let pw = unhx(case["pw"].as_str().unwrap());
            let salt = a32("salt");
            let p = plaintext(rep.seed ^ 0x66, len);
            let stream = r::write_pass_file_with_key(&r::pass_key(&pw, &salt), &salt, &p, &sizes("chunking"));
            dec_stream_case(rep, "dec-pass", &Subject::PassDec { pw: hx(&pw) }, &stream, &p, case.clone(), "replay");
        }
        "nonce" => {
            let c: u64 = case["counter"].as_str().unwrap().parse().unwrap();
            let nk = a32("key");
            let want = r::aead_seal(&nk, &r::noise_nonce(c), b"ad", b"data");
            if guarded(|| kestrel_crypto::verif_chapoly_encrypt_noise(&nk, c, b"ad", b"data")).ok() != Some(want) {
                rep.violation("nonce-layout", case.clone(), "nonce layout differs".into());
            }
        }
        "golden" => golden(rep),
        k => crate::report::machinery(&format!("unknown replay kind {}", k)),
    }
}
