//! C02 — password round trip; every other password is rejected (E-ENV + E-GRID).
use crate::c01::{check_decryption, check_encryption, tiny_scope};
use crate::env::*;
use crate::refspec as r;
use crate::report::{Report, Tier};
use crate::streams::*;
use crate::util::*;
use rayon::prelude::*;
use serde_json::{json, Value};
use std::collections::HashSet;
use std::sync::atomic::{AtomicU64, Ordering};
use std::sync::Mutex;

const CS: usize = 65536;

fn pair_case(rep: &Report, wn: &str, w: &[u8], w2n: &str, w2: &[u8], salt: &[u8; 32], p: &[u8], file: &[u8]) {
    rep.eval(1);
    let case = json!({"kind":"pw-pair","w":hx(w),"w2":hx(w2),"wn":wn,"w2n":w2n,"salt":hx(salt),"plain":hx(p)});
    let (res, out) = run_plain(&Subject::PassDec { pw: hx(w2) }, file);
    if w == w2 {
        match res {
            Res::Ok(_) if out == p => {}
            other => rep.violation("pass/same-password-fails", case, format!("decryption under the same password '{}' gives {} ({} bytes out)", wn, other.brief(), out.len())),
        }
        return;
    }
    match res {
        Res::Err(..) => {
            if !out.is_empty() {
                rep.violation("pass/wrong-password-releases-plaintext", case, format!("wrong password '{}' for a file locked with '{}': error returned but {} bytes were released", w2n, wn, out.len()));
            }
        }
        Res::Panic(m) => rep.violation("pass/panic", case, format!("panic: {}", m)),
        Res::Ok(_) => {
            let what = format!(
                "file encrypted under password '{}' ({} bytes) decrypts under the different password '{}' ({} bytes){}",
                wn,
                w.len(),
                w2n,
                w2.len(),
                if r::hmac_norm(w) == r::hmac_norm(w2) { " — the two are the same HMAC key after RFC 2104 key normalisation (zero padding / pre-hashing), inherent in PBKDF2-HMAC as used by RFC 7914 scrypt" } else { "" }
            );
            if r::hmac_norm(w) == r::hmac_norm(w2) {
                rep.known_or_violation(&format!("pw-pair:{}/{}", wn, w2n), "pass/other-password-accepted", case, what);
            } else {
                rep.violation("pass/other-password-accepted", case, what);
            }
        }
    }
}

/// "For every plaintext length": one conforming password-mode file of 4 GiB + 3 chunks + 5 bytes (65 540 records, so it
/// also crosses the 2^16 record count), generated record by record by REF while pass_decrypt consumes it; the sink
/// verifies every plaintext byte. Runs on its own thread next to the rest of the check (quick: decrypt only).
fn four_gib_stream(rep: &Report) -> Result<(), String> {
    use std::io::{Read, Write};
    const CSZ: usize = 65536;
    let total: u64 = (1u64 << 32) + 3 * CSZ as u64 + 5;
    let pw = b"c02 big".to_vec();
    let salt = derive32(rep.seed, "c02-big-salt");
    let key = r::pass_key(&pw, &salt);
    fn pat(pos: u64) -> u8 {
        (pos as u8) ^ ((pos >> 8) as u8).wrapping_mul(31) ^ ((pos >> 16) as u8) ^ ((pos >> 27) as u8)
    }
    struct Gen {
        hdr: Vec<u8>,
        hpos: usize,
        key: [u8; 32],
        total: u64,
        next: u64,
        idx: u64,
        cur: Vec<u8>,
        cpos: usize,
        done: bool,
    }
    impl Read for Gen {
        fn read(&mut self, buf: &mut [u8]) -> std::io::Result<usize> {
            if self.hpos < self.hdr.len() {
                let n = buf.len().min(self.hdr.len() - self.hpos);
                buf[..n].copy_from_slice(&self.hdr[self.hpos..self.hpos + n]);
                self.hpos += n;
                return Ok(n);
            }
            if self.cpos == self.cur.len() {
                if self.done {
                    return Ok(0);
                }
                let l = ((self.total - self.next).min(CSZ as u64)) as usize;
                let pt: Vec<u8> = (0..l as u64).map(|i| pat(self.next + i)).collect();
                let last = self.next + l as u64 == self.total;
                self.cur = r::seal_conforming(&self.key, &r::PASS_MAGIC, self.idx, last, &pt).bytes();
                self.cpos = 0;
                self.next += l as u64;
                self.idx += 1;
                self.done = last;
            }
            let n = buf.len().min(self.cur.len() - self.cpos);
            buf[..n].copy_from_slice(&self.cur[self.cpos..self.cpos + n]);
            self.cpos += n;
            Ok(n)
        }
    }
    struct Verify {
        pos: u64,
        bad: Option<u64>,
    }
    impl Write for Verify {
        fn write(&mut self, b: &[u8]) -> std::io::Result<usize> {
            if self.bad.is_none() {
                for (i, &x) in b.iter().enumerate() {
                    if x != pat(self.pos + i as u64) {
                        self.bad = Some(self.pos + i as u64);
                        break;
                    }
                }
            }
            self.pos += b.len() as u64;
            Ok(b.len())
        }
        fn flush(&mut self) -> std::io::Result<()> {
            Ok(())
        }
    }
    let mut hdr = r::PASS_MAGIC.to_vec();
    hdr.extend_from_slice(&salt);
    let mut src = Gen { hdr, hpos: 0, key, total, next: 0, idx: 0, cur: vec![], cpos: 0, done: false };
    let mut sink = Verify { pos: 0, bad: None };
    let res = run_rw(&Subject::PassDec { pw: hx(&pw) }, &mut src, &mut sink);
    rep.eval(1);
    rep.nontrivial(b"four-gib-stream");
    if !res.is_ok() {
        return Err(format!("a conforming password-mode file of {} plaintext bytes ({} records) is rejected after {} bytes: {}", total, (total + CSZ as u64 - 1) / CSZ as u64, sink.pos, res.brief()));
    }
    if let Some(at) = sink.bad {
        return Err(format!("plaintext byte {} of a {}-byte file comes out wrong", at, total));
    }
    if sink.pos != total {
        return Err(format!("{} of {} plaintext bytes delivered", sink.pos, total));
    }
    Ok(())
}

/// "However the data is split across read and write calls" includes sources and sinks that themselves use the library while
/// they are being read or written (layered encryption, a lazily re-keyed source, an encrypting sink): an outer encryption
/// and decryption whose reader / writer runs a complete inner encrypt + decrypt during its first call.
fn reentrant_sources_and_sinks(rep: &Report) {
    use std::io::{Read, Write};
    let seed = rep.seed;
    let key = derive32(seed, "c02-nest-key");
    let inner_key = derive32(seed, "c02-nest-inner");
    let inner_plain = plaintext(seed ^ 0x2e, 50);
    let aad = r::PASS_MAGIC.to_vec();
    let enc = Subject::TinyEnc { key: hx(&key), aad: hx(&aad), cs: 16 };
    let dec = Subject::TinyDec { key: hx(&key), aad: hx(&aad), cs: 16 };
    let inner_enc = Subject::TinyEnc { key: hx(&inner_key), aad: hx(&aad), cs: 8 };
    let inner_dec = Subject::TinyDec { key: hx(&inner_key), aad: hx(&aad), cs: 8 };
    let inner_roundtrip = |inner_plain: &[u8]| -> bool {
        let (r1, ct) = run_plain(&inner_enc, inner_plain);
        let (r2, back) = run_plain(&inner_dec, &ct);
        r1.is_ok() && r2.is_ok() && back == inner_plain
    };
    struct NestReader<'a, F: Fn(&[u8]) -> bool> {
        data: &'a [u8],
        pos: usize,
        inner: &'a [u8],
        f: F,
        ran: bool,
        inner_ok: bool,
    }
    impl<'a, F: Fn(&[u8]) -> bool> Read for NestReader<'a, F> {
        fn read(&mut self, buf: &mut [u8]) -> std::io::Result<usize> {
            if !self.ran {
                self.ran = true;
                self.inner_ok = (self.f)(self.inner);
            }
            let n = buf.len().min(self.data.len() - self.pos).min(7);
            buf[..n].copy_from_slice(&self.data[self.pos..self.pos + n]);
            self.pos += n;
            Ok(n)
        }
    }
    struct NestWriter<'a, F: Fn(&[u8]) -> bool> {
        out: Vec<u8>,
        inner: &'a [u8],
        f: F,
        ran: bool,
        inner_ok: bool,
    }
    impl<'a, F: Fn(&[u8]) -> bool> Write for NestWriter<'a, F> {
        fn write(&mut self, b: &[u8]) -> std::io::Result<usize> {
            if !self.ran {
                self.ran = true;
                self.inner_ok = (self.f)(self.inner);
            }
            self.out.extend_from_slice(b);
            Ok(b.len())
        }
        fn flush(&mut self) -> std::io::Result<()> {
            Ok(())
        }
    }
    let p = plaintext(seed ^ 0x2f, 40);
    rep.eval(4);
    rep.nontrivial(b"reentrant");
    // nested in the reader of the outer encryption, then in the writer of the outer decryption
    let mut rd = NestReader { data: &p, pos: 0, inner: &inner_plain, f: &inner_roundtrip, ran: false, inner_ok: false };
    let mut ct = Vec::new();
    let r1 = run_rw(&enc, &mut rd, &mut ct);
    let mut wr = NestWriter { out: vec![], inner: &inner_plain, f: &inner_roundtrip, ran: false, inner_ok: false };
    let mut src: &[u8] = &ct;
    let r2 = run_rw(&dec, &mut src, &mut wr);
    // and the other two positions: nested in the writer while encrypting, in the reader while decrypting
    let mut wr2 = NestWriter { out: vec![], inner: &inner_plain, f: &inner_roundtrip, ran: false, inner_ok: false };
    let mut src2: &[u8] = &p;
    let r3 = run_rw(&enc, &mut src2, &mut wr2);
    let mut rd2 = NestReader { data: &wr2.out, pos: 0, inner: &inner_plain, f: &inner_roundtrip, ran: false, inner_ok: false };
    let mut back2 = Vec::new();
    let r4 = run_rw(&dec, &mut rd2, &mut back2);
    let all_ok = r1.is_ok() && r2.is_ok() && r3.is_ok() && r4.is_ok() && rd.inner_ok && wr.inner_ok && wr2.inner_ok && rd2.inner_ok && wr.out == p && back2 == p;
    if !all_ok {
        rep.violation(
            "reentrant/round-trip",
            json!({"kind":"reentrant"}),
            format!("a source / sink that uses the library during its first call: outer encrypt {} (inner ok: {}), outer decrypt {} (inner ok: {}, plaintext back: {}), encrypt with a nesting writer {} (inner ok: {}), decrypt with a nesting reader {} (inner ok: {}, plaintext back: {})", r1.brief(), rd.inner_ok, r2.brief(), wr.inner_ok, wr.out == p, r3.brief(), wr2.inner_ok, r4.brief(), rd2.inner_ok, back2 == p),
        );
    }
}

/// Sinks that implement `write_vectored` themselves and accept a bounded number of bytes per call ACROSS the slices offered
/// (as a socket or pipe does): 1, 7, 16, 17, 40, 100 or 70000 bytes per call. Whatever way the encryptor hands its records
/// over, the bytes that arrive are the file, and it decrypts.
fn vectored_sinks(rep: &Report) {
    use std::io::{IoSlice, Write};
    let seed = rep.seed;
    struct VSink {
        out: Vec<u8>,
        per_call: usize,
    }
    impl Write for VSink {
        fn write(&mut self, b: &[u8]) -> std::io::Result<usize> {
            let n = b.len().min(self.per_call);
            self.out.extend_from_slice(&b[..n]);
            Ok(n)
        }
        fn write_vectored(&mut self, bufs: &[IoSlice<'_>]) -> std::io::Result<usize> {
            let mut left = self.per_call;
            let mut n = 0;
            for b in bufs {
                let k = b.len().min(left);
                self.out.extend_from_slice(&b[..k]);
                n += k;
                left -= k;
                if left == 0 {
                    break;
                }
            }
            Ok(n)
        }
        fn flush(&mut self) -> std::io::Result<()> {
            Ok(())
        }
    }
    let key = derive32(seed, "c02-vec-key");
    let mut jobs = vec![];
    for (cs, l) in [(16u32, 40usize), (65536, 65536 + 300)] {
        for per in [1usize, 7, 16, 17, 40, 100, 70_000] {
            jobs.push((cs, l, per));
        }
    }
    jobs.par_iter().for_each(|&(cs, l, per)| {
        rep.eval(1);
        rep.nontrivial(format!("vectored-sink-{}-{}-{}", cs, l, per).as_bytes());
        let p = plaintext(seed ^ 0x2d, l);
        let enc = Subject::TinyEnc { key: hx(&key), aad: hx(&r::PASS_MAGIC), cs };
        let mut sink = VSink { out: vec![], per_call: per };
        let mut src: &[u8] = &p;
        let res = run_rw(&enc, &mut src, &mut sink);
        let good = res.is_ok() && matches!(r::read_chunks(&key, &r::PASS_MAGIC, &sink.out, cs), Ok(k) if k.plaintext == p);
        if !good {
            rep.violation("vectored-sink/round-trip", json!({"kind":"vectored","cs":cs,"len":l,"per_call":per}), format!("encryption (chunk size {}, {} bytes) into a sink that takes at most {} bytes per write / write_vectored call: {}; the {} bytes that arrived are not the file (REF cannot read them back)", cs, l, per, res.brief(), sink.out.len()));
        }
    });
    rep.extra("vectored_sink_cases", json!(jobs.len()));
}

pub fn run(rep: &'static Report) {
    let seed = rep.seed;
    rep.set_rule("E-ENV in tiny scope with the password-mode AAD (magic): every read partition, bounded write partitions, both loops, plus mismatched key/AAD pairs; E-GRID through pass_encrypt/pass_decrypt: all ordered password pairs over the 12-word alphabet x salts, and lengths x bounded short-I/O schedules. distinct non-trivial = distinct ciphertext streams round-tripped + distinct (password, other password, salt) triples");
    rep.rule_add("pass_encrypt under every write/flush fault at every call index (+1 short write): Ok implies the sink holds the file.");
    rep.rule_add("Password channels: encrypt through each of {environment, controlling terminal, stdin terminal}, decrypt through each, 8 passwords differing in blanks at their ends; a near miss is refused.");
    rep.rule_add("CLI password pairs and round trips, the latter also with KESTREL_NEW_PASSWORD holding another password.");
    rep.assume("password/plaintext values from fixed alphabets; scrypt cost bounds the public-API part (counted in evidence)");
    let big = std::thread::spawn(move || four_gib_stream(rep));
    tiny_scope(rep, &r::PASS_MAGIC, "C02");

    // mismatched AAD / key between the two sides must reject and release nothing
    let key = derive32(seed, "c02-mm-key");
    let other = derive32(seed, "c02-mm-other");
    let mut n_mm = 0;
    for cs in [1u32, 2, 3] {
        for l in 0..=(2 * cs as usize + 1) {
            let p = plaintext(seed ^ 0x21, l);
            let mut ch = vec![];
            let mut rem = l;
            while rem > 0 {
                let k = rem.min(cs as usize);
                ch.push(k);
                rem -= k;
            }
            if ch.is_empty() {
                ch.push(0);
            }
            let with_magic = r::write_chunks(&key, &r::PASS_MAGIC, &p, &ch);
            let without = r::write_chunks(&key, &[], &p, &ch);
            for (name, stream, dk, daad) in [
                ("aad-dropped-on-decrypt", &with_magic, key, vec![]),
                ("aad-added-on-decrypt", &without, key, r::PASS_MAGIC.to_vec()),
                ("key-mode-magic-as-aad", &with_magic, key, r::KEY_MAGIC.to_vec()),
                ("other-key", &with_magic, other, r::PASS_MAGIC.to_vec()),
            ] {
                rep.eval(1);
                n_mm += 1;
                let (res, out) = run_plain(&Subject::TinyDec { key: hx(&dk), aad: hx(&daad), cs }, stream);
                if res.is_ok() || !out.is_empty() {
                    rep.violation(
                        &format!("tiny/mismatch-{}", name),
                        json!({"kind":"mismatch","name":name,"key":hx(&dk),"aad":hx(&daad),"cs":cs,"stream":hx(stream)}),
                        format!("chunk stream decrypted with mismatched parameters ({}) gives {} and {} bytes", name, res.brief(), out.len()),
                    );
                }
                rep.nontrivial(format!("mm-{}-{}-{}", name, cs, l).as_bytes());
            }
        }
    }
    rep.extra("mismatched_parameter_cases", json!(n_mm));

    // all ordered password pairs
    let w = passwords();
    let salts: Vec<[u8; 32]> = (0..rep.tier.pick(1, 2)).map(|i| derive32(seed, &format!("c02-salt-{}", i))).collect();
    let mut enc_jobs = vec![];
    for (wi, _) in w.iter().enumerate() {
        for (si, _) in salts.iter().enumerate() {
            enc_jobs.push((wi, si));
        }
    }
    // the same grid for two plaintexts: 30 bytes and EMPTY (a single zero-length final chunk)
    for p in [plaintext(seed ^ 0x22, 30), vec![]] {
    let p = &p[..];
    let files: Vec<((usize, usize), Vec<u8>)> = enc_jobs
        .par_iter()
        .map(|&(wi, si)| {
            let (res, out) = run_plain(&Subject::PassEnc { pw: hx(&w[wi].1), salt: hx(&salts[si]) }, p);
            if !res.is_ok() {
                rep.violation("pass/encrypt-fails", json!({"kind":"enc","w":hx(&w[wi].1)}), format!("pass_encrypt under '{}' failed: {}", w[wi].0, res.brief()));
            }
            ((wi, si), out)
        })
        .collect();
    let mut dec_jobs = vec![];
    for ((wi, si), f) in &files {
        for w2i in 0..w.len() {
            dec_jobs.push((*wi, *si, w2i, f));
        }
    }
    dec_jobs.par_iter().for_each(|&(wi, si, w2i, f)| {
        pair_case(rep, w[wi].0, &w[wi].1, w[w2i].0, &w[w2i].1, &salts[si], p, f);
        rep.nontrivial(format!("pair-{}-{}-{}-{}", wi, w2i, si, p.len()).as_bytes());
    });
    rep.extra_add("password_pairs", dec_jobs.len() as u64);
    }
    rep.sample(json!({"kind":"pw-pair","w":"e-acute-nfc","w2":"e-acute-nfd","expect":"Err and zero bytes released"}));

    // lengths x bounded short I/O through the public API
    let lens: Vec<usize> = rep.tier.pick(vec![0, 30, CS + 1], vec![0, 1, 30, CS, CS + 1, 2 * CS + 1]);
    let pws: Vec<Vec<u8>> = rep.tier.pick(vec![b"pw".to_vec(), vec![]], vec![b"pw".to_vec(), vec![], "p\u{e4}ss \u{1F511}".as_bytes().to_vec()]);
    let mut jobs = vec![];
    for &l in &lens {
        for pw in &pws {
            jobs.push((l, pw.clone()));
        }
    }
    let execs = AtomicU64::new(0);
    jobs.par_iter().for_each(|(l, pw)| {
        let p = plaintext(seed ^ 0x23, *l);
        let salt = derive32(seed, "c02-io-salt");
        let enc = Subject::PassEnc { pw: hx(pw), salt: hx(&salt) };
        let dec = Subject::PassDec { pw: hx(pw) };
        let menu = Menu::shorts(ReadMode::Bounded, true).no_record();
        let mut b = Budget::new(1, 1, 0);
        b.shorts_total = 1;
        let cts: Mutex<HashSet<Vec<u8>>> = Mutex::new(HashSet::new());
        let dflt: Mutex<Option<Vec<u8>>> = Mutex::new(None);
        let st = explore(&p, menu, b, &|e| run_env(&enc, e), &|env, res| {
            if env.deviations() == (0, 0, 0) {
                *dflt.lock().unwrap() = Some(env.sink.clone());
            }
            check_encryption(rep, "C02/pass-", &enc, &dec, &p, menu, env, res, None, Some(&cts));
        })
        .unwrap_or_else(|e| crate::report::machinery(&e));
        execs.fetch_add(st.executions, Ordering::Relaxed);
        for ct in cts.lock().unwrap().iter() {
            rep.nontrivial(&r::sha256(ct));
        }
        if let Some(ct) = dflt.into_inner().unwrap() {
            let st = explore(&ct, menu, b, &|e| run_env(&dec, e), &|env, res| {
                check_decryption(rep, "C02/pass-", &dec, &ct, &p, menu, env, res, None);
            })
            .unwrap_or_else(|e| crate::report::machinery(&e));
            execs.fetch_add(st.executions, Ordering::Relaxed);
        }
    });
    // "the file produced by password encryption decrypts": whenever pass_encrypt reports success, what the sink holds is
    // that file -- also when a write or flush call failed somewhere (every call index, every fault kind, plus one short
    // write): a success over a sink that lost the last record would be a file that does not decrypt
    {
        let fexecs = AtomicU64::new(0);
        let flens: Vec<usize> = rep.tier.pick(vec![0, 30, CS + 1], vec![0, 1, 30, CS, CS + 1, 2 * CS + 1]);
        flens.par_iter().for_each(|&l| {
            let p = plaintext(seed ^ 0x24, l);
            let salt = derive32(seed, "c02-fault-salt");
            let pw = b"pw".to_vec();
            let key = r::pass_key(&pw, &salt);
            let enc = Subject::PassEnc { pw: hx(&pw), salt: hx(&salt) };
            let menu = Menu::shorts(ReadMode::Full, true).with_all_faults().no_record();
            let mut b = Budget::new(0, 1, 1);
            b.shorts_total = 1;
            let st = explore(&p, menu, b, &|e| run_env(&enc, e), &|env, res| {
                if res.is_ok() {
                    let good = matches!(r::read_pass_file_with_key(&key, &env.sink), Ok(k) if k.plaintext == p);
                    if !good {
                        let mut c = Case::new(&enc, &p, menu, env).json(json!({"label":"C02/pass-encrypt-ok-without-the-file"}));
                        c["kind"] = json!("enc-fault");
                        rep.violation("C02/pass-encrypt-reports-success-without-the-file", c, format!("pass_encrypt of {} bytes returned Ok under the schedule [{}], but the {} bytes in the sink are not a file that decrypts to the plaintext", p.len(), describe(env), env.sink.len()));
                    }
                }
            })
            .unwrap_or_else(|e| crate::report::machinery(&e));
            fexecs.fetch_add(st.executions, Ordering::Relaxed);
            rep.nontrivial(format!("enc-faults-{}", l).as_bytes());
        });
        rep.eval(fexecs.load(Ordering::Relaxed));
        rep.extra("encrypt_fault_executions", json!(fexecs.load(Ordering::Relaxed)));
    }
    rep.eval(execs.load(Ordering::Relaxed));
    rep.extra("public_api_short_io_executions", json!(execs.load(Ordering::Relaxed)));
    rep.sample(json!({"kind":"pass roundtrip","L":CS+1,"password":"(empty)","schedule":"read#1 returns 1 byte, everything else default"}));
    cli_pairs(rep);
    crate::chan::round_trips(rep, "C02");
    reentrant_sources_and_sinks(rep);
    vectored_sinks(rep);
    match big.join() {
        Ok(Ok(())) => {}
        Ok(Err(e)) => rep.violation("big/four-gib-stream", json!({"kind":"cli-rt","big":true}), e),
        Err(_) => rep.violation("big/four-gib-stream", json!({"kind":"cli-rt","big":true}), "the streaming thread panicked".into()),
    }
    rep.set_exhaustive(true);
    let _ = Tier::Quick;
}

/// CLI level: `kestrel password encrypt|decrypt --env-pass` over all ordered pairs of a UTF-8 password alphabet
/// (what the tool does to the password string before the KDF is part of the property).
const LONG_A: &str = concat!("yyyyyyyyyyyyyyyyyyyyyyyyyyyyyyyyyyyyyyyyyyyyyyyyyyyyyyyyyyyyyyyyyyyyyyyyyyyyyyyyyyyyyyyyyyyyyyyyyyyyyyyyyyyyyyyyyyyyyyyyyyyyyyyyyyyyyyyyyyyyyyyyyyyyyyyyyyyyyyyyyyyyyyyyyyyyyyyyyyyyyyyyyyyyyyyyyyyyyyyyyyyyyyyyyyyyyyyyyyyyyyyyyyyyyyyyyyyyyyyyyyyyyyyyyyyyyyyyyyyyyyyyyyyyyyyyyyyyyyyyyyyyyyyyyyyyyyyyyyyyyyyyyyyyyyyyyyyyyyyyyyyyyyyyyyyyyyyyyyyyyyyyyyyyyyyyyyyyyyyyyyyyyyyyyyyyyyyyyyyyyyyyyyyyyyyyyyyyyyyyyyyyyyyyyyyyyyyyyyyyyyyyyyyyyyyyyyyyyyyyyyyyyyyyyyyyyyyyyyyyyyyyyyyyyyyyyyyyyyyyyyyyyyyyyyyyyyyyyyyyyyyyyyyyyyyyyyyyyyyyyyyyyyyyyyyyyyyyyyyyyyyyyyyyyyyyyyyyyyyyyyyyyyyyyyyyyyyyyyyyyyyyyyyyyyyyyyyyyyyyyyyyyyyyyyyyyyyyyyyyyyyyyyyyyyyyyyyyyyyyyyyyyyyyyyyyyyyyyyyyyyyyyyyyyyyyyyyyyyyyyyyyyyyyyyyyyyyyyyyyyyyyyyyyyyyyyyyyyyyyyyyyyyyyyyyyyyyyyyyyyyyyyyyyyyyyyyyyyyyyyyyyyyyyyyyyyyyyyyyyyyyyyyyyyyyyyyyyyyyyyyyyyyyyyyyyyyyyyyyyyyyyyyyyyyyyyyyyyyyyyyyyyyyyyyyyyyyyyyyyyyyyyyyyyyyyyyyyyyyyyyyyyyyyyyyyyyyyyyyyyyyyyyyyyyyyyyyyyyyyyyyyyyyyyyyyyyyyyyyyyyyyyyyyyyyyyyyyyyyyyyyyyyyyyyyyyyyyyyyyyyyyyyyyyyyyyyyyyyyyyyyyyyyyyyyyyyyyyyyyyyyyyyyyyyyyyyyyyyyyyyyyyyyyyyyyyyyyyyyyyyyyyyyyyyyyyyyyyyyyyyyyyyyyyyyyyyyyyyyyyyyyyyyyyyyyyyyyyyyyyyyyyyyyyyyyyyyyyyyyyyyy", "a");
const LONG_B: &str = concat!("yyyyyyyyyyyyyyyyyyyyyyyyyyyyyyyyyyyyyyyyyyyyyyyyyyyyyyyyyyyyyyyyyyyyyyyyyyyyyyyyyyyyyyyyyyyyyyyyyyyyyyyyyyyyyyyyyyyyyyyyyyyyyyyyyyyyyyyyyyyyyyyyyyyyyyyyyyyyyyyyyyyyyyyyyyyyyyyyyyyyyyyyyyyyyyyyyyyyyyyyyyyyyyyyyyyyyyyyyyyyyyyyyyyyyyyyyyyyyyyyyyyyyyyyyyyyyyyyyyyyyyyyyyyyyyyyyyyyyyyyyyyyyyyyyyyyyyyyyyyyyyyyyyyyyyyyyyyyyyyyyyyyyyyyyyyyyyyyyyyyyyyyyyyyyyyyyyyyyyyyyyyyyyyyyyyyyyyyyyyyyyyyyyyyyyyyyyyyyyyyyyyyyyyyyyyyyyyyyyyyyyyyyyyyyyyyyyyyyyyyyyyyyyyyyyyyyyyyyyyyyyyyyyyyyyyyyyyyyyyyyyyyyyyyyyyyyyyyyyyyyyyyyyyyyyyyyyyyyyyyyyyyyyyyyyyyyyyyyyyyyyyyyyyyyyyyyyyyyyyyyyyyyyyyyyyyyyyyyyyyyyyyyyyyyyyyyyyyyyyyyyyyyyyyyyyyyyyyyyyyyyyyyyyyyyyyyyyyyyyyyyyyyyyyyyyyyyyyyyyyyyyyyyyyyyyyyyyyyyyyyyyyyyyyyyyyyyyyyyyyyyyyyyyyyyyyyyyyyyyyyyyyyyyyyyyyyyyyyyyyyyyyyyyyyyyyyyyyyyyyyyyyyyyyyyyyyyyyyyyyyyyyyyyyyyyyyyyyyyyyyyyyyyyyyyyyyyyyyyyyyyyyyyyyyyyyyyyyyyyyyyyyyyyyyyyyyyyyyyyyyyyyyyyyyyyyyyyyyyyyyyyyyyyyyyyyyyyyyyyyyyyyyyyyyyyyyyyyyyyyyyyyyyyyyyyyyyyyyyyyyyyyyyyyyyyyyyyyyyyyyyyyyyyyyyyyyyyyyyyyyyyyyyyyyyyyyyyyyyyyyyyyyyyyyyyyyyyyyyyyyyyyyyyyyyyyyyyyyyyyyyyyyyyyyyyyyyyyyyyyyyyyyyyyyyyyyyyyyyyyyyyyyyyyyyyyyyyyyyyyyyyyyyyyyyyyyyyyyyyyyyyyyyyyyyyyyyyyyyyyyyyyyyyyyyyyyyyyyyyyyyyy", "b");

pub fn cli_passwords() -> Vec<(&'static str, &'static str)> {
    vec![
        ("empty", ""),
        ("a", "a"),
        ("a-in-double-quotes", "\"a\""),
        ("A", "A"),
        ("a-space", "a "),
        ("space-a", " a"),
        ("a-nl", "a\n"),
        ("a-crlf", "a\r\n"),
        ("a-tab", "a\t"),
        ("nl", "\n"),
        ("e-nfc", "\u{e9}"),
        ("e-nfd", "e\u{301}"),
        ("a-nbsp", "a\u{a0}"),
        ("long1300-a", LONG_A),
        ("long1300-b", LONG_B),
    ]
}

fn cli_pair(rep: &Report, wn: &str, w: &str, w2n: &str, w2: &str, p: &[u8], file: &[u8]) -> Result<(), String> {
    use crate::proc::{self, Cmd, Scratch};
    let sc = Scratch::new();
    sc.write("ct.ktl", file);
    let out = proc::run(&Cmd::new(&["password", "decrypt", "ct.ktl", "-o", "out.bin", "--env-pass"]).env("KESTREL_PASSWORD", w2), &sc.0);
    let _ = rep;
    out.well_behaved()?;
    let got = sc.read("out.bin");
    if w == w2 {
        if !out.ok() || got.as_deref() != Some(p) {
            return Err(format!("CLI round trip under the same password '{}' fails: {}", wn, out.summary()));
        }
    } else if out.ok() {
        return Err(format!("CLI: file encrypted under password '{}' decrypts (exit 0) under the different password '{}'", wn, w2n));
    } else if got.is_some() {
        return Err(format!("CLI: wrong password '{}' rejected but an output file with {} bytes exists", w2n, got.unwrap().len()));
    }
    Ok(())
}

fn cli_pairs(rep: &Report) {
    use crate::proc::{self, Cmd, Scratch};
    let w = cli_passwords();
    let p = plaintext(rep.seed ^ 0x24, 40);
    let files: Vec<Option<Vec<u8>>> = w
        .par_iter()
        .map(|(wn, pw)| {
            let sc = Scratch::new();
            sc.write("plain.bin", &p);
            let out = proc::run(&Cmd::new(&["password", "encrypt", "plain.bin", "-o", "ct.ktl", "--env-pass"]).env("KESTREL_PASSWORD", pw), &sc.0);
            rep.eval(1);
            if !out.ok() {
                rep.violation("cli/encrypt-fails", json!({"kind":"cli-enc","w":pw}), format!("kestrel password encrypt under '{}' failed: {}", wn, out.summary()));
                return None;
            }
            sc.read("ct.ktl")
        })
        .collect();
    let mut jobs = vec![];
    for i in 0..w.len() {
        for j in 0..w.len() {
            jobs.push((i, j));
        }
    }
    jobs.par_iter().for_each(|&(i, j)| {
        if let Some(f) = &files[i] {
            rep.eval(1);
            rep.nontrivial(format!("cli-pair-{}-{}", i, j).as_bytes());
            if let Err(e) = cli_pair(rep, w[i].0, w[i].1, w[j].0, w[j].1, &p, f) {
                // CLI runs use the real CSPRNG only for the salt (already fixed in the file): re-run to confirm
                if let Err(e2) = cli_pair(rep, w[i].0, w[i].1, w[j].0, w[j].1, &p, f) {
                    let _ = e;
                    rep.violation(
                        &format!("cli/pair-{}", if i == j { "same" } else { "other" }),
                        json!({"kind":"cli-pair","wn":w[i].0,"w":w[i].1,"w2n":w[j].0,"w2":w[j].1,"plain":hx(&p),"file":hx(f)}),
                        e2,
                    );
                }
            }
        }
    });
    rep.extra("cli_password_pairs", json!(jobs.len()));
    // passwords that are not valid UTF-8 (the environment carries any bytes): the tool may refuse them, but a file made
    // (by REF) under one byte string must never open under a different one
    {
        let bw: Vec<(&str, Vec<u8>)> = vec![("ff", vec![0xff]), ("fe", vec![0xfe]), ("caf-e9", b"caf\xe9-secret".to_vec()), ("caf-e8", b"caf\xe8-secret".to_vec()), ("pw-e2-82", b"pw\xe2\x82".to_vec()), ("pw-80", b"pw\x80".to_vec()), ("replacement-character", "\u{fffd}".as_bytes().to_vec()), ("caf-replacement", "caf\u{fffd}-secret".as_bytes().to_vec())];
        let salt = derive32(rep.seed, "c02-bytes-salt");
        let files: Vec<Vec<u8>> = bw.iter().map(|(_, w)| crate::refspec::write_pass_file_with_key(&crate::refspec::pass_key(w, &salt), &salt, &p, &[p.len()])).collect();
        let mut bj = vec![];
        for i in 0..bw.len() {
            for j in 0..bw.len() {
                if i != j {
                    bj.push((i, j));
                }
            }
        }
        bj.par_iter().for_each(|&(i, j)| {
            rep.eval(1);
            rep.nontrivial(format!("cli-bytes-{}-{}", i, j).as_bytes());
            let attempt = || -> Result<(), String> {
                let sc = Scratch::new();
                sc.write("ct.ktl", &files[i]);
                let mut c = Cmd::new(&["password", "decrypt", "ct.ktl", "-o", "out.bin", "--env-pass"]);
                c.env_bytes.push(("KESTREL_PASSWORD".into(), bw[j].1.clone()));
                let out = proc::run(&c, &sc.0);
                out.well_behaved()?;
                if out.ok() || sc.read("out.bin").map(|b| !b.is_empty()).unwrap_or(false) {
                    return Err(format!("CLI: a file encrypted under the password bytes {} ({}) is opened by KESTREL_PASSWORD = the different bytes {} ({})", hx(&bw[i].1), bw[i].0, hx(&bw[j].1), bw[j].0));
                }
                Ok(())
            };
            if attempt().is_err() {
                if let Err(e) = attempt() {
                    rep.violation("cli/other-byte-password-accepted", json!({"kind":"cli-rt","w":hx(&bw[i].1),"w2":hx(&bw[j].1)}), e);
                }
            }
        });
        rep.extra("cli_byte_password_pairs", json!(bj.len()));
    }
    // CLI round trip: `password encrypt -o F` / `password decrypt -o G` where F and G are fresh or already hold longer files
    let mut rjobs = vec![];
    for l in [0usize, 40, 70000] {
        for pre in [false, true] {
            for (pi, _) in w.iter().enumerate().take(4) {
                // decoy: 0 none; 1 / 2: KESTREL_NEW_PASSWORD (which only `key change-pass` may read) holds ANOTHER password
                // while encrypting / while decrypting
                for decoy in 0..3u8 {
                    if decoy > 0 && pre {
                        continue;
                    }
                    rjobs.push((l, pre, pi, decoy));
                }
            }
        }
    }
    rjobs.par_iter().for_each(|&(l, pre, pi, decoy)| {
        rep.eval(1);
        rep.nontrivial(format!("cli-rt-{}-{}-{}-{}", l, pre, pi, decoy).as_bytes());
        let other = w[(pi + 1) % 4].1;
        let p = plaintext(rep.seed ^ 0x25, l);
        let attempt = || -> Result<(), String> {
            let sc = Scratch::new();
            sc.write("plain.bin", &p);
            if pre {
                sc.write("ct.ktl", &vec![b'Z'; 200_000]);
                sc.write("back.bin", &vec![b'Z'; 200_000]);
            }
            let mut ce = Cmd::new(&["password", "encrypt", "plain.bin", "-o", "ct.ktl", "--env-pass"]).env("KESTREL_PASSWORD", w[pi].1);
            if decoy == 1 {
                ce = ce.env("KESTREL_NEW_PASSWORD", other);
            }
            let o = proc::run(&ce, &sc.0);
            o.well_behaved()?;
            if !o.ok() {
                return Err(format!("password encrypt failed: {}", o.summary()));
            }
            let mut cd = Cmd::new(&["password", "decrypt", "ct.ktl", "-o", "back.bin", "--env-pass"]).env("KESTREL_PASSWORD", w[pi].1);
            if decoy == 2 {
                cd = cd.env("KESTREL_NEW_PASSWORD", other);
            }
            let o = proc::run(&cd, &sc.0);
            o.well_behaved()?;
            if !o.ok() {
                return Err(format!("password decrypt of the file just written{}{} failed under the same password: {}", if pre { " (output paths held longer files before)" } else { "" }, match decoy { 1 => " (KESTREL_NEW_PASSWORD held another password while encrypting)", 2 => " (KESTREL_NEW_PASSWORD held another password while decrypting)", _ => "" }, o.summary()));
            }
            if sc.read("back.bin").as_deref() != Some(&p[..]) {
                return Err(format!("CLI password round trip of {} bytes{} does not return the original bytes", l, if pre { " into pre-existing longer files" } else { "" }));
            }
            Ok(())
        };
        if attempt().is_err() {
            if let Err(e) = attempt() {
                rep.violation(if pre { "cli/roundtrip-preexisting-output" } else { "cli/roundtrip" }, json!({"kind":"cli-rt","l":l,"pre":pre,"pw":w[pi].1,"decoy":decoy}), e);
            }
        }
    });
    // inputs whose reported size understates their content: a /proc file (st_size 0) given as FILE must be encrypted in full
    {
        let proc_files = ["/proc/version", "/proc/self/limits"];
        proc_files.par_iter().for_each(|pf| {
            rep.eval(1);
            rep.nontrivial(format!("cli-procfile-{}", pf).as_bytes());
            let attempt = || -> Result<(), String> {
                let content = std::fs::read(pf).map_err(|e| format!("MACHINERY: cannot read {}: {}", pf, e))?;
                let sc = Scratch::new();
                let o = proc::run(&Cmd::new(&["password", "encrypt", pf, "-o", "ct.ktl", "--env-pass"]).env("KESTREL_PASSWORD", "procpw"), &sc.0);
                o.well_behaved()?;
                if !o.ok() {
                    return Err(format!("password encrypt of {} failed: {}", pf, o.summary()));
                }
                let o = proc::run(&Cmd::new(&["password", "decrypt", "ct.ktl", "-o", "back.bin", "--env-pass"]).env("KESTREL_PASSWORD", "procpw"), &sc.0);
                o.well_behaved()?;
                let back = sc.read("back.bin").unwrap_or_default();
                // /proc/self/limits belongs to the reading process; compare its length class and a stable prefix instead
                let same = if pf.contains("self") { back.len() > 100 && back.starts_with(&content[..20]) } else { back == content };
                if !o.ok() || !same {
                    return Err(format!("round trip of the FILE argument {} ({} bytes when read, reported size 0) returns {} bytes", pf, content.len(), back.len()));
                }
                Ok(())
            };
            if let Err(e) = attempt() {
                if e.starts_with("MACHINERY") {
                    crate::report::machinery(&e);
                }
                if let Err(e2) = attempt() {
                    rep.violation("cli/roundtrip-of-a-file-whose-size-is-reported-as-zero", json!({"kind":"cli-rt","file":pf}), e2);
                }
            }
        });
    }
    rep.sample(json!({"kind":"cli-pair","encrypt":"KESTREL_PASSWORD='a\\n'","decrypt":"KESTREL_PASSWORD='a'","expect":"exit 1, no output file"}));
}

pub fn replay(rep: &'static Report, case: &Value) {
    if case["kind"] == "chan" {
        crate::chan::round_trips(rep, "C02");
        return;
    }
    if case["kind"] == "vectored" {
        vectored_sinks(rep);
        return;
    }
    if case["kind"] == "reentrant" {
        reentrant_sources_and_sinks(rep);
        return;
    }
    if case["kind"] == "enc-fault" {
        let c = Case::from_json(case).unwrap_or_else(|| crate::report::machinery("bad case"));
        let (env, res) = c.run();
        println!("  observed: {} with {} bytes in the sink; schedule [{}]", res.brief(), env.sink.len(), describe(&env));
        if res.is_ok() {
            let salt: [u8; 32] = env.sink.get(4..36).and_then(|x| x.try_into().ok()).unwrap_or([0; 32]);
            let good = matches!(r::read_pass_file_with_key(&r::pass_key(b"pw", &salt), &env.sink), Ok(k) if hx(&k.plaintext) == c.src);
            if !good {
                rep.violation("C02/pass-encrypt-reports-success-without-the-file", case.clone(), "Ok, but the sink does not hold a file that decrypts to the plaintext".into());
            }
        }
        return;
    }
    if case["kind"] == "cli-rt" {
        println!("  re-running the CLI part of C02");
        cli_pairs(rep);
        return;
    }
    if case["kind"] == "cli-pair" {
        let g = |k: &str| case[k].as_str().unwrap().to_string();
        if let Err(e) = cli_pair(rep, &g("wn"), &g("w"), &g("w2n"), &g("w2"), &unhx(&g("plain")), &unhx(&g("file"))) {
            rep.violation("cli/pair", case.clone(), e);
        }
        return;
    }
    match case["kind"].as_str().unwrap_or("") {
        "pw-pair" => {
            let g = |k: &str| unhx(case[k].as_str().unwrap());
            let salt: [u8; 32] = g("salt").try_into().unwrap();
            let p = g("plain");
            let (res, file) = run_plain(&Subject::PassEnc { pw: hx(&g("w")), salt: hx(&salt) }, &p);
            println!("  encrypt: {}", res.brief());
            pair_case(rep, case["wn"].as_str().unwrap(), &g("w"), case["w2n"].as_str().unwrap(), &g("w2"), &salt, &p, &file);
        }
        "mismatch" => {
            let g = |k: &str| unhx(case[k].as_str().unwrap());
            let (res, out) = run_plain(&Subject::TinyDec { key: hx(&g("key")), aad: hx(&g("aad")), cs: case["cs"].as_u64().unwrap() as u32 }, &g("stream"));
            if res.is_ok() || !out.is_empty() {
                rep.violation("tiny/mismatch", case.clone(), format!("{} with {} bytes", res.brief(), out.len()));
            }
        }
        _ => crate::c01::replay(rep, case),
    }
}
