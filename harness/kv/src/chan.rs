//! The ways a password reaches the program (KESTREL_PASSWORD with --env-pass, typed at the controlling terminal, typed on a
//! terminal that is only stdin) crossed with passwords that differ only in white space at their ends. The password a
//! command uses must be exactly the byte string given, whichever way it came in; REF stands on the other side of every
//! command (it locks the key / writes the file that the program opens, and opens what the program locked / wrote), so
//! two channels that alter a password in the same way do not hide each other.
#![allow(dead_code)]

use crate::proc::{self, Cmd, PtySpec, Scratch, StdinSpec};
use crate::refspec as r;
use crate::report::Report;
use crate::util::*;
use rayon::prelude::*;
use serde_json::json;

#[derive(Clone, Copy, Debug, PartialEq)]
pub enum Chan {
    Env,
    TtyCtl,
    TtyStdin,
}

pub const CHANS: [Chan; 3] = [Chan::Env, Chan::TtyCtl, Chan::TtyStdin];

impl Chan {
    pub fn name(&self) -> &'static str {
        match self {
            Chan::Env => "environment",
            Chan::TtyCtl => "typed at the controlling terminal",
            Chan::TtyStdin => "typed on a terminal that is stdin only",
        }
    }
}

/// Passwords a terminal line discipline passes through unchanged (no CR, NL, erase, kill, EOF or signal characters).
pub fn passwords() -> Vec<&'static str> {
    vec!["pw", "pw ", " pw", "pw\t", "  open sesame ", "p  w", "\u{a0}pw\u{a0}", " "]
}

/// Near misses of `p`: what a clean-up of a typed line would turn it into, and `p` with blanks added.
pub fn near(p: &str) -> Vec<String> {
    let mut v = vec![p.trim().to_string(), p.trim_end().to_string(), p.trim_start().to_string(), format!("{} ", p), format!(" {}", p)];
    v.retain(|x| x != p);
    v.sort();
    v.dedup();
    v
}

/// `args` run with the passwords `pws` (in the order the program asks for them) given through `chan`; `pre` is a line
/// the program reads from stdin before it asks for a password (the key name of `key generate`).
pub fn wire(args: &[&str], chan: Chan, pre: Option<&str>, pws: &[&str], env: &[(&str, &str)]) -> Cmd {
    let mut a: Vec<&str> = args.to_vec();
    let pre_line = pre.map(|s| format!("{}\n", s)).unwrap_or_default();
    let typed_pws: String = pws.iter().map(|p| format!("{}\n", p)).collect();
    match chan {
        Chan::Env => {
            a.push("--env-pass");
            let mut c = Cmd::new(&a);
            for (k, v) in env {
                c = c.env(k, v);
            }
            if pre.is_some() {
                c = c.stdin(pre_line.as_bytes());
            }
            c
        }
        Chan::TtyCtl => {
            let mut c = Cmd::new(&a);
            if pre.is_some() {
                c = c.stdin(pre_line.as_bytes());
            } else {
                c.stdin = StdinSpec::Null;
            }
            c.pty = Some(PtySpec { typed: typed_pws.into_bytes(), controlling: true, stdin_is_tty: false, stdout_is_tty: false });
            c
        }
        Chan::TtyStdin => {
            let mut c = Cmd::new(&a);
            c.pty = Some(PtySpec { typed: format!("{}{}", pre_line, typed_pws).into_bytes(), controlling: false, stdin_is_tty: true, stdout_is_tty: false });
            c
        }
    }
}

fn twice<F: Fn() -> Result<(), String>>(f: F) -> Result<(), String> {
    match f() {
        Ok(()) => Ok(()),
        Err(_) => f(),
    }
}

/// C15: a key locked by REF under P unlocks when P is given through any channel, and does not unlock with a near miss.
pub fn unlock(rep: &Report, tag: &str) {
    let sk = derive32(rep.seed, "chan-sk");
    let pk = r::encode_pk(&r::x25519_base(&sk));
    let mut jobs: Vec<(String, String, Chan, bool)> = vec![];
    for p in passwords() {
        let locked = r::b64(&r::lock_key(&sk, p.as_bytes(), &derive32(rep.seed, &format!("chan-salt-{}", p))));
        for ch in CHANS {
            jobs.push((locked.clone(), p.to_string(), ch, true));
            for q in near(p) {
                if q.is_empty() && ch != Chan::Env {
                    continue;
                }
                jobs.push((locked.clone(), q, ch, false));
            }
        }
    }
    jobs.par_iter().for_each(|(locked, given, ch, should)| {
        rep.eval(1);
        rep.nontrivial(format!("chan-unlock-{}-{:?}-{}", locked, ch, given).as_bytes());
        let res = twice(|| {
            let sc = Scratch::new();
            // a wrong password typed at a terminal is asked for again: type it three times, then the wiring ends the wait
            let cmd = wire(&["key", "extract-pub", locked], *ch, None, &[given, given, given], &[("KESTREL_PASSWORD", given)]);
            // (a refused typed password ends in a wait for a fourth line: that wait is cut short)
            let limit = std::time::Duration::from_millis(if !*should && *ch != Chan::Env { 2500 } else { 30_000 });
            let out = proc::run_limit(&cmd, &sc.0, limit);
            let printed = String::from_utf8_lossy(&out.stdout).contains(&pk);
            if *should {
                out.well_behaved()?;
                if !out.ok() || !printed {
                    return Err(format!("the key does not unlock: {}", out.summary()));
                }
            } else if out.ok() || printed {
                return Err(format!("the key unlocks: {}", out.summary()));
            } else if !out.timed_out {
                out.well_behaved()?;
            }
            Ok(())
        });
        if let Err(e) = res {
            rep.violation(
                &format!("{}/password-channel/unlock", tag),
                json!({"kind":"chan","part":"unlock","given":given,"channel":ch.name()}),
                format!("a key locked by REF under {:?}, `key extract-pub` with the password {:?} ({}): {}", if *should { given.clone() } else { "another password".to_string() }, given, ch.name(), e),
            );
        }
    });
    rep.extra("password_channel_unlock_cases", json!(jobs.len()));
}

/// C14: `key generate` with P through any channel (two generations into one file, every ordered pair of channels)
/// leaves keys that REF unlocks with exactly P, earlier contents a byte prefix.
pub fn generate(rep: &Report, tag: &str) {
    let pws = passwords();
    let mut jobs: Vec<(usize, Chan, Chan)> = vec![];
    for i in 0..pws.len() {
        for a in CHANS {
            for b in CHANS {
                jobs.push((i, a, b));
            }
        }
    }
    jobs.par_iter().for_each(|&(i, a, b)| {
        rep.eval(2);
        rep.nontrivial(format!("chan-generate-{}-{:?}-{:?}", i, a, b).as_bytes());
        let p1 = pws[i];
        let p2 = pws[(i + 3) % pws.len()];
        let res = twice(|| {
            let sc = Scratch::new();
            let mut before = vec![];
            for (n, (ch, p, name)) in [(a, p1, "first"), (b, p2, "second")].iter().enumerate() {
                let cmd = wire(&["key", "generate", "-o", "kr.txt"], *ch, Some(name), &[p, p], &[("KESTREL_PASSWORD", p)]);
                let out = proc::run(&cmd, &sc.0);
                out.well_behaved()?;
                if !out.ok() {
                    return Err(format!("generation {} ({}) fails: {}", n + 1, ch.name(), out.summary()));
                }
                let now = sc.read("kr.txt").unwrap_or_default();
                if !now.starts_with(&before) || now.len() <= before.len() {
                    return Err(format!("after generation {} the earlier contents are not a proper byte prefix of the file", n + 1));
                }
                before = now;
            }
            let text = String::from_utf8_lossy(&before).to_string();
            let pubs: Vec<&str> = text.lines().filter_map(|l| l.strip_prefix("PublicKey = ")).collect();
            let privs: Vec<&str> = text.lines().filter_map(|l| l.strip_prefix("PrivateKey = ")).collect();
            if pubs.len() != 2 || privs.len() != 2 {
                return Err(format!("{} PublicKey and {} PrivateKey lines after two generations", pubs.len(), privs.len()));
            }
            for (n, (p, ch)) in [(p1, a), (p2, b)].iter().enumerate() {
                let blob = r::b64_decode(privs[n]).ok_or("PrivateKey value is not base64")?;
                match r::unlock_key(&blob, p.as_bytes()) {
                    Some(sk) if r::encode_pk(&r::x25519_base(&sk)) == pubs[n] => {}
                    Some(_) => return Err(format!("key {} unlocks to a key that does not match its PublicKey line", n + 1)),
                    None => {
                        let alt = near(p).into_iter().find(|q| r::unlock_key(&blob, q.as_bytes()).is_some());
                        return Err(format!("key {} generated with the password {:?} ({}) does not unlock with it under REF{}", n + 1, p, ch.name(), alt.map(|q| format!("; it unlocks with {:?}", q)).unwrap_or_default()));
                    }
                }
            }
            Ok(())
        });
        if let Err(e) = res {
            rep.violation(&format!("{}/password-channel/generate", tag), json!({"kind":"chan","part":"generate","first":[p1, a.name()],"second":[p2, b.name()]}), e);
        }
    });
    rep.extra("password_channel_generate_sequences", json!(jobs.len()));
}

/// C06: `password encrypt` with P through any channel writes a file REF opens with exactly P; a file REF wrote under P
/// is opened by `password decrypt` with P through any channel.
pub fn password_files(rep: &Report, tag: &str) {
    let pws = passwords();
    let pt = plaintext(rep.seed ^ 0xc4a2, 1000);
    let mut jobs: Vec<(usize, Chan, bool)> = vec![];
    for i in 0..pws.len() {
        for ch in CHANS {
            jobs.push((i, ch, false));
            jobs.push((i, ch, true));
        }
    }
    jobs.par_iter().for_each(|&(i, ch, dec)| {
        rep.eval(1);
        rep.nontrivial(format!("chan-passfile-{}-{:?}-{}", i, ch, dec).as_bytes());
        let p = pws[i];
        let res = twice(|| {
            let sc = Scratch::new();
            if dec {
                let salt = derive32(rep.seed, &format!("chan-file-salt-{}", i));
                sc.write("in.ktl", &r::write_pass_file_with_key(&r::pass_key(p.as_bytes(), &salt), &salt, &pt, &[600, 400]));
                let out = proc::run(&wire(&["password", "decrypt", "in.ktl", "-o", "out.bin"], ch, None, &[p, p, p], &[("KESTREL_PASSWORD", p)]), &sc.0);
                if !out.timed_out {
                    out.well_behaved()?;
                }
                if !out.ok() || sc.read("out.bin").unwrap_or_default() != pt {
                    return Err(format!("a conforming file written under the password {:?} is not opened when that password is given ({}): {}", p, ch.name(), out.summary()));
                }
            } else {
                sc.write("plain.bin", &pt);
                let out = proc::run(&wire(&["password", "encrypt", "plain.bin", "-o", "out.ktl"], ch, None, &[p, p], &[("KESTREL_PASSWORD", p)]), &sc.0);
                out.well_behaved()?;
                let f = sc.read("out.ktl").unwrap_or_default();
                if !out.ok() || f.len() < 36 {
                    return Err(format!("password encrypt fails: {}", out.summary()));
                }
                let salt: [u8; 32] = f[4..36].try_into().unwrap();
                match r::read_pass_file_with_key(&r::pass_key(p.as_bytes(), &salt), &f) {
                    Ok(parsed) if parsed.plaintext == pt => {}
                    _ => {
                        let alt = near(p).into_iter().find(|q| r::read_pass_file_with_key(&r::pass_key(q.as_bytes(), &salt), &f).is_ok());
                        return Err(format!("the file written by `password encrypt` with the password {:?} ({}) is not the format's encryption under that password{}", p, ch.name(), alt.map(|q| format!("; REF opens it with {:?}", q)).unwrap_or_default()));
                    }
                }
            }
            Ok(())
        });
        if let Err(e) = res {
            rep.violation(&format!("{}/password-channel/{}", tag, if dec { "decrypt" } else { "encrypt" }), json!({"kind":"chan","part":"password-file","password":p,"channel":ch.name(),"decrypt":dec}), e);
        }
    });
    rep.extra("password_channel_file_cases", json!(jobs.len()));
}

/// C02: `password encrypt` with P through channel A, `password decrypt` of that file with P through channel B gives the
/// plaintext back, for every ordered pair of channels; a near miss of P through B is refused and releases nothing.
pub fn round_trips(rep: &Report, tag: &str) {
    let pws = passwords();
    let pt = plaintext(rep.seed ^ 0xc4a3, 700);
    let mut jobs: Vec<(usize, Chan)> = vec![];
    for i in 0..pws.len() {
        for a in CHANS {
            jobs.push((i, a));
        }
    }
    jobs.par_iter().for_each(|&(i, a)| {
        let p = pws[i];
        rep.nontrivial(format!("chan-roundtrip-{}-{:?}", i, a).as_bytes());
        let res = twice(|| {
            let sc = Scratch::new();
            sc.write("plain.bin", &pt);
            let out = proc::run(&wire(&["password", "encrypt", "plain.bin", "-o", "ct.ktl"], a, None, &[p, p], &[("KESTREL_PASSWORD", p)]), &sc.0);
            out.well_behaved()?;
            if !out.ok() {
                return Err(format!("password encrypt ({}) fails: {}", a.name(), out.summary()));
            }
            for b in CHANS {
                rep.eval(1);
                let _ = std::fs::remove_file(sc.0.join("out.bin"));
                let out = proc::run(&wire(&["password", "decrypt", "ct.ktl", "-o", "out.bin"], b, None, &[p, p, p], &[("KESTREL_PASSWORD", p)]), &sc.0);
                if !out.timed_out {
                    out.well_behaved()?;
                }
                if !out.ok() || sc.read("out.bin").unwrap_or_default() != pt {
                    return Err(format!("encrypted with the password {:?} ({}), decrypting with the same password ({}) does not give the plaintext back: {}", p, a.name(), b.name(), out.summary()));
                }
            }
            // one near miss per channel (the first), through the environment and at the stdin terminal
            if let Some(q) = near(p).into_iter().find(|q| !q.is_empty()) {
                for b in [Chan::Env, Chan::TtyStdin] {
                    rep.eval(1);
                    let _ = std::fs::remove_file(sc.0.join("out.bin"));
                    let limit = std::time::Duration::from_millis(if b == Chan::Env { 30_000 } else { 2500 });
                    let out = proc::run_limit(&wire(&["password", "decrypt", "ct.ktl", "-o", "out.bin"], b, None, &[&q, &q, &q], &[("KESTREL_PASSWORD", &q)]), &sc.0, limit);
                    let released = sc.read("out.bin").unwrap_or_default();
                    if out.ok() || !released.is_empty() {
                        return Err(format!("encrypted with the password {:?} ({}), decrypting with {:?} ({}) {}", p, a.name(), q, b.name(), if out.ok() { "succeeds".to_string() } else { format!("releases {} bytes", released.len()) }));
                    }
                }
            }
            Ok(())
        });
        if let Err(e) = res {
            rep.violation(&format!("{}/password-channel/round-trip", tag), json!({"kind":"chan","part":"round-trip","password":p,"encrypt_channel":a.name()}), e);
        }
    });
    rep.extra("password_channel_round_trip_encryptions", json!(jobs.len()));
}
