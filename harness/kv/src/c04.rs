//! C04 — only authenticated plaintext is released, in order, in whole chunks (rides on the C03 graph + E-ENV faults).
use crate::env::*;
use crate::graph::{self, Corpus, Which};
use crate::refspec as r;
use crate::report::Report;
use crate::streams::*;
use crate::util::*;
use rayon::prelude::*;
use serde_json::{json, Value};
use std::sync::atomic::{AtomicU64, Ordering};

/// Write-log predicate over an E-ENV execution (short writes and faults possible).
fn check_env(rep: &Report, label: &str, c: &Corpus, sub: &Subject, x: &[u8], menu: Menu, env: &Env, res: &Res) {
    let mk = || Case::new(sub, x, menu, env).json(json!({"label":label}));
    let ap = graph::authentic_prefix(c, x);
    let exp = graph::judge(c, x);
    if let Res::Panic(m) = res {
        rep.violation(&format!("{}/panic", label), mk(), format!("panic: {}", m));
        return;
    }
    let mut sink_len = 0usize;
    let mut errored = false;
    for ev in &env.log {
        if let Ev::Write { offered, ans, src_pos, .. } = ev {
            if errored {
                rep.violation(&format!("{}/write-after-error", label), mk(), "a write was attempted after a failed write/flush".into());
                return;
            }
            if offered.is_empty() {
                continue;
            }
            match &ap {
                None => {
                    rep.violation(&format!("{}/write-without-authentic-header", label), mk(), format!("{} bytes offered to the sink although the header is not authentic", offered.len()));
                    return;
                }
                Some((g, k, ends)) => {
                    let gf = &c.files[*g];
                    let off = sink_len;
                    if off + offered.len() > gf.plain.len() || offered[..] != gf.plain[off..off + offered.len()] {
                        rep.violation(&format!("{}/offered-not-authentic", label), mk(), format!("bytes offered at output offset {} under [{}] are not the authentic plaintext", off, describe(env)));
                        return;
                    }
                    let mut start = 0;
                    for (j, &cl) in gf.chunking.iter().enumerate() {
                        let end = start + cl;
                        if off < end && off + offered.len() > start && (j >= *k || *src_pos < ends[j]) {
                            rep.violation(&format!("{}/write-before-authentication", label), mk(), format!("plaintext of chunk {} offered before its record was consumed/authentic (k={}, src_pos={})", j, k, src_pos));
                            return;
                        }
                        start = end;
                    }
                }
            }
            match ans {
                Ans::N(n) => sink_len += n,
                Ans::Intr => {}
                Ans::Fail => errored = true,
            }
        }
        if let Ev::Flush { ans: Ans::Fail, .. } = ev {
            errored = true;
        }
    }
    if res.is_ok() {
        match exp {
            graph::Expectation::MustReject => rep.violation(&format!("{}/ok-on-incomplete", label), mk(), format!("success reported for a non-authentic input under [{}]", describe(env))),
            graph::Expectation::MustAccept(g) | graph::Expectation::DontCare(g) => {
                if env.sink != c.files[g].plain {
                    rep.violation(&format!("{}/ok-but-output-incomplete", label), mk(), format!("Ok returned but {} of {} plaintext bytes were accepted by the sink under [{}]", env.sink.len(), c.files[g].plain.len(), describe(env)));
                }
            }
        }
    }
}

fn tampered(c: &Corpus) -> Vec<(String, Vec<u8>)> {
    use graph::Edit::*;
    let base = &c.files[0];
    let n = base.records.len() as u8;
    let h = c.mode.header_len();
    let rec_start = |i: usize| -> usize { h + base.records[..i].iter().map(|r| 32 + r.body.len()).sum::<usize>() };
    let mut v: Vec<(String, Vec<u8>)> = vec![("authentic".into(), base.bytes.clone())];
    let edits: Vec<(&str, graph::Edit)> = vec![
        ("corrupt-chunk-1-body", Flip(((rec_start(1) + 16) * 8) as u32)),
        ("corrupt-last-tag", Flip((base.bytes.len() * 8 - 1) as u32)),
        ("truncated-in-last-chunk", Trunc((base.bytes.len() - 3) as u32)),
        ("truncated-at-chunk-boundary", Trunc(rec_start(n as usize - 1) as u32)),
        ("trailing-byte", AppendByte),
        ("last-flag-cleared", SetFlag(n - 1, 0)),
        ("first-flag-set", SetFlag(0, 1)),
        ("chunks-swapped", SwapRec(0, 1)),
        ("foreign-record-inserted", InsRec(1, 0, 1)),
        ("chunk-duplicated", DupRec(0)),
        ("chunk-dropped", DelRec(1)),
    ];
    for (name, e) in edits {
        if let Some(x) = graph::apply(c, &base.bytes, &e) {
            v.push((name.into(), x));
        }
    }
    v
}

pub fn run(rep: &'static Report) {
    rep.set_rule("E-GRAPH: every state of the C03 edit graphs is decrypted by the real code into a recording sink and the write log is checked (each written range is authentic plaintext of chunks whose whole record has already been consumed and is authentic in place; Ok only on complete authentic input). E-ENV: decryption of authentic and tampered files under every fault at every call index and bounded short reads/writes, same predicate on the offered buffers. distinct_nontrivial counts unique graph states + minted words + distinct faulty executions");
    rep.assume("whether the final chunk is written before a trailing-data error is deliberately not constrained (both orders satisfy the statement)");
    rep.assume("authentic corpus files are written by REF; forgery resistance of the AEAD is assumed");
    graph::run_all_graphs(rep, Which::C04);
    crate::minted::run(rep, Which::C04);
    // E-ENV with faults
    let seed = rep.seed;
    let mut items: Vec<(String, std::sync::Arc<Corpus>, Vec<u8>)> = vec![];
    let corpora = vec![
        ("key", std::sync::Arc::new(Corpus::key_mode(seed))),
        ("tiny-cs2", std::sync::Arc::new(Corpus::tiny(seed, &[], 2))),
        ("tiny-magic-cs3", std::sync::Arc::new(Corpus::tiny(seed, &r::PASS_MAGIC, 3))),
        ("tinyfull-cs2", std::sync::Arc::new(Corpus::tiny_full(seed, &[], 2))),
    ];
    for (cn, c) in &corpora {
        for (name, x) in tampered(c) {
            items.push((format!("env-{}-{}", cn, name), c.clone(), x));
        }
    }
    let execs = AtomicU64::new(0);
    let shorts = rep.tier.pick(1, 2);
    items.par_iter().for_each(|(label, c, x)| {
        let sub = c.mode.subject();
        let menu = Menu::shorts(ReadMode::Bounded, true).with_all_faults();
        let mut b = Budget::new(2, 2, 1);
        b.shorts_total = shorts;
        let st = explore(x, menu, b, &|e| run_env(&sub, e), &|env, res| {
            check_env(rep, &format!("C04/{}", label), c, &sub, x, menu, env, res);
            let d = env.deviations();
            if d.0 + d.1 + d.2 > 0 {
                let mut k = label.as_bytes().to_vec();
                for ch in env.choices() {
                    k.extend_from_slice(&ch.to_le_bytes());
                }
                rep.nontrivial(&k);
            }
        })
        .unwrap_or_else(|e| crate::report::machinery(&e));
        execs.fetch_add(st.executions, Ordering::Relaxed);
    });
    rep.eval(execs.load(Ordering::Relaxed));
    rep.extra("env_fault_executions", json!(execs.load(Ordering::Relaxed)));
    rep.extra("env_fault_inputs", json!(items.len()));
    rep.add_distinct(rep.states.load(Ordering::Relaxed));
    rep.sample(json!({"graph":"key","state":"A with chunk 1 body bit flipped","expect":"exactly chunk 0 (2 bytes) written, after 198 source bytes were consumed; then Err"}));
    rep.sample(json!({"env":"key/authentic","tape":"write#1 -> accepts 1 of 2 bytes; write#2 -> Err(Other)","expect":"offered buffers are 'ab','b'; Err(IOWrite); nothing offered afterwards"}));
    rep.set_exhaustive(true);
}

pub fn replay(rep: &'static Report, case: &Value) {
    if !case["env_case"].is_null() {
        let c = Case::from_json(case).unwrap();
        let label = case["extra"]["label"].as_str().unwrap_or("replay").to_string();
        let seed = rep.seed;
        let corpus = if label.contains("env-key") {
            Corpus::key_mode(seed)
        } else if label.contains("tinyfull") {
            Corpus::tiny_full(seed, &[], 2)
        } else if label.contains("tiny-magic") {
            Corpus::tiny(seed, &r::PASS_MAGIC, 3)
        } else {
            Corpus::tiny(seed, &[], 2)
        };
        let (env, res) = c.run();
        let (env2, res2) = c.run();
        if res != res2 || env.sink != env2.sink {
            crate::report::machinery("replay not deterministic");
        }
        println!("  observed: {} sink={} schedule=[{}]", res.brief(), hx(&env.sink), describe(&env));
        check_env(rep, &label, &corpus, &c.subject, &unhx(&c.src), c.menu, &env, &res);
        return;
    }
    match case["kind"].as_str().unwrap_or("") {
        "state" => graph::replay_state(rep, Which::C04, case),
        "minted" => crate::minted::replay(rep, Which::C04, case),
        k => crate::report::machinery(&format!("unknown replay kind {}", k)),
    }
}
