//! C04 — only authenticated plaintext is released, in order, in whole chunks (rides on the C03 graph + E-ENV faults).
use crate::env::*;
use crate::graph::{self, Corpus, Which};
use crate::refspec as r;
use crate::report::Report;
use crate::streams::*;
use crate::util::*;
use rayon::prelude::*;
use serde_json::{json, Value};
use std::sync::atomic::{AtomicU64, Ordering};

/// Write-log predicate over an E-ENV execution (short writes and faults possible).
fn check_env(rep: &Report, label: &str, c: &Corpus, sub: &Subject, x: &[u8], menu: Menu, env: &Env, res: &Res) {
    let mk = || Case::new(sub, x, menu, env).json(json!({"label":label}));
    let ap = graph::authentic_prefix(c, x);
    let exp = graph::judge(c, x);
    if let Res::Panic(m) = res {
        rep.violation(&format!("{}/panic", label), mk(), format!("panic: {}", m));
        return;
    }
    let mut sink_len = 0usize;
    let mut errored = false;
    for ev in &env.log {
        if let Ev::Write { offered, ans, src_pos, .. } = ev {
            if errored {
                rep.violation(&format!("{}/write-after-error", label), mk(), "a write was attempted after a failed write/flush".into());
                return;
            }
            if offered.is_empty() {
                continue;
            }
            match &ap {
                None => {
                    rep.violation(&format!("{}/write-without-authentic-header", label), mk(), format!("{} bytes offered to the sink although the header is not authentic", offered.len()));
                    return;
                }
                Some((g, k, ends)) => {
                    let gf = &c.files[*g];
                    let off = sink_len;
                    if off + offered.len() > gf.plain.len() || offered[..] != gf.plain[off..off + offered.len()] {
                        rep.violation(&format!("{}/offered-not-authentic", label), mk(), format!("bytes offered at output offset {} under [{}] are not the authentic plaintext", off, describe(env)));
                        return;
                    }
                    let mut start = 0;
                    for (j, &cl) in gf.chunking.iter().enumerate() {
                        let end = start + cl;
                        if off < end && off + offered.len() > start && (j >= *k || *src_pos < ends[j]) {
                            rep.violation(&format!("{}/write-before-authentication", label), mk(), format!("plaintext of chunk {} offered before its record was consumed/authentic (k={}, src_pos={})", j, k, src_pos));
                            return;
                        }
                        start = end;
                    }
                }
            }
            match ans {
                // a sink that accepts nothing of a non-empty offer has failed (write_all reports WriteZero)
                Ans::N(0) => errored = true,
                Ans::N(n) => sink_len += n,
                Ans::Intr => {}
                Ans::Fail => errored = true,
            }
        }
        if let Ev::Flush { ans: Ans::Fail, .. } = ev {
            errored = true;
        }
    }
    // "once an error is reported nothing further is written": when the call returns, every byte it handed to the sink has
    // been followed by a successful flush -- a buffering sink (BufWriter, LineWriter, stdout) would otherwise write them
    // AFTER the verdict. What the sink answers to that flush is its own business; the call has to be made.
    if !errored && env.never_flushed_tail() {
        rep.violation(&format!("{}/returned-with-unflushed-plaintext", label), mk(), format!("the call returned {} under [{}] without calling flush after the last plaintext it had written: a buffering sink delivers those bytes after the verdict", res.brief(), describe(env)));
        return;
    }
    if res.is_ok() {
        match exp {
            graph::Expectation::MustReject => rep.violation(&format!("{}/ok-on-incomplete", label), mk(), format!("success reported for a non-authentic input under [{}]", describe(env))),
            graph::Expectation::MustAccept(g) | graph::Expectation::DontCare(g) => {
                if env.sink != c.files[g].plain {
                    rep.violation(&format!("{}/ok-but-output-incomplete", label), mk(), format!("Ok returned but {} of {} plaintext bytes were accepted by the sink under [{}]", env.sink.len(), c.files[g].plain.len(), describe(env)));
                }
            }
        }
    }
}

fn tampered(c: &Corpus) -> Vec<(String, Vec<u8>)> {
    use graph::Edit::*;
    let base = &c.files[0];
    let n = base.records.len() as u8;
    let h = c.mode.header_len();
    let rec_start = |i: usize| -> usize { h + base.records[..i].iter().map(|r| 32 + r.body.len()).sum::<usize>() };
    let mut v: Vec<(String, Vec<u8>)> = vec![("authentic".into(), base.bytes.clone())];
    let edits: Vec<(&str, graph::Edit)> = vec![
        ("corrupt-chunk-1-body", Flip(((rec_start(1) + 16) * 8) as u32)),
        ("corrupt-last-tag", Flip((base.bytes.len() * 8 - 1) as u32)),
        ("truncated-in-last-chunk", Trunc((base.bytes.len() - 3) as u32)),
        ("truncated-at-chunk-boundary", Trunc(rec_start(n as usize - 1) as u32)),
        ("trailing-byte", AppendByte),
        ("last-flag-cleared", SetFlag(n - 1, 0)),
        ("first-flag-set", SetFlag(0, 1)),
        ("chunks-swapped", SwapRec(0, 1)),
        ("foreign-record-inserted", InsRec(1, 0, 1)),
        ("chunk-duplicated", DupRec(0)),
        ("chunk-dropped", DelRec(1)),
    ];
    for (name, e) in edits {
        if let Some(x) = graph::apply(c, &base.bytes, &e) {
            v.push((name.into(), x));
        }
    }
    v
}

/// Position in the chunk sequence at the byte boundaries of the counter: after B authentic one-byte chunks
/// (B = 2^8, 2^16; thorough also 2^20) the only record accepted next is the one sealed for position B; records of
/// the same file sealed for other positions (replays of early chunks, positions that agree with B in the low 8, 16
/// or 24 bits, neighbours) must be refused with exactly the first B bytes released.
fn counter_boundaries(rep: &Report) {
    use rayon::prelude::*;
    let key = derive32(rep.seed, "c04-counter-key");
    let aad: Vec<u8> = vec![];
    let bounds: Vec<u64> = rep.tier.pick(vec![1 << 8, 1 << 16], vec![1 << 8, 1 << 16, 1 << 20]);
    fn pat(i: u64) -> u8 {
        (i as u8).wrapping_mul(7) ^ ((i >> 8) as u8) ^ ((i >> 16) as u8).wrapping_mul(3)
    }
    for &b in &bounds {
        let mut base = Vec::with_capacity(b as usize * 33);
        for i in 0..b {
            base.extend_from_slice(&r::seal_conforming(&key, &aad, i, false, &[pat(i)]).bytes());
        }
        let want: Vec<u8> = (0..b).map(pat).collect();
        let sub = Subject::TinyDec { key: hx(&key), aad: hx(&aad), cs: 1 };
        let mut pos: Vec<u64> = vec![0, 1, 2, b - 1, b + 1, b + 2, b >> 8, b << 8, b + (1 << 32), 1 << 32, (1 << 32) - 1, u64::MAX, b ^ 1];
        for k in [8u32, 16, 24, 32, 40, 48, 56] {
            pos.push(b & ((1u64 << k) - 1));
            pos.push(b + (1u64 << k));
            pos.push(b.swap_bytes() >> k);
        }
        pos.sort();
        pos.dedup();
        pos.retain(|&n| n != b);
        let mut cands: Vec<(String, Vec<u8>, bool)> = vec![];
        // the authentic continuation first: accepted, B+1 bytes
        cands.push(("authentic final record at position B".into(), r::seal_conforming(&key, &aad, b, true, &[pat(b)]).bytes(), true));
        for &n in &pos {
            for last in [false, true] {
                let f = if last { 1 } else { 0 };
                // the record as the writer would have produced it at position n (its counter field says n) ...
                cands.push((format!("record sealed for position {} (counter field {}) last={}", n, n, last), r::seal_record(&key, n, &aad, f, 1, n, f, 1, &[pat(n)]).bytes(), false));
                // ... and the same with the counter field rewritten to B
                cands.push((format!("record sealed for position {} (counter field {}) last={}", n, b, last), r::seal_record(&key, n, &aad, f, 1, b, f, 1, &[pat(n)]).bytes(), false));
            }
        }
        cands.par_iter().for_each(|(what, rec, ok)| {
            let mut x = base.clone();
            x.extend_from_slice(rec);
            let (res, out) = run_plain(&sub, &x);
            rep.eval(1);
            rep.nontrivial(&[b"c04-counter".as_ref(), &b.to_le_bytes(), what.as_bytes()].concat());
            let case = json!({"kind":"counter-boundary","b":b,"what":what});
            if *ok {
                let mut w = want.clone();
                w.push(pat(b));
                if !res.is_ok() || out != w {
                    rep.violation("C04/counter-boundary", case, format!("after {} authentic one-byte chunks the {} is not accepted: {} with {} bytes released", b, what, res.brief(), out.len()));
                }
            } else if res.is_ok() || out != want {
                rep.violation("C04/counter-boundary", case, format!("after {} authentic one-byte chunks a {} is taken as the next chunk: {} with {} bytes released (authentic prefix is {} bytes)", b, what, res.brief(), out.len(), b));
            }
        });
    }
    rep.extra("counter_boundaries", json!(bounds));
}

/// The reader of the stdout pipe goes away early (`kestrel decrypt ... | head -c N`) while at least 127 KiB of plaintext are
/// still undelivered (far more than the 64 KiB pipe buffer): exit 0 would report a complete decryption that did not happen.
pub fn reader_leaves_cases(rep: &Report, tag: &str) {
    use crate::fx::Party;
    use crate::proc::{self, Cmd, Scratch};
    let seed = rep.seed;
    const CS: usize = 65536;
    let alice = Party::new(seed, "alice", "alicepw");
    let bob = Party::new(seed, "bob", "bobpw");
    let kr = crate::fx::keyring(&[(&alice, false), (&bob, true)]);
    let p = plaintext(seed ^ 0x4c1, 3 * CS + 300);
    let f = r::write_key_file(&alice.sk, &bob.pk, &derive32(seed, "rl-e"), &derive32(seed, "rl-p"), &p, &[CS, CS, CS, 300]).unwrap();
    let salt = derive32(seed, "rl-salt");
    let q = r::write_pass_file_with_key(&r::pass_key(b"filepw", &salt), &salt, &p, &[CS, CS, CS, 300]);
    let mut jobs = vec![];
    for mode in ["key", "pass"] {
        for k in [0usize, 1, 100, 4096, 65536] {
            jobs.push((mode, k));
        }
    }
    jobs.par_iter().for_each(|&(mode, k)| {
        rep.eval(1);
        rep.nontrivial(format!("{}-reader-leaves-{}-{}", tag, mode, k).as_bytes());
        let attempt = || -> Result<(), String> {
            let sc = Scratch::new();
            sc.write("in.ktl", if mode == "key" { &f } else { &q });
            sc.write("kr.txt", kr.as_bytes());
            let args: Vec<&str> = if mode == "key" { vec!["decrypt", "in.ktl", "-t", "bob", "-k", "kr.txt", "--env-pass"] } else { vec!["password", "decrypt", "in.ktl", "--env-pass"] };
            let mut c = Cmd::new(&args).env("KESTREL_PASSWORD", if mode == "key" { "bobpw" } else { "filepw" });
            c.stdout_reader_leaves_after = Some(k);
            let out = proc::run(&c, &sc.0);
            if out.timed_out || out.stderr.contains("panicked at") {
                return Err(format!("ill-behaved: {}", out.summary()));
            }
            if !p.starts_with(&out.stdout) {
                return Err("what reached the pipe is not a prefix of the authentic plaintext".into());
            }
            if out.ok() {
                return Err(format!("exit status 0 although the reader of the stdout pipe left after {} of the {} plaintext bytes", k, p.len()));
            }
            Ok(())
        };
        if attempt().is_err() {
            if let Err(e) = attempt() {
                rep.violation(&format!("{}/cli/reader-leaves/{}", tag, mode), json!({"kind":"reader-leaves","mode":mode,"k":k}), format!("kestrel {} decrypt of an authentic 4-chunk file to a stdout pipe: {}", mode, e));
            }
        }
    });
    rep.extra("cli_reader_leaves_cases_4_chunks", json!(jobs.len()));
}

/// The ciphertext FILE grows while it is being decrypted: stdout is a pipe nobody reads, the program comes to rest in its
/// blocked write after the first chunk(s); five bytes are appended to the input file; then the pipe is drained. Data
/// follows the final chunk, so the run must not end with exit 0, and what it released is the plaintext or its
/// authenticated prefix without the final chunk.
fn cli_input_grows(rep: &Report) {
    use crate::fx::Party;
    use crate::proc::Scratch;
    use std::io::{Read, Write};
    use std::process::{Command, Stdio};
    let seed = rep.seed;
    const CS: usize = 65536;
    let alice = Party::new(seed, "alice", "alicepw");
    let bob = Party::new(seed, "bob", "bobpw");
    let kr = crate::fx::keyring(&[(&alice, false), (&bob, true)]);
    let p = plaintext(seed ^ 0x4c7, 5 * CS + 300);
    let ch = vec![CS, CS, CS, CS, CS, 300];
    let f = r::write_key_file(&alice.sk, &bob.pk, &derive32(seed, "grow-e"), &derive32(seed, "grow-p"), &p, &ch).unwrap();
    let salt = derive32(seed, "grow-salt");
    let q = r::write_pass_file_with_key(&r::pass_key(b"filepw", &salt), &salt, &p, &ch);
    let jobs = [("key", &f), ("pass", &q)];
    jobs.par_iter().for_each(|(mode, file)| {
        rep.eval(1);
        rep.nontrivial(format!("cli-input-grows-{}", mode).as_bytes());
        let attempt = || -> Result<Option<String>, String> {
            let sc = Scratch::new();
            sc.write("kr.txt", kr.as_bytes());
            sc.write("in.ktl", file);
            let inpath = std::fs::canonicalize(sc.0.join("in.ktl")).map_err(|e| e.to_string())?;
            let args: Vec<&str> = if *mode == "key" { vec!["decrypt", "in.ktl", "-t", "bob", "-k", "kr.txt", "--env-pass"] } else { vec!["password", "decrypt", "in.ktl", "--env-pass"] };
            let mut child = Command::new(crate::proc::KESTREL).args(&args).env_clear().env("KESTREL_PASSWORD", if *mode == "key" { "bobpw" } else { "filepw" }).current_dir(&sc.0).stdin(Stdio::null()).stderr(Stdio::piped()).stdout(Stdio::piped()).spawn().map_err(|e| format!("spawn: {}", e))?;
            let pid = child.id();
            let read_pos = || -> Option<u64> {
                for e in std::fs::read_dir(format!("/proc/{}/fd", pid)).ok()? {
                    let e = e.ok()?;
                    if std::fs::read_link(e.path()).ok().as_deref() == Some(inpath.as_path()) {
                        let info = std::fs::read_to_string(format!("/proc/{}/fdinfo/{}", pid, e.file_name().to_string_lossy())).ok()?;
                        return info.lines().find_map(|l| l.strip_prefix("pos:")).and_then(|v| v.trim().parse().ok());
                    }
                }
                None
            };
            let t0 = std::time::Instant::now();
            let (mut last, mut since, mut settled) = (None, std::time::Instant::now(), false);
            while t0.elapsed().as_secs() < 15 {
                std::thread::sleep(std::time::Duration::from_millis(20));
                let now = read_pos();
                if now != last {
                    last = now;
                    since = std::time::Instant::now();
                } else if now.map(|v| v > 0 && (v as usize) < file.len()).unwrap_or(false) && since.elapsed().as_millis() >= 400 {
                    settled = true;
                    break;
                }
                if let Ok(Some(_)) = child.try_wait() {
                    break;
                }
            }
            if settled {
                let mut fh = std::fs::OpenOptions::new().append(true).open(&inpath).map_err(|e| e.to_string())?;
                fh.write_all(b"EXTRA").map_err(|e| e.to_string())?;
            }
            let mut so = child.stdout.take().unwrap();
            let mut out = vec![];
            let _ = so.read_to_end(&mut out);
            let mut se = String::new();
            let _ = child.stderr.take().unwrap().read_to_string(&mut se);
            let st = child.wait().map_err(|e| e.to_string())?;
            if !settled {
                return Ok(Some("the program never came to rest in a blocked write".into()));
            }
            if st.success() {
                return Err(format!("exit status 0 although five bytes follow the final chunk of the file it read ({} plaintext bytes released)", out.len()));
            }
            if out != p && out[..] != p[..5 * CS] {
                return Err(format!("{} bytes released; expected the plaintext ({}) or its prefix without the final chunk ({})", out.len(), p.len(), 5 * CS));
            }
            Ok(None)
        };
        match attempt() {
            Ok(None) => {}
            Ok(Some(why)) => rep.extra(&format!("cli_input_grows_{}", mode), json!(format!("not judged: {}", why))),
            Err(_) => {
                if let Err(e) = attempt() {
                    rep.violation(&format!("C04/cli/input-grows/{}", mode), json!({"kind":"cli","name":format!("input-grows-{}", mode)}), format!("kestrel {} decrypt of a 6-chunk FILE to which five bytes are appended while the program is blocked on its stdout pipe: {}", mode, e));
                }
            }
        }
    });
}

pub fn run(rep: &'static Report) {
    rep.set_rule("E-GRAPH: every state of the C03 edit graphs is decrypted by the real code into a recording sink and the write log is checked (each written range is authentic plaintext of chunks whose whole record has already been consumed and is authentic in place; Ok only on complete authentic input). E-ENV: decryption of authentic and tampered files under every fault at every call index and bounded short reads/writes, same predicate on the offered buffers. distinct_nontrivial counts unique graph states + minted words + distinct faulty executions");
    rep.rule_add("CLI level incl. a stdout reader that leaves after 0/1/4096 bytes.");
    rep.rule_add("When the call returns, flush has been called after the last plaintext written (a buffering sink must not deliver after the verdict). CLI: five bytes appended to the input FILE while the program is blocked on its stdout pipe: no exit 0.");
    rep.rule_add("Counter boundaries: after 2^8 / 2^16 (thorough 2^20) authentic one-byte chunks only the record sealed for that position is accepted; records sealed for ~60 other positions are refused with exactly the authentic prefix released.");
    rep.assume("whether the final chunk is written before a trailing-data error is deliberately not constrained (both orders satisfy the statement)");
    rep.assume("authentic corpus files are written by REF; forgery resistance of the AEAD is assumed");
    graph::run_all_graphs(rep, Which::C04);
    crate::minted::run(rep, Which::C04);
    // E-ENV with faults
    let seed = rep.seed;
    let mut items: Vec<(String, std::sync::Arc<Corpus>, Vec<u8>)> = vec![];
    let corpora = vec![
        ("key", std::sync::Arc::new(Corpus::key_mode(seed))),
        ("tiny-cs2", std::sync::Arc::new(Corpus::tiny(seed, &[], 2))),
        ("tiny-magic-cs3", std::sync::Arc::new(Corpus::tiny(seed, &r::PASS_MAGIC, 3))),
        ("tinyfull-cs2", std::sync::Arc::new(Corpus::tiny_full(seed, &[], 2))),
    ];
    for (cn, c) in &corpora {
        for (name, x) in tampered(c) {
            items.push((format!("env-{}-{}", cn, name), c.clone(), x));
        }
    }
    let execs = AtomicU64::new(0);
    let shorts = rep.tier.pick(1, 2);
    items.par_iter().for_each(|(label, c, x)| {
        let sub = c.mode.subject();
        let menu = Menu::shorts(ReadMode::Bounded, true).with_all_faults();
        let mut b = Budget::new(2, 2, 1);
        b.shorts_total = shorts;
        let st = explore(x, menu, b, &|e| run_env(&sub, e), &|env, res| {
            check_env(rep, &format!("C04/{}", label), c, &sub, x, menu, env, res);
            let d = env.deviations();
            if d.0 + d.1 + d.2 > 0 {
                let mut k = label.as_bytes().to_vec();
                for ch in env.choices() {
                    k.extend_from_slice(&ch.to_le_bytes());
                }
                rep.nontrivial(&k);
            }
        })
        .unwrap_or_else(|e| crate::report::machinery(&e));
        execs.fetch_add(st.executions, Ordering::Relaxed);
    });
    rep.eval(execs.load(Ordering::Relaxed));
    rep.extra("env_fault_executions", json!(execs.load(Ordering::Relaxed)));
    rep.extra("env_fault_inputs", json!(items.len()));
    counter_boundaries(rep);
    cli_level(rep);
    cli_input_grows(rep);
    rep.add_distinct(rep.states.load(Ordering::Relaxed));
    rep.sample(json!({"graph":"key","state":"A with chunk 1 body bit flipped","expect":"exactly chunk 0 (2 bytes) written, after 198 source bytes were consumed; then Err"}));
    rep.sample(json!({"env":"key/authentic","tape":"write#1 -> accepts 1 of 2 bytes; write#2 -> Err(Other)","expect":"offered buffers are 'ab','b'; Err(IOWrite); nothing offered afterwards"}));
    rep.set_exhaustive(true);
}

/// CLI level: what reaches the plaintext destination (stdout or -o FILE) of `kestrel decrypt` / `password decrypt`
/// for authentic and tampered multi-chunk files, sender known or unknown: exactly P on success, exactly the
/// authenticated prefix (whole chunks) on failure, and nothing else.
fn cli_level(rep: &Report) {
    use crate::fx::Party;
    use crate::proc::{self, Cmd, Scratch};
    let seed = rep.seed;
    const CS: usize = 65536;
    let alice = Party::new(seed, "alice", "alicepw");
    let bob = Party::new(seed, "bob", "bobpw");
    let kr_known = crate::fx::keyring(&[(&alice, false), (&bob, true)]);
    let kr_unknown = crate::fx::keyring(&[(&bob, true)]);
    let p = plaintext(seed ^ 0x4c, 2 * CS + 300);
    let f = r::write_key_file(&alice.sk, &bob.pk, &derive32(seed, "c04-cli-e"), &derive32(seed, "c04-cli-p"), &p, &[CS, CS, 300]).unwrap();
    let salt = derive32(seed, "c04-cli-salt");
    let q = r::write_pass_file_with_key(&r::pass_key(b"filepw", &salt), &salt, &p, &[CS, CS, 300]);
    let variants = |file: &[u8], h: usize| -> Vec<(&'static str, Vec<u8>, Vec<Vec<u8>>)> {
        // (name, bytes, acceptable released plaintexts)
        let rec2 = h + 32 + CS;
        let rec3 = rec2 + 32 + CS;
        let flip = |at: usize| {
            let mut v = file.to_vec();
            v[at] ^= 1;
            v
        };
        let mut tr = file.to_vec();
        tr.push(0);
        vec![
            ("authentic", file.to_vec(), vec![p.clone()]),
            ("corrupt-header", flip(h - 5), vec![vec![]]),
            ("corrupt-chunk-1", flip(h + 100), vec![vec![]]),
            ("corrupt-chunk-2", flip(rec2 + 100), vec![p[..CS].to_vec()]),
            ("corrupt-chunk-3-tag", flip(file.len() - 1), vec![p[..2 * CS].to_vec()]),
            ("truncated-in-chunk-3", file[..rec3 + 50].to_vec(), vec![p[..2 * CS].to_vec()]),
            ("truncated-at-chunk-boundary", file[..rec3].to_vec(), vec![p[..2 * CS].to_vec()]),
            ("trailing-byte", tr, vec![p[..2 * CS].to_vec(), p.clone()]),
        ]
    };
    let mut jobs: Vec<(String, Vec<u8>, Vec<Vec<u8>>, Vec<String>, String, bool, bool, bool)> = vec![];
    for (vn, bytes, alts) in variants(&f, 132) {
        for (kn, kr) in [("sender-known", &kr_known), ("sender-unknown", &kr_unknown)] {
            for to_stdout in [false, true] {
                jobs.push((format!("decrypt/{}/{}/{}", vn, kn, if to_stdout { "stdout" } else { "-o" }), bytes.clone(), alts.clone(), vec!["decrypt".into(), "in.ktl".into(), "-t".into(), "bob".into(), "-k".into(), "kr.txt".into(), "--env-pass".into()], kr.clone(), to_stdout, vn == "authentic", false));
            }
        }
        // the same at a terminal: the password is typed (and typed again whenever it is asked for again)
        for to_stdout in [false, true] {
            jobs.push((format!("decrypt/{}/sender-known/{}/typed", vn, if to_stdout { "stdout" } else { "-o" }), bytes.clone(), alts.clone(), vec!["decrypt".into(), "in.ktl".into(), "-t".into(), "bob".into(), "-k".into(), "kr.txt".into()], kr_known.clone(), to_stdout, vn == "authentic", true));
        }
    }
    for (vn, bytes, alts) in variants(&q, 36) {
        for to_stdout in [false, true] {
            jobs.push((format!("pass-decrypt/{}/{}", vn, if to_stdout { "stdout" } else { "-o" }), bytes.clone(), alts.clone(), vec!["password".into(), "decrypt".into(), "in.ktl".into(), "--env-pass".into()], String::new(), to_stdout, vn == "authentic", false));
            jobs.push((format!("pass-decrypt/{}/{}/typed", vn, if to_stdout { "stdout" } else { "-o" }), bytes.clone(), alts.clone(), vec!["password".into(), "decrypt".into(), "in.ktl".into()], String::new(), to_stdout, vn == "authentic", true));
        }
    }
    jobs.par_iter().for_each(|(name, bytes, alts, args, kr, to_stdout, should_succeed, typed)| {
        rep.eval(1);
        rep.nontrivial(format!("cli-{}", name).as_bytes());
        let attempt = || -> Result<(), String> {
            let sc = Scratch::new();
            sc.write("in.ktl", bytes);
            sc.write("kr.txt", kr.as_bytes());
            let mut a: Vec<&str> = args.iter().map(|s| s.as_str()).collect();
            if !to_stdout {
                a.extend_from_slice(&["-o", "out.bin"]);
            }
            let pw = if args[0] == "decrypt" { "bobpw" } else { "filepw" };
            let mut cmd = Cmd::new(&a);
            if *typed {
                cmd.pty = Some(proc::PtySpec { typed: format!("{}\n{}\n{}\n", pw, pw, pw).into_bytes(), controlling: false, stdin_is_tty: true, stdout_is_tty: false });
            } else {
                cmd = cmd.env("KESTREL_PASSWORD", pw);
            }
            let out = proc::run(&cmd, &sc.0);
            let released: Vec<u8> = if *to_stdout { out.stdout.clone() } else { sc.read("out.bin").unwrap_or_default() };
            // a program that asks for the password a fourth time waits for a user who has stopped typing: that wait is the
            // wiring's, not a verdict; what it had released by then is judged below like any other run
            let waiting_for_more_typing = *typed && out.timed_out;
            if !waiting_for_more_typing {
                out.well_behaved()?;
                if out.ok() != *should_succeed {
                    return Err(format!("exit status {:?} for {}", out.code, name));
                }
            }
            if !alts.iter().any(|x| *x == released) {
                let is_prefix = p.starts_with(&released);
                return Err(format!(
                    "{}: {} bytes reached the plaintext destination ({}); expected exactly {} bytes of authenticated plaintext{}",
                    name,
                    released.len(),
                    if *to_stdout { "stdout" } else { "-o file" },
                    alts.iter().map(|x| x.len().to_string()).collect::<Vec<_>>().join(" or "),
                    if is_prefix { " — a different prefix" } else { " — the bytes are NOT a prefix of the authentic plaintext" }
                ));
            }
            Ok(())
        };
        if attempt().is_err() {
            if let Err(e) = attempt() {
                rep.violation(&format!("C04/cli/{}", name.split('/').take(2).collect::<Vec<_>>().join("/")), json!({"kind":"cli","name":name}), e);
            }
        }
    });
    // the reader of the stdout pipe goes away early (`kestrel decrypt ... | head -c N`): an exit status of 0 would report a
    // success although not all of the plaintext was delivered; what was delivered is a prefix of P
    {
        let mut ljobs = vec![];
        for mode in ["key", "pass"] {
            // the undelivered rest (>= 127 KiB) exceeds the 64 KiB pipe buffer by far, so the writer cannot have finished
            // before the reader left
            for k in [0usize, 1, 4096] {
                ljobs.push((mode, k));
            }
        }
        ljobs.par_iter().for_each(|&(mode, k)| {
            rep.eval(1);
            rep.nontrivial(format!("cli-reader-leaves-{}-{}", mode, k).as_bytes());
            let attempt = || -> Result<(), String> {
                let sc = Scratch::new();
                sc.write("in.ktl", if mode == "key" { &f } else { &q });
                sc.write("kr.txt", kr_known.as_bytes());
                let args: Vec<&str> = if mode == "key" { vec!["decrypt", "in.ktl", "-t", "bob", "-k", "kr.txt", "--env-pass"] } else { vec!["password", "decrypt", "in.ktl", "--env-pass"] };
                let mut c = Cmd::new(&args).env("KESTREL_PASSWORD", if mode == "key" { "bobpw" } else { "filepw" });
                c.stdout_reader_leaves_after = Some(k);
                let out = proc::run(&c, &sc.0);
                if out.timed_out || out.stderr.contains("panicked at") {
                    return Err(format!("ill-behaved: {}", out.summary()));
                }
                if !p.starts_with(&out.stdout) {
                    return Err("what reached the pipe is not a prefix of the authentic plaintext".into());
                }
                if out.ok() {
                    return Err(format!("exit status 0 although the reader of the stdout pipe left after {} of the {} plaintext bytes (success reported without complete delivery)", k, p.len()));
                }
                Ok(())
            };
            if attempt().is_err() {
                if let Err(e) = attempt() {
                    rep.violation(&format!("C04/cli/reader-leaves/{}", mode), json!({"kind":"cli","name":format!("reader-leaves-{}-{}", mode, k)}), format!("kestrel {} decrypt of an authentic 3-chunk file to a stdout pipe: {}", mode, e));
                }
            }
        });
        rep.extra("cli_reader_leaves_cases", json!(ljobs.len()));
    }
    // an authentic file whose plaintext is EMPTY: on success the destination holds exactly that -- an empty file is created at a
    // fresh -o path, and a file already there no longer holds its old bytes
    {
        let f0 = r::write_key_file(&alice.sk, &bob.pk, &derive32(seed, "c04-cli-e0"), &derive32(seed, "c04-cli-p0"), &[], &[0]).unwrap();
        let q0 = r::write_pass_file_with_key(&r::pass_key(b"filepw", &salt), &salt, &[], &[0]);
        let mut ej = vec![];
        for mode in ["key", "pass"] {
            for pre in [false, true] {
                ej.push((mode, pre));
            }
        }
        ej.par_iter().for_each(|&(mode, pre)| {
            rep.eval(1);
            rep.nontrivial(format!("cli-empty-plaintext-{}-{}", mode, pre).as_bytes());
            let attempt = || -> Result<(), String> {
                let sc = Scratch::new();
                sc.write("in.ktl", if mode == "key" { &f0 } else { &q0 });
                sc.write("kr.txt", kr_known.as_bytes());
                if pre {
                    sc.write("out.bin", b"bytes of an older, unrelated file");
                }
                let a: Vec<&str> = if mode == "key" { vec!["decrypt", "in.ktl", "-t", "bob", "-k", "kr.txt", "-o", "out.bin", "--env-pass"] } else { vec!["password", "decrypt", "in.ktl", "-o", "out.bin", "--env-pass"] };
                let out = proc::run(&Cmd::new(&a).env("KESTREL_PASSWORD", if mode == "key" { "bobpw" } else { "filepw" }), &sc.0);
                out.well_behaved()?;
                if !out.ok() {
                    return Err(format!("an authentic file with an empty plaintext is refused: {}", out.summary()));
                }
                match sc.read("out.bin") {
                    Some(b) if b.is_empty() => Ok(()),
                    Some(b) => Err(format!("exit 0, but the destination holds {} bytes that were never authenticated (the file that was there before)", b.len())),
                    None => Err("exit 0, but no file exists at the -o path".into()),
                }
            };
            if attempt().is_err() {
                if let Err(e) = attempt() {
                    rep.violation(&format!("C04/cli/{}-decrypt/empty-plaintext", mode), json!({"kind":"cli","name":format!("empty-plaintext-{}-{}", mode, pre)}), format!("kestrel {} decrypt -o out.bin ({}): {}", mode, if pre { "a file is already there" } else { "fresh path" }, e));
                }
            }
        });
    }
    rep.extra("cli_decrypt_cases", json!(jobs.len()));
    rep.sample(json!({"kind":"cli","case":"decrypt/corrupt-chunk-2/sender-unknown/stdout","expect":"exit 1; stdout holds exactly the first 65536 plaintext bytes"}));
}

pub fn replay(rep: &'static Report, case: &Value) {
    if case["kind"] == "cli" {
        println!("  re-running the CLI-level part of C04");
        cli_level(rep);
        cli_input_grows(rep);
        return;
    }
    if case["kind"] == "counter-boundary" {
        println!("  re-running the counter-boundary part of C04");
        counter_boundaries(rep);
        return;
    }
    if !case["env_case"].is_null() {
        let c = Case::from_json(case).unwrap();
        let label = case["extra"]["label"].as_str().unwrap_or("replay").to_string();
        let seed = rep.seed;
        let corpus = if label.contains("env-key") {
            Corpus::key_mode(seed)
        } else if label.contains("tinyfull") {
            Corpus::tiny_full(seed, &[], 2)
        } else if label.contains("tiny-magic") {
            Corpus::tiny(seed, &r::PASS_MAGIC, 3)
        } else {
            Corpus::tiny(seed, &[], 2)
        };
        let (env, res) = c.run();
        let (env2, res2) = c.run();
        if res != res2 || env.sink != env2.sink {
            crate::report::machinery("replay not deterministic");
        }
        println!("  observed: {} sink={} schedule=[{}]", res.brief(), hx(&env.sink), describe(&env));
        check_env(rep, &label, &corpus, &c.subject, &unhx(&c.src), c.menu, &env, &res);
        return;
    }
    match case["kind"].as_str().unwrap_or("") {
        "state" => graph::replay_state(rep, Which::C04, case),
        "minted" => crate::minted::replay(rep, Which::C04, case),
        k => crate::report::machinery(&format!("unknown replay kind {}", k)),
    }
}
