//! C18 — scrypt == RFC 7914, in the library and across the C ABI (E-GRID vs OpenSSL).
use crate::refspec as r;
use crate::report::{Report, Tier};
use crate::util::*;
use rayon::prelude::*;
use serde_json::{json, Value};

pub const FFI_SO: &str = "/verif/harness/target/release/libkestrel_ffi.so";

type ScryptFn = unsafe extern "C" fn(*const u8, usize, *const u8, usize, u32, u32, u32, *mut u8, usize);

pub struct Ffi {
    f: ScryptFn,
}
unsafe impl Sync for Ffi {}
unsafe impl Send for Ffi {}

impl Ffi {
    pub fn load() -> Ffi {
        unsafe {
            let path = std::ffi::CString::new(FFI_SO).unwrap();
            let h = libc::dlopen(path.as_ptr(), libc::RTLD_NOW | libc::RTLD_LOCAL);
            if h.is_null() {
                crate::report::machinery(&format!("cannot dlopen {}", FFI_SO));
            }
            let sym = libc::dlsym(h, b"scrypt\0".as_ptr() as *const libc::c_char);
            if sym.is_null() {
                crate::report::machinery("symbol scrypt not exported by the cdylib");
            }
            Ffi { f: std::mem::transmute::<*mut libc::c_void, ScryptFn>(sym) }
        }
    }
}

#[derive(Clone, Debug)]
struct Tuple {
    pw: Vec<u8>,
    salt: Vec<u8>,
    n: u32,
    r: u32,
    p: u32,
    dk: usize,
}

impl Tuple {
    fn json(&self, via: &str) -> Value {
        json!({"via":via,"pw":hx(&self.pw),"salt":hx(&self.salt),"n":self.n,"r":self.r,"p":self.p,"dk":self.dk})
    }
    fn descr(&self) -> String {
        format!("|pw|={} |salt|={} N={} r={} p={} dkLen={}", self.pw.len(), self.salt.len(), self.n, self.r, self.p, self.dk)
    }
}

fn lib_case(rep: &Report, t: &Tuple) {
    rep.eval(1);
    let want = r::scrypt(&t.pw, &t.salt, t.n as u64, t.r as u64, t.p as u64, t.dk);
    match guarded(|| kestrel_crypto::scrypt(&t.pw, &t.salt, t.n, t.r, t.p, t.dk)) {
        Ok(got) => {
            if got != want {
                rep.violation("lib/differs", t.json("lib"), format!("kestrel_crypto::scrypt differs from RFC 7914 (OpenSSL) for {}", t.descr()));
            }
        }
        Err(m) => rep.violation("lib/panic", t.json("lib"), format!("scrypt panicked for {}: {}", t.descr(), m)),
    }
}

const GUARD: usize = 64;

/// One tuple through the exported C function, with guard bytes around every buffer; returns (clause, message) findings.
fn ffi_eval(ffi: &Ffi, t: &Tuple) -> Vec<(String, String)> {
    let mut findings = vec![];
    let want = r::scrypt(&t.pw, &t.salt, t.n as u64, t.r as u64, t.p as u64, t.dk);
    // inputs in guarded buffers too, so a write into them is seen
    let mut pwbuf = vec![0x3cu8; GUARD + t.pw.len() + GUARD];
    pwbuf[GUARD..GUARD + t.pw.len()].copy_from_slice(&t.pw);
    let mut saltbuf = vec![0x3cu8; GUARD + t.salt.len() + GUARD];
    saltbuf[GUARD..GUARD + t.salt.len()].copy_from_slice(&t.salt);
    let pw0 = pwbuf.clone();
    let salt0 = saltbuf.clone();
    let tail = 48; // bytes of the caller's buffer beyond dk_len
    // the caller's buffer may start at any address: try every offset modulo 8 (cheap tuples) or two of them
    let offsets: Vec<usize> = if (t.n as u64) * (t.r as u64) * (t.p as u64) <= 256 { (0..8).collect() } else { vec![0, 3] };
    for off in offsets {
        let mut out = vec![0xa5u8; GUARD + 8 + t.dk + tail + GUARD];
        let base = GUARD + off + (8 - (out.as_ptr() as usize + GUARD) % 8) % 8; // (address of out[base]) % 8 == off
        let res = guarded(|| unsafe {
            (ffi.f)(pwbuf.as_ptr().add(GUARD), t.pw.len(), saltbuf.as_ptr().add(GUARD), t.salt.len(), t.n, t.r, t.p, out.as_mut_ptr().add(base), t.dk);
        });
        if let Err(m) = res {
            findings.push(("ffi/panic".into(), format!("exported scrypt panicked for {}: {}", t.descr(), m)));
            return findings;
        }
        if out[base..base + t.dk] != want[..] {
            findings.push(("ffi/value-differs".into(), format!("exported C scrypt wrote a value different from RFC 7914 for {} (output buffer at address = {} mod 8)", t.descr(), off)));
        }
        if out[..base].iter().any(|&b| b != 0xa5) || out[base + t.dk..].iter().any(|&b| b != 0xa5) {
            findings.push(("ffi/wrote-outside".into(), format!("exported C scrypt touched bytes outside the requested {} bytes ({}; output buffer at address = {} mod 8)", t.dk, t.descr(), off)));
        }
    }
    if pwbuf != pw0 || saltbuf != salt0 {
        findings.push(("ffi/inputs-modified".into(), format!("exported C scrypt modified its inputs ({})", t.descr())));
    }
    findings
}

/// Output buffer == (a prefix of) the salt / password buffer; the aliased input sits inside a guarded arena.
/// Four threads call the exported function at the same time, each 200 times, each with its own password (and its own
/// output length): every call must write the value for its own inputs. The threads run freely -- this part SAMPLES
/// schedules; it is a supplementary pass and is labelled so in the evidence.
fn ffi_concurrent_eval(ffi: &Ffi, t: &Tuple) -> Vec<(String, String)> {
    let nthreads = 4usize;
    let rounds = 200usize;
    let inputs: Vec<(Vec<u8>, usize, Vec<u8>)> = (0..nthreads)
        .map(|i| {
            let mut pw = t.pw.clone();
            pw.push(b'0' + i as u8);
            let dk = t.dk + 8 * (i % 2);
            let want = r::scrypt(&pw, &t.salt, t.n as u64, t.r as u64, t.p as u64, dk);
            (pw, dk, want)
        })
        .collect();
    let barrier = std::sync::Barrier::new(nthreads);
    let wrong = std::sync::atomic::AtomicU64::new(0);
    std::thread::scope(|sc| {
        for (pw, dk, want) in &inputs {
            let (barrier, wrong) = (&barrier, &wrong);
            sc.spawn(move || {
                barrier.wait();
                for _ in 0..rounds {
                    let mut out = vec![0u8; *dk];
                    unsafe { (ffi.f)(pw.as_ptr(), pw.len(), t.salt.as_ptr(), t.salt.len(), t.n, t.r, t.p, out.as_mut_ptr(), *dk) };
                    if out != *want {
                        wrong.fetch_add(1, std::sync::atomic::Ordering::Relaxed);
                    }
                }
            });
        }
    });
    let w = wrong.load(std::sync::atomic::Ordering::Relaxed);
    if w > 0 {
        vec![("ffi/value-differs-under-concurrent-calls".into(), format!("{} of {} calls of the exported C scrypt made by {} threads at the same time ({}) wrote a value that is not the RFC 7914 value of their own inputs", w, nthreads * rounds, nthreads, t.descr()))]
    } else {
        vec![]
    }
}

fn ffi_overlap_eval(ffi: &Ffi, t: &Tuple, over_salt: bool) -> Vec<(String, String)> {
    let mut findings = vec![];
    let want = r::scrypt(&t.pw, &t.salt, t.n as u64, t.r as u64, t.p as u64, t.dk);
    let mut pw = vec![0xa5u8; GUARD + t.pw.len() + GUARD];
    pw[GUARD..GUARD + t.pw.len()].copy_from_slice(&t.pw);
    let mut salt = vec![0xa5u8; GUARD + t.salt.len() + GUARD];
    salt[GUARD..GUARD + t.salt.len()].copy_from_slice(&t.salt);
    let res = guarded(|| unsafe {
        if over_salt {
            let p = salt.as_mut_ptr().add(GUARD);
            (ffi.f)(pw.as_ptr().add(GUARD), t.pw.len(), p as *const u8, t.salt.len(), t.n, t.r, t.p, p, t.dk);
        } else {
            let p = pw.as_mut_ptr().add(GUARD);
            (ffi.f)(p as *const u8, t.pw.len(), salt.as_ptr().add(GUARD), t.salt.len(), t.n, t.r, t.p, p, t.dk);
        }
    });
    let (buf, blen) = if over_salt { (&salt, t.salt.len()) } else { (&pw, t.pw.len()) };
    let _ = blen;
    if res.is_err() {
        findings.push(("ffi/panic".into(), format!("exported scrypt panicked with output overlapping an input ({})", t.descr())));
    } else if buf[GUARD..GUARD + t.dk] != want[..] {
        findings.push(("ffi/overlap-value-differs".into(), format!("exported C scrypt with the output buffer overlapping the {} wrote a value different from RFC 7914 of the original inputs ({})", if over_salt { "salt" } else { "password" }, t.descr())));
    } else if buf[..GUARD].iter().any(|&b| b != 0xa5) || buf[GUARD + t.dk.max(blen)..].iter().any(|&b| b != 0xa5) {
        findings.push(("ffi/wrote-outside".into(), format!("exported C scrypt (output overlapping the {}) touched bytes outside the buffer ({})", if over_salt { "salt" } else { "password" }, t.descr())));
    }
    findings
}

/// `kv ffi-child <jobs file> <start index>`: runs the jobs sequentially on one thread in THIS process and prints
/// "B i" before and "R i <findings json>" after each, so that a crash of the exported function (abort from a panic
/// crossing the C ABI, heap corruption, SIGSEGV) is attributed to the job during which it happened.
pub fn ffi_child_main(a: &[String]) -> ! {
    use std::io::Write;
    let text = std::fs::read_to_string(&a[0]).unwrap_or_default();
    let start: usize = a[1].parse().unwrap_or(0);
    let ffi = Ffi::load();
    let out = std::io::stdout();
    for (i, line) in text.lines().enumerate().skip(start) {
        let v: Value = serde_json::from_str(line).unwrap();
        let t = Tuple { pw: unhx(v["pw"].as_str().unwrap()), salt: unhx(v["salt"].as_str().unwrap()), n: v["n"].as_u64().unwrap() as u32, r: v["r"].as_u64().unwrap() as u32, p: v["p"].as_u64().unwrap() as u32, dk: v["dk"].as_u64().unwrap() as usize };
        {
            let mut o = out.lock();
            let _ = writeln!(o, "B {}", i);
            let _ = o.flush();
        }
        let f = match v["mode"].as_u64().unwrap_or(0) {
            3 => {
                // rejected parameters: whatever happens (the process may end here), no finding of its own
                let mut out = vec![0u8; t.dk];
                unsafe { (ffi.f)(t.pw.as_ptr(), t.pw.len(), t.salt.as_ptr(), t.salt.len(), t.n, t.r, t.p, out.as_mut_ptr(), t.dk) };
                vec![]
            }
            4 => ffi_concurrent_eval(&ffi, &t),
            1 => ffi_overlap_eval(&ffi, &t, true),
            2 => ffi_overlap_eval(&ffi, &t, false),
            _ => ffi_eval(&ffi, &t),
        };
        let mut o = out.lock();
        let _ = writeln!(o, "R {} {}", i, serde_json::to_string(&f).unwrap());
        let _ = o.flush();
    }
    std::process::exit(0);
}

/// Run FFI jobs (tuple, mode) in child processes, sequentially per batch; a child that dies is restarted after the job
/// that killed it, and that death is a finding of its own.
fn ffi_batch(rep: &Report, jobs: &[(Tuple, u8)], tag: &str) {
    if jobs.is_empty() {
        return;
    }
    let exe = std::env::current_exe().unwrap_or_else(|_| crate::report::machinery("current_exe"));
    let sc = crate::proc::Scratch::new();
    let path = sc.path("ffi-jobs.jsonl");
    let text: String = jobs.iter().map(|(t, m)| { let mut j = t.json("ffi"); j["mode"] = json!(m); format!("{}\n", j) }).collect();
    std::fs::write(&path, text).unwrap();
    let mut start = 0usize;
    let mut crashes = 0;
    while start < jobs.len() {
        let o = std::process::Command::new(&exe).args(["ffi-child", path.to_str().unwrap(), &start.to_string()]).stdin(std::process::Stdio::null()).stderr(std::process::Stdio::piped()).output();
        let o = match o {
            Ok(o) => o,
            Err(e) => crate::report::machinery(&format!("cannot start the FFI child: {}", e)),
        };
        let out = String::from_utf8_lossy(&o.stdout).to_string();
        let mut begun: Option<usize> = None;
        let mut done = start;
        for line in out.lines() {
            if let Some(x) = line.strip_prefix("B ") {
                begun = x.trim().parse().ok();
            } else if let Some(x) = line.strip_prefix("R ") {
                let (i, js) = x.split_once(' ').unwrap_or((x, "[]"));
                let i: usize = i.parse().unwrap_or(0);
                rep.eval(1);
                let (t, m) = &jobs[i];
                rep.nontrivial(format!("ffi-{}-{:?}-{}", tag, t, m).as_bytes());
                let f: Vec<(String, String)> = serde_json::from_str(js).unwrap_or_default();
                for (clause, msg) in f {
                    let mut j = t.json(if *m == 0 { "ffi" } else if *m == 4 { "ffi-concurrent" } else { "ffi-overlap" });
                    // the call made just before it in the same process is part of the case (state kept between calls)
                    if i > 0 && jobs[i - 1].1 != 3 {
                        j["previous"] = jobs[i - 1].0.json("ffi");
                    }
                    // calls with rejected parameters that came before it in the same process are part of the case
                    if let Some((rj, _)) = jobs[..i].iter().rev().find(|(_, mm)| *mm == 3) {
                        j["after_rejected"] = rj.json("ffi");
                    }
                    let msg = if j.get("after_rejected").is_some() { format!("{} [after a call with rejected parameters ({}) in the same process]", msg, jobs[..i].iter().rev().find(|(_, mm)| *mm == 3).map(|(rj, _)| rj.descr()).unwrap_or_default()) } else { msg };
                    if *m != 0 && *m != 4 {
                        j["over"] = json!(if *m == 1 { "salt" } else { "password" });
                    }
                    rep.violation(&clause, j, msg);
                }
                done = i + 1;
                begun = None;
            }
        }
        if o.status.success() && done >= jobs.len() {
            break;
        }
        // the child died: the job it had begun is the one that killed it
        let culprit = begun.unwrap_or(done);
        if culprit >= jobs.len() {
            crate::report::machinery(&format!("FFI child ended early without a begun job: {:?}", o.status));
        }
        let (t, m) = &jobs[culprit];
        if *m == 3 {
            // a rejected call ended the process: allowed; the jobs after it run in a new process
            rep.eval(1);
            start = culprit + 1;
            continue;
        }
        use std::os::unix::process::ExitStatusExt;
        let err = String::from_utf8_lossy(&o.stderr);
        rep.eval(1);
        rep.violation(
            "ffi/crash",
            t.json(if *m == 0 { "ffi" } else if *m == 4 { "ffi-concurrent" } else { "ffi-overlap" }),
            format!("the process calling the exported C scrypt died during {} (signal {:?}, exit {:?}): {}", t.descr(), o.status.signal(), o.status.code(), err.lines().rev().find(|l| !l.trim().is_empty()).unwrap_or("").chars().take(160).collect::<String>()),
        );
        crashes += 1;
        if crashes > 20 {
            break; // enough evidence; do not restart forever
        }
        start = culprit + 1;
    }
}

fn tuples(seed: u64, tier: Tier) -> (Vec<Tuple>, Vec<Tuple>) {
    let pw = derive(seed, "c18-pw", 11);
    let salt = derive(seed, "c18-salt", 9);
    let mk = |n: u32, r: u32, p: u32, dk: usize| Tuple { pw: pw.clone(), salt: salt.clone(), n, r, p, dk };
    let mut lib = vec![];
    // full product
    let maxn_log = tier.pick(9, 10);
    for nl in 1..=maxn_log {
        for r in 1..=8u32 {
            for p in 1..=4u32 {
                for dk in [1usize, 31, 32, 33, 63, 64, 65, 200] {
                    lib.push(mk(1 << nl, r, p, dk));
                }
            }
        }
    }
    // axes
    for nl in 1..=15 {
        lib.push(mk(1 << nl, 1, 1, 32));
        if nl <= 13 || tier == Tier::Thorough {
            lib.push(mk(1 << nl, 8, 1, 32));
        }
    }
    for r in 1..=16u32 {
        lib.push(mk(16, r, 1, 32));
        lib.push(mk(16, r, 2, 64));
        lib.push(mk(64, r, 3, 33));
    }
    for p in 1..=8u32 {
        lib.push(mk(16, 1, p, 32));
        lib.push(mk(16, 3, p, 65));
    }
    for dk in 1..=200usize {
        lib.push(mk(4, 1, 1, dk));
        lib.push(mk(8, 2, 2, dk));
    }
    // corners
    lib.push(mk(1 << 15, 8, 1, 32));
    lib.push(mk(1 << 10, 16, 8, 64));
    if tier == Tier::Thorough {
        lib.push(mk(1 << 15, 16, 1, 32));
        lib.push(mk(1 << 14, 8, 2, 200));
    }
    // password / salt shapes
    let lens = [0usize, 1, 31, 32, 33, 63, 64, 65, 127, 128, 129, 200];
    for &pl in &lens {
        for &sl in &lens {
            let mut t = mk(16, 2, 2, 40);
            t.pw = derive(seed, "c18-pwl", pl);
            t.salt = derive(seed, "c18-sl", sl);
            lib.push(t.clone());
            // trailing NUL / whitespace and all-zero variants
            if pl > 0 {
                let mut t2 = t.clone();
                *t2.pw.last_mut().unwrap() = 0;
                lib.push(t2);
            }
            if sl > 0 {
                let mut t3 = t.clone();
                *t3.salt.last_mut().unwrap() = 0;
                lib.push(t3);
                let mut t4 = t.clone();
                t4.salt[0] = 0;
                lib.push(t4);
            }
        }
    }
    for v in [0u8, 0x20, 0x0a, 0xff] {
        let mut t = mk(8, 1, 1, 32);
        t.pw = vec![v; 70];
        t.salt = vec![v; 5];
        lib.push(t);
    }
    // FFI: same tuples, reduced in quick
    let ffi: Vec<Tuple> = match tier {
        Tier::Thorough => lib.clone(),
        Tier::Quick => lib.iter().filter(|t| (t.n as u64) * (t.r as u64) * (t.p as u64) <= 4096 || (t.n == 1 << 15 && t.r == 8)).cloned().collect(),
    };
    (lib, ffi)
}

/// the caller's output buffer is the same memory as the salt (or password): the value must still be RFC 7914 of the ORIGINAL inputs
/// `kv scrypt-child <lib|ffi> <extra_kib> <n> <r> <p> <dk> <pw_hex> <salt_hex>`: one derivation in a process whose
/// address space is limited to what it uses now plus `extra_kib` (the "allocation answers" of the environment).
/// Prints the derived key in hex; an allocation failure aborts the process (no value is returned).
pub fn child_main(a: &[String]) -> ! {
    let via = a[0].as_str();
    let extra_kib: u64 = a[1].parse().unwrap();
    let (n, rr, p, dk): (u32, u32, u32, usize) = (a[2].parse().unwrap(), a[3].parse().unwrap(), a[4].parse().unwrap(), a[5].parse().unwrap());
    let pw = unhx(&a[6]);
    let salt = unhx(&a[7]);
    // KV_CPUS=k: the process may run on k processors only (what the operating system answers when asked how much
    // parallelism is available)
    if let Some(k) = std::env::var("KV_CPUS").ok().and_then(|v| v.parse::<usize>().ok()) {
        unsafe {
            let mut cur: libc::cpu_set_t = std::mem::zeroed();
            if libc::sched_getaffinity(0, std::mem::size_of::<libc::cpu_set_t>(), &mut cur) == 0 {
                let mut set: libc::cpu_set_t = std::mem::zeroed();
                let mut taken = 0;
                for c in 0..libc::CPU_SETSIZE as usize {
                    if libc::CPU_ISSET(c, &cur) && taken < k {
                        libc::CPU_SET(c, &mut set);
                        taken += 1;
                    }
                }
                libc::sched_setaffinity(0, std::mem::size_of::<libc::cpu_set_t>(), &set);
            }
        }
    }
    let ffi = if via == "ffi" { Some(Ffi::load()) } else { None };
    let mut out = vec![0u8; dk];
    // a panic must end the child at once (printing a backtrace needs memory the limit below does not leave)
    std::panic::set_hook(Box::new(|_| unsafe { libc::_exit(101) }));
    // current size of the address space, in bytes
    let statm = std::fs::read_to_string("/proc/self/statm").unwrap_or_default();
    let pages: u64 = statm.split_whitespace().next().and_then(|x| x.parse().ok()).unwrap_or(0);
    let now = pages * 4096;
    let lim = now + extra_kib * 1024;
    let rl = libc::rlimit { rlim_cur: lim, rlim_max: lim };
    unsafe {
        libc::setrlimit(libc::RLIMIT_AS, &rl);
    }
    match &ffi {
        Some(f) => unsafe { (f.f)(pw.as_ptr(), pw.len(), salt.as_ptr(), salt.len(), n, rr, p, out.as_mut_ptr(), dk) },
        None => out = kestrel_crypto::scrypt(&pw, &salt, n, rr, p, dk),
    }
    println!("{}", hx(&out));
    std::process::exit(0);
}

/// Memory pressure: the same derivation in child processes whose remaining address space is each value of a grid that
/// brackets the size of scrypt's big table. A child may die of the failed allocation; a value it does return must be the
/// RFC 7914 value ("within memory limits" never means "a different key").
fn memory_pressure(rep: &Report) {
    let seed = rep.seed;
    let exe = std::env::current_exe().unwrap_or_else(|_| crate::report::machinery("current_exe"));
    let mut jobs = vec![];
    for (n, rr) in [(32768u32, 8u32), (32768, 16), (16384, 8)] {
        let need_kib = 128u64 * n as u64 * rr as u64 / 1024;
        let mut extra = 4096u64;
        while extra <= need_kib + 16384 {
            for via in ["lib", "ffi"] {
                jobs.push((via, n, rr, extra, need_kib));
            }
            extra += rep.tier.pick(8192, 2048);
        }
    }
    // several inputs per limit: which table entries a derivation looks up depends on the input
    let inputs: Vec<(Vec<u8>, Vec<u8>)> = (0..rep.tier.pick(4usize, 8)).map(|i| (derive(seed, &format!("c18-mem-pw-{}", i), 5 + i), derive(seed, &format!("c18-mem-salt-{}", i), 16))).collect();
    let jobs: Vec<(&str, u32, u32, u64, u64, usize)> = jobs.into_iter().flat_map(|(via, n, rr, extra, need)| (0..inputs.len()).filter(move |&i| i == 0 || (extra < need + 2048 && extra * 2 + 4096 > need)).map(move |i| (via, n, rr, extra, need, i))).collect();
    let returned = std::sync::atomic::AtomicU64::new(0);
    jobs.par_iter().for_each(|&(via, n, rr, extra, need_kib, ii)| {
        let (pw, salt) = &inputs[ii];
        rep.eval(1);
        rep.nontrivial(format!("mem-{}-{}-{}-{}-{}", via, n, rr, extra, ii).as_bytes());
        let want = hx(&r::scrypt(pw, salt, n as u64, rr as u64, 1, 32));
        let child = std::process::Command::new(&exe).args(["scrypt-child", via, &extra.to_string(), &n.to_string(), &rr.to_string(), "1", "32", &hx(pw), &hx(salt)]).stdin(std::process::Stdio::null()).stderr(std::process::Stdio::null()).stdout(std::process::Stdio::piped()).spawn();
        match child {
            Err(e) => crate::report::machinery(&format!("cannot start the scrypt child: {}", e)),
            Ok(mut ch) => {
                // a child that neither returns nor dies within 20 s (e.g. stuck in its out-of-memory handler) returned no value
                let t0 = std::time::Instant::now();
                let status = loop {
                    match ch.try_wait() {
                        Ok(Some(st)) => break Some(st),
                        Ok(None) if t0.elapsed().as_secs() > 20 => {
                            let _ = ch.kill();
                            let _ = ch.wait();
                            break None;
                        }
                        Ok(None) => std::thread::sleep(std::time::Duration::from_millis(5)),
                        Err(_) => break None,
                    }
                };
                let mut stdout = String::new();
                if let Some(mut so) = ch.stdout.take() {
                    use std::io::Read;
                    let _ = so.read_to_string(&mut stdout);
                }
                if status.map(|s| s.success()).unwrap_or(false) {
                    returned.fetch_add(1, std::sync::atomic::Ordering::Relaxed);
                    let got = stdout.trim().to_string();
                    if got != want {
                        rep.violation(
                            &format!("{}/wrong-value-under-memory-pressure", via),
                            json!({"via":via,"kind":"memory","n":n,"r":rr,"extra_kib":extra}),
                            format!("scrypt(N={}, r={}, p=1) via {} with {} KiB of address space left (the table needs {} KiB) returned a value different from RFC 7914", n, rr, via, extra, need_kib),
                        );
                    }
                }
            }
        }
    });
    rep.extra("memory_pressure_runs", json!({"runs":jobs.len(),"returned_a_value":returned.load(std::sync::atomic::Ordering::Relaxed)}));
}

/// The number of processors the process may use is an answer of the environment like any other: the same derivations in
/// child processes confined to 1, 2, 3 and 5 processors (and unconfined), for p = 1..=8 and 17 lanes with tables of 2 MiB
/// and more per lane (sizes at which splitting the lanes over threads would pay), through the library and the C function.
fn processor_counts(rep: &Report) {
    let seed = rep.seed;
    let exe = std::env::current_exe().unwrap_or_else(|_| crate::report::machinery("current_exe"));
    let pw = derive(seed, "c18-cpu-pw", 10);
    let salt = derive(seed, "c18-cpu-salt", 12);
    let mut jobs = vec![];
    for cpus in [Some(1usize), Some(2), Some(3), Some(5), None] {
        for (n, rr) in [(16384u32, 1u32), (1024, 16), (32768, 2)] {
            for p in [1u32, 2, 3, 4, 5, 6, 7, 8, 17] {
                if (n, rr) == (32768, 2) && !(p == 3 || p == 17) {
                    continue;
                }
                for via in ["lib", "ffi"] {
                    if via == "ffi" && !(p == 3 || p == 5 || p == 17) {
                        continue;
                    }
                    jobs.push((via, cpus, n, rr, p));
                }
            }
        }
    }
    jobs.par_iter().for_each(|&(via, cpus, n, rr, p)| {
        rep.eval(1);
        rep.nontrivial(format!("cpus-{}-{:?}-{}-{}-{}", via, cpus, n, rr, p).as_bytes());
        let want = hx(&r::scrypt(&pw, &salt, n as u64, rr as u64, p as u64, 32));
        let mut c = std::process::Command::new(&exe);
        c.args(["scrypt-child", via, "4194304", &n.to_string(), &rr.to_string(), &p.to_string(), "32", &hx(&pw), &hx(&salt)]).stdin(std::process::Stdio::null()).stderr(std::process::Stdio::null());
        if let Some(k) = cpus {
            c.env("KV_CPUS", k.to_string());
        }
        match c.output() {
            Err(e) => crate::report::machinery(&format!("cannot start the scrypt child: {}", e)),
            Ok(o) => {
                let got = String::from_utf8_lossy(&o.stdout).trim().to_string();
                if !o.status.success() || got != want {
                    rep.violation(
                        &format!("{}/wrong-value-for-a-processor-count", via),
                        json!({"via":via,"kind":"cpus","cpus":cpus,"n":n,"r":rr,"p":p}),
                        format!("scrypt(N={}, r={}, p={}) via {} in a process confined to {} processor(s): {}", n, rr, p, via, cpus.map(|k| k.to_string()).unwrap_or("all".into()), if o.status.success() { "the value differs from RFC 7914".to_string() } else { format!("the process ended with {:?}", o.status) }),
                    );
                }
            }
        }
    });
    rep.extra("processor_count_runs", json!(jobs.len()));
}

/// A call with parameters the library rejects (N not a power of two, N < 2, r or p zero, r*p too large) may end the calling
/// process -- that is the documented contract of the C function and no verdict is attached to it here; if it returns
/// instead, the process goes on, and the valid calls that follow in the same process must still write the RFC 7914 value.
fn after_rejected_calls(rep: &Report) {
    let seed = rep.seed;
    let pw = derive(seed, "c18-rej-pw", 8);
    let salt = derive(seed, "c18-rej-salt", 8);
    let mk = |n: u32, r: u32, p: u32| Tuple { pw: pw.clone(), salt: salt.clone(), n, r, p, dk: 32 };
    let rejected = [mk(0, 8, 1), mk(1, 8, 1), mk(3, 8, 1), mk(6, 1, 1), mk(16, 0, 1), mk(16, 1, 0), mk(16, 1 << 15, 1 << 15), mk(0, 0, 0)];
    let valid = [mk(16, 8, 1), mk(64, 2, 2)];
    let batches: Vec<Vec<(Tuple, u8)>> = rejected.iter().map(|rj| vec![(valid[0].clone(), 0u8), (rj.clone(), 3u8), (valid[0].clone(), 0u8), (valid[1].clone(), 0u8)]).collect();
    batches.par_iter().enumerate().for_each(|(k, b)| ffi_batch(rep, b, &format!("after-rejected-{}", k)));
    rep.extra("after_rejected_call_sequences", json!(batches.len()));
    // supplementary, free-running: concurrent calls from four threads (sampling of schedules, not exhaustive)
    let conc = vec![(mk(16, 2, 1), 4u8), (mk(64, 1, 2), 4u8)];
    ffi_batch(rep, &conc, "concurrent");
    rep.extra("concurrent_c_calls", json!({"threads":4,"rounds":200,"tuples":2,"note":"free-running threads: a sample of schedules"}));
}

/// `kv ffi-huge <which: pw|salt> <extra>`: the exported C function with a password (or salt) of 2^32 + extra zero bytes --
/// a fresh anonymous mapping, never written, so it costs no memory -- N = 2, r = 1, p = 1, 32 bytes out. Prints
/// `<C result> <REF result>` in hex.
pub fn ffi_huge_main(a: &[String]) -> ! {
    let which = a[0].as_str();
    let extra: usize = a[1].parse().unwrap_or(5);
    let len: usize = (1usize << 32) + extra;
    let map = unsafe { libc::mmap(std::ptr::null_mut(), len, libc::PROT_READ, libc::MAP_PRIVATE | libc::MAP_ANONYMOUS | libc::MAP_NORESERVE, -1, 0) };
    if map == libc::MAP_FAILED {
        std::process::exit(5);
    }
    let big: &[u8] = unsafe { std::slice::from_raw_parts(map as *const u8, len) };
    let small = b"the other input".to_vec();
    let (pw, salt): (&[u8], &[u8]) = if which == "pw" { (big, &small) } else { (&small, big) };
    let ffi = Ffi::load();
    let mut out = vec![0u8; 32];
    unsafe { (ffi.f)(pw.as_ptr(), pw.len(), salt.as_ptr(), salt.len(), 2, 1, 1, out.as_mut_ptr(), 32) };
    // REF: OpenSSL's PBKDF2 takes its lengths as C ints, so the reference value is computed through the identity
    // HMAC(key) = HMAC(SHA-256(key)) for keys longer than a block: scrypt(P, ..) = scrypt(SHA-256(P), ..) for |P| > 64
    let want = if which == "pw" { r::scrypt(&r::sha256(pw), salt, 2, 1, 1, 32) } else { vec![] };
    println!("{} {}", hx(&out), hx(&want));
    std::process::exit(0);
}

/// Thorough tier: a length that does not fit 32 bits across the C ABI (a password of 2^32 + 5 bytes).
fn huge_inputs(rep: &Report) {
    let exe = std::env::current_exe().unwrap_or_else(|_| crate::report::machinery("current_exe"));
    // (the password only: for a salt of that size no independent reference value is available here)
    for which in ["pw"] {
        rep.eval(1);
        rep.nontrivial(format!("ffi-huge-{}", which).as_bytes());
        let o = match std::process::Command::new(&exe).args(["ffi-huge", which, "5"]).stdin(std::process::Stdio::null()).stderr(std::process::Stdio::piped()).output() {
            Ok(o) => o,
            Err(e) => crate::report::machinery(&format!("cannot start the huge-input child: {}", e)),
        };
        let t = String::from_utf8_lossy(&o.stdout).to_string();
        let f: Vec<&str> = t.split_whitespace().collect();
        let case = json!({"via":"ffi","kind":"huge","which":which});
        if o.status.code() == Some(5) {
            rep.extra(&format!("ffi_huge_{}", which), json!("not judged: a mapping of 2^32 + 5 bytes could not be made"));
        } else if !o.status.success() || f.len() != 2 {
            use std::os::unix::process::ExitStatusExt;
            rep.violation("ffi/crash", case, format!("the process calling the exported C scrypt with a {} of 2^32 + 5 bytes died (signal {:?}, exit {:?})", if which == "pw" { "password" } else { "salt" }, o.status.signal(), o.status.code()));
        } else if f[0] != f[1] {
            rep.violation("ffi/value-differs", case, format!("exported C scrypt with a {} of 2^32 + 5 bytes wrote a value different from RFC 7914 (a length that does not fit 32 bits)", if which == "pw" { "password" } else { "salt" }));
        }
    }
}

/// For other checks: the exported C function at the parameters of the key-lock format (N = 32768, r = 8, p = 1, 32 bytes) for
/// the given passwords and salt, in child processes, each compared with REF.
pub fn ffi_at_lock_parameters(rep: &Report, pws: &[Vec<u8>], salt: &[u8; 32]) {
    let mut jobs: Vec<(Tuple, u8)> = pws.iter().map(|pw| (Tuple { pw: pw.clone(), salt: salt.to_vec(), n: 32768, r: 8, p: 1, dk: 32 }, 0u8)).collect();
    // a caller that derives the key IN PLACE: the output buffer is the salt buffer, or the (40-byte) password buffer
    let inplace = Tuple { pw: b"a password of forty bytes, give or take.".to_vec(), salt: salt.to_vec(), n: 32768, r: 8, p: 1, dk: 32 };
    jobs.push((inplace.clone(), 1));
    jobs.push((inplace, 2));
    let nb = 8usize;
    let slices: Vec<Vec<(Tuple, u8)>> = (0..nb).map(|k| jobs.iter().skip(k).step_by(nb).cloned().collect()).collect();
    slices.par_iter().enumerate().for_each(|(k, sl)| ffi_batch(rep, sl, &format!("lock-parameters-{}", k)));
}

pub fn run(rep: &'static Report) {
    let seed = rep.seed;
    rep.set_rule("E-GRID vs OpenSSL EVP_PBE_scrypt: full product N x r x p x dkLen, each axis swept completely with the others small, corner tuples, password/salt length grid incl. 0/63/64/65 and trailing-NUL variants; every tuple through the library and through the exported C function (dlopen of the cdylib built from the working tree) with guard bytes around all buffers. distinct non-trivial = distinct (via, password, salt, N, r, p, dkLen) tuples");
    rep.rule_add("Ordered call pairs with changing password/salt lengths (7 x 7) on one thread, library and C function.");
    rep.rule_add("ordered call pairs on one thread; aliasing; child processes under a grid of address-space limits (library and C ABI).");
    rep.rule_add("Child processes confined to 1/2/3/5/all processors x p in 1..8,17 x lane tables >= 2 MiB; valid C calls after each of 8 rejected calls in one process.");
    rep.assume("password/salt byte values from seed-derived alphabets; N <= 2^15; OpenSSL is the RFC 7914 reference");
    let (lib, ffi_t) = tuples(seed, rep.tier);
    lib.par_iter().for_each(|t| {
        lib_case(rep, t);
        rep.nontrivial(format!("lib-{:?}", t).as_bytes());
    });
    // every call of the exported C function happens in a child process (a panic crossing the C ABI aborts, an overrun
    // may corrupt the heap: both must become findings, not crashes of the checker); 16 batches in parallel
    {
        let jobs: Vec<(Tuple, u8)> = ffi_t.iter().map(|t| (t.clone(), 0u8)).collect();
        let nb = 16usize;
        let slices: Vec<Vec<(Tuple, u8)>> = (0..nb).map(|k| jobs.iter().skip(k).step_by(nb).cloned().collect()).collect();
        slices.par_iter().enumerate().for_each(|(k, sl)| ffi_batch(rep, sl, &format!("grid{}", k)));
    }
    // histories: every ordered pair of calls from a small tuple alphabet, consecutively on ONE thread
    // (state carried from one derivation to the next: cached tables, scratch buffers)
    {
        let alpha: Vec<Tuple> = [(64u32, 8u32, 1u32), (32, 8, 1), (16, 16, 1), (16, 12, 1), (16, 8, 2), (8, 3, 3), (128, 1, 1), (2, 1, 1), (1024, 2, 1), (512, 4, 1), (16, 1, 8), (4, 16, 4)]
            .iter()
            .map(|&(n, r_, p)| Tuple { pw: derive(seed, "c18-h-pw", 9), salt: derive(seed, "c18-h-salt", 7), n, r: r_, p, dk: 24 })
            .collect();
        let mut pairs = 0u64;
        for a in &alpha {
            for b in &alpha {
                lib_case(rep, a);
                lib_case(rep, b);
                pairs += 1;
            }
        }
        // and through the C ABI (one child process, one thread, all pairs in order)
        let mut seq: Vec<(Tuple, u8)> = vec![];
        for a in &alpha {
            for b in &alpha {
                seq.push((a.clone(), 0));
                seq.push((b.clone(), 0));
            }
        }
        ffi_batch(rep, &seq, "pairs");
        // the same with password and salt LENGTHS changing between the two calls (longer then shorter and the reverse):
        // a buffer kept between calls would lend the second call bytes or a length of the first
        let lens = [(0usize, 0usize), (3, 5), (9, 7), (20, 1), (1, 20), (64, 64), (65, 3)];
        let lalpha: Vec<Tuple> = lens.iter().map(|&(pl, sl)| Tuple { pw: derive(seed, "c18-len-pw", pl), salt: derive(seed, "c18-len-salt", sl), n: 16, r: 2, p: 1, dk: 32 }).collect();
        let mut lseq: Vec<(Tuple, u8)> = vec![];
        for a in &lalpha {
            for b in &lalpha {
                lib_case(rep, a);
                lib_case(rep, b);
                lseq.push((a.clone(), 0));
                lseq.push((b.clone(), 0));
                pairs += 1;
            }
        }
        ffi_batch(rep, &lseq, "length-pairs");
        rep.add_distinct(pairs);
        rep.extra("consecutive_call_pairs_on_one_thread", json!(pairs));
    }
    // aliasing: output buffer == salt buffer / password buffer (dk_len <= that input's length)
    let mut n_over = 0;
    for (pl, sl, dk) in [(40usize, 40usize, 32usize), (64, 33, 33), (100, 100, 64), (32, 16, 16)] {
        let t = Tuple { pw: derive(seed, "c18-ov-pw", pl), salt: derive(seed, "c18-ov-salt", sl), n: 16, r: 2, p: 1, dk };
        ffi_batch(rep, &[(t.clone(), 1), (t.clone(), 2)], "overlap");
        rep.nontrivial(format!("ffi-overlap-{}-{}-{}", pl, sl, dk).as_bytes());
        n_over += 2;
    }
    rep.extra("ffi_overlap_cases", json!(n_over));
    memory_pressure(rep);
    processor_counts(rep);
    after_rejected_calls(rep);
    if rep.tier == Tier::Thorough {
        huge_inputs(rep);
    }
    rep.extra("library_tuples", json!(lib.len()));
    rep.extra("ffi_tuples", json!(ffi_t.len()));
    rep.sample(lib[lib.len() / 2].json("lib"));
    rep.sample(ffi_t[ffi_t.len() / 3].json("ffi"));
    rep.sample(json!({"via":"ffi","n":32768,"r":8,"p":1,"dk":32,"guards":"64 bytes before, 48+64 after the requested length, inputs guarded too"}));
    rep.set_exhaustive(true);
}

pub fn replay(rep: &'static Report, case: &Value) {
    if case["kind"] == "huge" {
        huge_inputs(rep);
        return;
    }
    if case["kind"] == "cpus" {
        processor_counts(rep);
        return;
    }
    if case["kind"] == "memory" {
        println!("  re-running the memory-pressure part of C18");
        memory_pressure(rep);
        return;
    }
    let t = Tuple {
        pw: unhx(case["pw"].as_str().unwrap()),
        salt: unhx(case["salt"].as_str().unwrap()),
        n: case["n"].as_u64().unwrap() as u32,
        r: case["r"].as_u64().unwrap() as u32,
        p: case["p"].as_u64().unwrap() as u32,
        dk: case["dk"].as_u64().unwrap() as usize,
    };
    if case["via"] == "ffi-concurrent" {
        ffi_batch(rep, &[(t, 4)], "replay");
        return;
    }
    if case["via"] == "ffi-overlap" {
        ffi_batch(rep, &[(t, if case["over"] == "salt" { 1 } else { 2 })], "replay");
        return;
    }
    if case["via"] == "ffi" {
        if let Some(pv) = case.get("previous").filter(|v| !v.is_null()) {
            let pt = Tuple { pw: unhx(pv["pw"].as_str().unwrap()), salt: unhx(pv["salt"].as_str().unwrap()), n: pv["n"].as_u64().unwrap() as u32, r: pv["r"].as_u64().unwrap() as u32, p: pv["p"].as_u64().unwrap() as u32, dk: pv["dk"].as_u64().unwrap() as usize };
            if case.get("after_rejected").map(|v| v.is_null()).unwrap_or(true) {
                ffi_batch(rep, &[(pt, 0), (t, 0)], "replay");
                return;
            }
        }
        if let Some(rj) = case.get("after_rejected").filter(|v| !v.is_null()) {
            let rt = Tuple { pw: unhx(rj["pw"].as_str().unwrap()), salt: unhx(rj["salt"].as_str().unwrap()), n: rj["n"].as_u64().unwrap() as u32, r: rj["r"].as_u64().unwrap() as u32, p: rj["p"].as_u64().unwrap() as u32, dk: rj["dk"].as_u64().unwrap() as usize };
            ffi_batch(rep, &[(rt, 3), (t, 0)], "replay");
            return;
        }
        ffi_batch(rep, &[(t, 0)], "replay");
    } else {
        lib_case(rep, &t);
    }
}
