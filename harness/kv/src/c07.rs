//! C07 — fresh randomness everywhere; no (key, nonce) reuse (E-GRAPH over operation histories + RNG seam + per-file nonce check).
use crate::env::SchedReader;
use crate::fx::Party;
use crate::proc::{self, Cmd, Scratch};
use crate::refspec as r;
use crate::report::{Report, Tier};
use crate::streams::*;
use crate::util::*;
use rayon::prelude::*;
use serde_json::{json, Value};
use stateright::{Model, Property};
use std::sync::atomic::{AtomicU64, Ordering};
use std::sync::Arc;

#[derive(Clone, Copy, Debug, Hash, PartialEq, Eq)]
pub enum Op {
    LibKeyEncrypt,
    LibGenerate,
    CliEncrypt,
    CliPassEncrypt,
    CliKeyGenerate,
    CliChangePass,
    /// change-pass with new password == old password
    CliChangePassSame,
}

const OPS: [Op; 7] = [Op::LibKeyEncrypt, Op::LibGenerate, Op::CliEncrypt, Op::CliPassEncrypt, Op::CliKeyGenerate, Op::CliChangePass, Op::CliChangePassSame];

pub struct Fixture {
    alice: Party,
    bob: Party,
    keyring: String,
    plain: Vec<u8>,
    /// values that are given (not fresh); a fresh value must differ from all of them too
    given: Vec<(String, Vec<u8>)>,
}

impl Fixture {
    pub fn new(seed: u64) -> Fixture {
        let alice = Party::new(seed, "alice", "alicepw");
        let bob = Party::new(seed, "bob", "bobpw");
        let keyring = crate::fx::keyring(&[(&alice, true), (&bob, true)]);
        let old_blob = r::b64_decode(&alice.locked).unwrap();
        let given = vec![
            ("alice private key".to_string(), alice.sk.to_vec()),
            ("alice public key".to_string(), alice.pk.to_vec()),
            ("bob private key".to_string(), bob.sk.to_vec()),
            ("bob public key".to_string(), bob.pk.to_vec()),
            ("salt of alice's locked key".to_string(), old_blob[4..36].to_vec()),
            ("all-zero".to_string(), vec![0u8; 32]),
        ];
        Fixture { alice, bob, keyring, plain: b"identical plaintext for every invocation".to_vec(), given }
    }
}

/// Execute one operation with identical inputs; return its fresh values (kind, bytes).
fn exec(fx: &Fixture, op: Op) -> Result<Vec<(String, Vec<u8>)>, String> {
    exec_env(fx, op, &[])
}

/// The same, with extra environment variables for the CLI operations (the RNG shim's controls).
fn exec_env(fx: &Fixture, op: Op, extra: &[(String, String)]) -> Result<Vec<(String, Vec<u8>)>, String> {
    let with = |mut c: Cmd| -> Cmd {
        for (k, v) in extra {
            c = c.env(k, v);
        }
        c
    };
    let key_file_values = |file: &[u8], who: &str| -> Result<Vec<(String, Vec<u8>)>, String> {
        let k = r::read_key_file(&fx.bob.sk, file).map_err(|e| format!("{} output is not a conforming file: {:?}", who, e))?;
        Ok(vec![(format!("{} ephemeral key", who), k.e_pub.to_vec()), (format!("{} payload key", who), k.payload_key.to_vec()), (format!("{} file key", who), k.file_key.to_vec())])
    };
    match op {
        Op::LibKeyEncrypt => {
            let sub = Subject::KeyEnc { s: hx(&fx.alice.sk), s_pub: hx(&fx.alice.pk), r_pub: hx(&fx.bob.pk), e: String::new(), payload: String::new() };
            let (res, out) = run_plain(&sub, &fx.plain);
            if !res.is_ok() {
                return Err(format!("key_encrypt failed: {}", res.brief()));
            }
            key_file_values(&out, "lib key_encrypt")
        }
        Op::LibGenerate => match guarded(|| kestrel_crypto::PrivateKey::generate().as_bytes().to_vec()) {
            Ok(k) => Ok(vec![("generated private key".into(), k)]),
            Err(m) => Err(format!("PrivateKey::generate panicked: {}", m)),
        },
        Op::CliEncrypt => {
            let sc = Scratch::new();
            sc.write("kr.txt", fx.keyring.as_bytes());
            sc.write("plain.bin", &fx.plain);
            let out = proc::run(&with(Cmd::new(&["encrypt", "plain.bin", "-t", "bob", "-f", "alice", "-k", "kr.txt", "-o", "out.ktl", "--env-pass"]).env("KESTREL_PASSWORD", "alicepw")), &sc.0);
            if !out.ok() {
                return Err(format!("kestrel encrypt failed: {}", out.summary()));
            }
            key_file_values(&sc.read("out.ktl").unwrap_or_default(), "kestrel encrypt")
        }
        Op::CliPassEncrypt => {
            let sc = Scratch::new();
            sc.write("plain.bin", &fx.plain);
            let out = proc::run(&with(Cmd::new(&["password", "encrypt", "plain.bin", "-o", "out.ktl", "--env-pass"]).env("KESTREL_PASSWORD", "same password")), &sc.0);
            if !out.ok() {
                return Err(format!("kestrel password encrypt failed: {}", out.summary()));
            }
            let f = sc.read("out.ktl").unwrap_or_default();
            if f.len() < 36 {
                return Err("short password file".into());
            }
            Ok(vec![("password-file salt".into(), f[4..36].to_vec())])
        }
        Op::CliKeyGenerate => {
            let sc = Scratch::new();
            let out = proc::run(&with(Cmd::new(&["key", "generate", "-o", "new.txt", "--env-pass"]).env("KESTREL_PASSWORD", "genpw").stdin(b"newkey\n")), &sc.0);
            if !out.ok() {
                return Err(format!("kestrel key generate failed: {}", out.summary()));
            }
            let txt = String::from_utf8_lossy(&sc.read("new.txt").unwrap_or_default()).to_string();
            let locked = txt.lines().find_map(|l| l.strip_prefix("PrivateKey = ")).ok_or("no PrivateKey line")?.trim().to_string();
            let blob = r::b64_decode(&locked).ok_or("PrivateKey not base64")?;
            let sk = r::unlock_key(&blob, b"genpw").ok_or("generated key does not unlock (REF)")?;
            Ok(vec![("generated key salt".into(), blob[4..36].to_vec()), ("CLI generated private key".into(), sk.to_vec())])
        }
        Op::CliChangePass | Op::CliChangePassSame => {
            let sc = Scratch::new();
            let newpw = if op == Op::CliChangePass { "alicenew" } else { "alicepw" };
            let out = proc::run(&with(Cmd::new(&["key", "change-pass", &fx.alice.locked, "--env-pass"]).env("KESTREL_PASSWORD", "alicepw").env("KESTREL_NEW_PASSWORD", newpw)), &sc.0);
            if !out.ok() {
                return Err(format!("kestrel key change-pass failed: {}", out.summary()));
            }
            let txt = String::from_utf8_lossy(&out.stdout).to_string();
            let locked = txt.lines().find_map(|l| l.trim().strip_prefix("PrivateKey = ")).ok_or("no PrivateKey line")?.trim().to_string();
            let blob = r::b64_decode(&locked).ok_or("PrivateKey not base64")?;
            Ok(vec![("change-pass salt".into(), blob[4..36].to_vec())])
        }
    }
}

/// The invariant on one history: all fresh values pairwise distinct, and distinct from the given values.
fn check_history(fx: &Fixture, hist: &[Op]) -> Result<usize, String> {
    let mut vals: Vec<(String, Vec<u8>)> = vec![];
    for (i, op) in hist.iter().enumerate() {
        for (k, v) in exec(fx, *op)? {
            vals.push((format!("op{}:{:?}: {}", i, op, k), v));
        }
    }
    for i in 0..vals.len() {
        for j in 0..i {
            if vals[i].1 == vals[j].1 {
                return Err(format!("two outputs share a value: [{}] == [{}] = {}", vals[j].0, vals[i].0, hx(&vals[i].1)));
            }
        }
        for (gn, gv) in &fx.given {
            if &vals[i].1 == gv {
                return Err(format!("[{}] equals the given value [{}]", vals[i].0, gn));
            }
        }
    }
    Ok(vals.len())
}

struct HCtx {
    fx: Fixture,
    rep: &'static Report,
    max_len: usize,
    executed: AtomicU64,
    values: AtomicU64,
}

#[derive(Clone)]
struct HistModel(Arc<HCtx>);

impl Model for HistModel {
    type State = Vec<Op>;
    type Action = Op;
    fn init_states(&self) -> Vec<Vec<Op>> {
        vec![vec![]]
    }
    fn actions(&self, s: &Vec<Op>, a: &mut Vec<Op>) {
        if s.len() < self.0.max_len {
            a.extend_from_slice(&OPS);
        }
    }
    fn next_state(&self, s: &Vec<Op>, a: Op) -> Option<Vec<Op>> {
        let mut n = s.clone();
        n.push(a);
        Some(n)
    }
    fn properties(&self) -> Vec<Property<Self>> {
        vec![Property::always("no two outputs of a history share an ephemeral key, payload key, file key, private key or salt", |m: &HistModel, s: &Vec<Op>| {
            if s.is_empty() {
                return true;
            }
            m.0.executed.fetch_add(1, Ordering::Relaxed);
            match check_history(&m.0.fx, s) {
                Ok(n) => {
                    m.0.values.fetch_add(n as u64, Ordering::Relaxed);
                    true
                }
                Err(e) => {
                    // confirm once more before reporting: real CSPRNG in play, the verdict must not flip
                    match check_history(&m.0.fx, s) {
                        Err(e2) => {
                            let _ = e;
                            m.0.rep.violation(
                                &format!("history/{}", e2.split(':').next().unwrap_or("")),
                                json!({"kind":"history","ops":s.iter().map(|o| format!("{:?}", o)).collect::<Vec<_>>()}),
                                format!("history {:?}: {}", s, e2),
                            );
                            false
                        }
                        Ok(_) => crate::report::machinery(&format!("verdict flipped on re-execution of history {:?}: {}", s, e)),
                    }
                }
            }
        })]
    }
}

fn op_from(s: &str) -> Op {
    OPS.iter().copied().find(|o| format!("{:?}", o) == s).unwrap_or_else(|| crate::report::machinery("bad op"))
}

// ---------------------------------------------------------------- RNG seam: full-width use of the CSPRNG output

fn seam_stream(seed: u64, flip: Option<usize>) -> (Box<dyn FnMut(usize) -> Vec<u8>>, std::rc::Rc<std::cell::Cell<usize>>) {
    let pos = std::rc::Rc::new(std::cell::Cell::new(0usize));
    let p2 = pos.clone();
    let f = move |n: usize| {
        let start = p2.get();
        let all = derive(seed, "c07-seam-stream", start + n);
        let mut out = all[start..start + n].to_vec();
        if let Some(fp) = flip {
            if fp >= start && fp < start + n {
                out[fp - start] ^= 0x10; // bit 4: never touched by X25519 clamping
            }
        }
        p2.set(start + n);
        out
    };
    (Box::new(f), pos)
}

fn with_seam<T>(seed: u64, flip: Option<usize>, f: impl FnOnce() -> T) -> (T, usize) {
    let (s, pos) = seam_stream(seed, flip);
    kestrel_crypto::verif::set_rng(Some(s));
    let r = f();
    kestrel_crypto::verif::set_rng(None);
    (r, pos.get())
}

pub const RNG_SHIM: &str = "/verif/harness/target/release/librngshim.so";

/// Environment answers of the OS randomness source, decided by the LD_PRELOAD shim (harness/rngshim).
pub fn rng_env(mode: &str, k: usize, log: Option<&str>) -> Vec<(String, String)> {
    let mut v = vec![("LD_PRELOAD".to_string(), RNG_SHIM.to_string()), ("KV_RNG_MODE".to_string(), mode.to_string()), ("KV_RNG_K".to_string(), k.to_string())];
    if let Some(l) = log {
        v.push(("KV_RNG_LOG".to_string(), l.to_string()));
    }
    v
}

/// All answers of getrandom(2) within the bound: for every call index k of the run (learned by a counting run),
/// {persistent failure from call k on, EINTR at k, EAGAIN at k, a 1-byte short answer at k}, plus 1-byte answers throughout.
pub fn rng_schedules(ncalls: usize) -> Vec<(String, usize)> {
    let mut v = vec![("short".to_string(), 0)];
    for k in 1..=ncalls {
        for m in ["fail-from", "eintr-at", "eagain-at", "short-at"] {
            v.push((m.to_string(), k));
        }
    }
    v
}

/// How many getrandom calls (len > 0) one run of the operation makes.
pub fn rng_calls(run: impl Fn(&[(String, String)]) -> bool) -> Option<usize> {
    let sc = Scratch::new();
    let log = format!("{}/rng.log", sc.0.display());
    if !run(&rng_env("count", 0, Some(&log))) {
        return None;
    }
    Some(std::fs::metadata(&log).map(|m| m.len() as usize).unwrap_or(0))
}

/// Every CLI operation that draws randomness, under every answer of the randomness source within the bound, twice:
/// whatever is produced with exit 0 must still consist of fresh values (pairwise distinct across both runs, and
/// distinct from the given values, which include the all-zero string). A refused operation produces nothing to compare.
fn rng_fault_sweep(rep: &Report, fx: &Fixture) {
    if !std::path::Path::new(RNG_SHIM).exists() {
        rep.violation("rngfault/machinery", json!({"kind":"rngfault"}), format!("MACHINERY: {} not built", RNG_SHIM));
        return;
    }
    let ops = [Op::CliEncrypt, Op::CliPassEncrypt, Op::CliKeyGenerate, Op::CliChangePass];
    let mut table = vec![];
    for op in ops {
        let n = match rng_calls(|env| exec_env(fx, op, env).is_ok()) {
            Some(n) if n >= 1 => n,
            other => {
                rep.violation("rngfault/shim-not-effective", json!({"kind":"rngfault","op":format!("{:?}", op)}), format!("MACHINERY: counting run of {:?} under the shim saw {:?} getrandom calls", op, other));
                continue;
            }
        };
        let scheds = rng_schedules(n);
        let results: Vec<(String, usize, Result<usize, String>, bool)> = scheds
            .par_iter()
            .map(|(mode, k)| {
                let env = rng_env(mode, *k, None);
                let a = exec_env(fx, op, &env);
                let b = exec_env(fx, op, &env);
                let refused = a.is_err() && b.is_err();
                let mut vals: Vec<(String, Vec<u8>)> = vec![];
                for (tag, r) in [("run1", &a), ("run2", &b)] {
                    if let Ok(v) = r {
                        for (kname, val) in v {
                            vals.push((format!("{} {}", tag, kname), val.clone()));
                        }
                    }
                }
                let mut verdict = Ok(vals.len());
                'o: for i in 0..vals.len() {
                    for j in 0..i {
                        if vals[i].1 == vals[j].1 {
                            verdict = Err(format!("[{}] == [{}] = {}", vals[j].0, vals[i].0, hx(&vals[i].1)));
                            break 'o;
                        }
                    }
                    for (gn, gv) in &fx.given {
                        if &vals[i].1 == gv {
                            verdict = Err(format!("[{}] equals the given value [{}]", vals[i].0, gn));
                            break 'o;
                        }
                    }
                }
                (mode.clone(), *k, verdict, refused)
            })
            .collect();
        let mut refused_n = 0;
        for (mode, k, verdict, refused) in results {
            rep.eval(1);
            rep.nontrivial(format!("rngfault-{:?}-{}-{}", op, mode, k).as_bytes());
            if refused {
                refused_n += 1;
            }
            if let Err(m) = verdict {
                rep.violation(
                    &format!("rngfault/{:?}", op),
                    json!({"kind":"rngfault","op":format!("{:?}", op),"mode":mode,"k":k}),
                    format!("{:?} run twice while getrandom answers '{}' at call {}: exit 0 but the output is not fresh: {}", op, mode, k, m),
                );
            }
        }
        table.push(json!({"op":format!("{:?}", op),"getrandom_calls":n,"schedules":scheds.len(),"refused_by_the_tool":refused_n}));
    }
    rep.extra("rng_fault_sweep", json!(table));
}

/// stdin is a NON-BLOCKING pipe whose writer pauses: a read finds the pipe empty and gets EAGAIN. The tool may give up
/// with an error; if it reports success, its output is ONE conforming file of the whole input (a retry that restarts the
/// encryption under the same salt / file key would seal chunk 0 twice under one (key, nonce)).
fn nonblocking_stdin(rep: &Report, fx: &Fixture) {
    let p = plaintext(rep.seed ^ 0x74, 200_000);
    let mut jobs = vec![];
    for mode in ["key", "pass"] {
        for splits in [vec![131_072usize], vec![65_536, 140_000], vec![1], vec![70_000, 70_001, 150_000]] {
            jobs.push((mode, splits));
        }
    }
    jobs.par_iter().for_each(|(mode, splits)| {
        rep.eval(1);
        rep.nontrivial(format!("nonblock-stdin-{}-{:?}", mode, splits).as_bytes());
        let attempt = || -> Result<(), String> {
            let sc = Scratch::new();
            sc.write("kr.txt", fx.keyring.as_bytes());
            let mut c = if *mode == "key" { Cmd::new(&["encrypt", "-t", "bob", "-f", "alice", "-k", "kr.txt", "--env-pass"]).env("KESTREL_PASSWORD", "alicepw") } else { Cmd::new(&["password", "encrypt", "--env-pass"]).env("KESTREL_PASSWORD", "same password") };
            c = c.stdin(&p);
            c.stdin_splits = splits.clone();
            c.stdin_nonblock = true;
            let out = proc::run(&c, &sc.0);
            if out.timed_out || out.signal.is_some() || out.stderr.contains("panicked at") {
                return Err(format!("ill-behaved: {}", out.summary()));
            }
            if !out.ok() {
                return Ok(());
            }
            let good = if *mode == "key" {
                matches!(r::read_key_file(&fx.bob.sk, &out.stdout), Ok(k) if k.parsed.plaintext == p)
            } else {
                out.stdout.len() >= 36 && matches!(r::read_pass_file_with_key(&r::pass_key(b"same password", out.stdout[4..36].try_into().unwrap()), &out.stdout), Ok(k) if k.plaintext == p)
            };
            if !good {
                // is chunk 0 sealed twice? (two records with counter field 0 in the output)
                let hdr = if *mode == "key" { 132 } else { 36 };
                let zero_counter_records = out.stdout.get(hdr..).map(|b| b.windows(16).filter(|w| w[..8] == [0u8; 8] && (w[8..12] == [0, 0, 0, 0] || w[8..12] == [0, 0, 0, 1]) && u32::from_be_bytes(w[12..16].try_into().unwrap()) as usize <= 65536 && u32::from_be_bytes(w[12..16].try_into().unwrap()) > 0).count()).unwrap_or(0);
                return Err(format!("exit 0 on a non-blocking stdin whose writer paused (pieces {:?}), but the {} bytes written are not the conforming file of the input ({} candidate chunk-0 headers in the output: the stream was restarted under the same key)", splits, out.stdout.len(), zero_counter_records));
            }
            Ok(())
        };
        if attempt().is_err() {
            if let Err(e) = attempt() {
                rep.violation(&format!("nonblocking-stdin/{}", mode), json!({"kind":"append","mode":mode,"splits":splits}), format!("kestrel {} encrypt: {}", mode, e));
            }
        }
    });
    rep.extra("nonblocking_stdin_runs", json!(jobs.len()));
}

fn seam_check(rep: &Report, fx: &Fixture) {
    let seed = rep.seed;
    for op in [Op::LibKeyEncrypt, Op::LibGenerate] {
        let (base, drawn) = with_seam(seed, None, || exec(fx, op));
        let (again, _) = with_seam(seed, None, || exec(fx, op));
        rep.eval(2);
        let base = match (base, again) {
            (Ok(a), Ok(b)) => {
                if a != b {
                    rep.violation("seam/not-deterministic", json!({"kind":"seam","op":format!("{:?}", op)}), format!("{:?}: outputs differ although the CSPRNG seam delivered the same stream (another randomness source or hidden state)", op));
                    continue;
                }
                a
            }
            (Err(e), _) | (_, Err(e)) => {
                rep.violation("seam/op-failed", json!({"kind":"seam","op":format!("{:?}", op)}), e);
                continue;
            }
        };
        if drawn == 0 {
            rep.violation("seam/no-randomness-drawn", json!({"kind":"seam","op":format!("{:?}", op)}), format!("{:?} drew no bytes from the CSPRNG", op));
            continue;
        }
        // perturb every delivered byte
        let mut sens: Vec<usize> = vec![0; base.len()];
        for i in 0..drawn {
            let (r2, _) = with_seam(seed, Some(i), || exec(fx, op));
            rep.eval(1);
            if let Ok(v) = r2 {
                for (k, (a, b)) in base.iter().zip(v.iter()).enumerate() {
                    if a.1 != b.1 {
                        sens[k] += 1;
                    }
                }
            }
        }
        for (k, (name, _)) in base.iter().enumerate() {
            if sens[k] < 32 {
                rep.violation(
                    &format!("seam/narrow-{}", name.split_whitespace().last().unwrap_or("")),
                    json!({"kind":"seam","op":format!("{:?}", op),"field":name}),
                    format!("{:?}: fresh field '{}' depends on only {} of the {} CSPRNG bytes drawn (needs >= 32: full-width use, nothing cached or constant)", op, name, sens[k], drawn),
                );
            }
        }
        rep.extra(&format!("seam_{:?}", op), json!({"bytes_drawn":drawn,"fields":base.iter().map(|b| b.0.clone()).collect::<Vec<_>>(),"sensitive_positions_per_field":sens}));
        rep.nontrivial(format!("seam-{:?}", op).as_bytes());
    }
}

// ---------------------------------------------------------------- per file: chunk i sealed exactly once under nonce i

fn nonce_case(rep: &Report, key: &[u8; 32], aad: &[u8], cs: u32, p: &[u8], sizes: &[usize]) {
    rep.eval(1);
    let case = json!({"kind":"nonce","key":hx(key),"aad":hx(aad),"cs":cs,"plain":hx(p),"sizes":sizes});
    let sub = Subject::TinyEnc { key: hx(key), aad: hx(aad), cs };
    let mut out = Vec::new();
    let res = run_rw(&sub, &mut SchedReader::new(p, sizes), &mut out);
    if !res.is_ok() {
        rep.violation("nonce/encrypt-failed", case, res.brief());
        return;
    }
    let (recs, rest) = r::split_records(&out);
    if !rest.is_empty() || recs.is_empty() {
        rep.violation("nonce/unparseable", case, "output is not a sequence of chunk records".into());
        return;
    }
    let n = recs.len();
    for (i, rec) in recs.iter().enumerate() {
        let mut a = aad.to_vec();
        a.extend_from_slice(&rec.flag_field.to_be_bytes());
        a.extend_from_slice(&rec.len_field.to_be_bytes());
        let mut ct = rec.body.clone();
        ct.extend_from_slice(&rec.tag);
        for j in 0..=(n as u64) {
            let opens = r::aead_open(key, &r::noise_nonce(j), &a, &ct).is_some();
            if opens != (j == i as u64) {
                rep.violation(
                    "nonce/reuse-or-skip",
                    case.clone(),
                    format!("record {} of {} {} under nonce {} (reads {:?}, cs={}): chunk i must be sealed exactly once under nonce i", i, n, if opens { "opens" } else { "does not open" }, j, sizes, cs),
                );
                return;
            }
        }
    }
}

/// Many-chunk variant of nonce_case: record i opens under nonce i and under none of the nonces that share some of its
/// bytes (i +- 256, i +- 65536, i with bytes 0/1 swapped, i mod 256, ...), and all (nonce) values used are pairwise distinct.
fn nonce_many(rep: &Report, key: &[u8; 32], cs: u32, p: &[u8]) {
    rep.eval(1);
    let case = json!({"kind":"nonce","key":hx(key),"aad":"","cs":cs,"plain":"","sizes":[],"len":p.len()});
    let sub = Subject::TinyEnc { key: hx(key), aad: String::new(), cs };
    let mut out = Vec::new();
    let res = run_rw(&sub, &mut SchedReader::new(p, &[]), &mut out);
    if !res.is_ok() {
        rep.violation("nonce/encrypt-failed", case, res.brief());
        return;
    }
    let (recs, rest) = r::split_records(&out);
    if !rest.is_empty() || recs.len() < p.len() / cs as usize {
        rep.violation("nonce/unparseable", case, "output is not the expected sequence of chunk records".into());
        return;
    }
    let bad = std::sync::Mutex::new(None::<String>);
    recs.par_iter().enumerate().for_each(|(i, rec)| {
        let i = i as u64;
        let mut a = vec![];
        a.extend_from_slice(&rec.flag_field.to_be_bytes());
        a.extend_from_slice(&rec.len_field.to_be_bytes());
        let mut ct = rec.body.clone();
        ct.extend_from_slice(&rec.tag);
        if r::aead_open(key, &r::noise_nonce(i), &a, &ct).is_none() {
            *bad.lock().unwrap() = Some(format!("record {} does not open under nonce {}", i, i));
            return;
        }
        let mut others: Vec<u64> = vec![i & 0xff, i & 0xffff, i.wrapping_add(256), i.wrapping_sub(256), i.wrapping_add(65536), i ^ 0x100, i ^ 0x200, i ^ 0x8000, (i & !0xffff) | ((i & 0xff) << 8) | ((i >> 8) & 0xff), i.swap_bytes(), i + 1, i.wrapping_sub(1)];
        others.retain(|&o| o != i);
        others.sort();
        others.dedup();
        for o in others {
            if r::aead_open(key, &r::noise_nonce(o), &a, &ct).is_some() {
                *bad.lock().unwrap() = Some(format!("record {} of a {}-chunk file also opens under nonce {}: two chunks of one file share a (key, nonce) pair", i, recs.len(), o));
                return;
            }
        }
    });
    if let Some(m) = bad.into_inner().unwrap() {
        rep.violation("nonce/reuse-or-skip", case, m);
    }
}

/// `kv fork-child <draws> <seed>`: a single-threaded process draws randomness `draws` times, forks, and both sides then
/// generate a private key, draw 32 bytes and encrypt one file with the ephemeral and payload keys left to the library.
/// Each side prints one line: `P|C <private key> <random> <ephemeral field> <sha256 of the file>`.
pub fn fork_child_main(a: &[String]) -> ! {
    let draws: usize = a[0].parse().unwrap_or(1);
    let seed: u64 = a[1].parse().unwrap_or(1);
    let ids = idents(seed);
    for _ in 0..draws {
        let _ = kestrel_crypto::PrivateKey::generate();
    }
    let pid = unsafe { libc::fork() };
    if pid < 0 {
        std::process::exit(4);
    }
    let who = if pid == 0 { "C" } else { "P" };
    let sk = kestrel_crypto::PrivateKey::generate();
    let rnd = kestrel_crypto::secure_random(32);
    let mut out = Vec::new();
    let mut src: &[u8] = b"the same plaintext on both sides";
    let ok = kestrel_crypto::encrypt::key_encrypt(&mut src, &mut out, &ids[0].private(), &ids[0].public(), &ids[1].public(), None, None, None, kestrel_crypto::AsymFileFormat::V1).is_ok();
    let line = format!("{} {} {} {} {} {}\n", who, hx(sk.as_bytes()), hx(&rnd), if out.len() >= 36 { hx(&out[4..36]) } else { String::new() }, hx(&r::sha256(&out)), ok);
    unsafe {
        libc::write(1, line.as_ptr() as *const libc::c_void, line.len());
    }
    if pid == 0 {
        unsafe { libc::_exit(0) }
    }
    let mut st = 0;
    unsafe {
        libc::waitpid(pid, &mut st, 0);
    }
    std::process::exit(0);
}

/// Freshness across fork(): whatever the library keeps between draws must not make a parent and its child hand out the
/// same values. Forks after 0, 1, 2 and 5 earlier draws.
fn across_fork(rep: &Report) {
    let exe = std::env::current_exe().unwrap_or_else(|_| crate::report::machinery("current_exe"));
    for draws in [0usize, 1, 2, 5] {
        rep.eval(1);
        rep.nontrivial(format!("across-fork-{}", draws).as_bytes());
        let o = match std::process::Command::new(&exe).args(["fork-child", &draws.to_string(), &rep.seed.to_string()]).stdin(std::process::Stdio::null()).stderr(std::process::Stdio::null()).output() {
            Ok(o) => o,
            Err(e) => crate::report::machinery(&format!("cannot start the fork child: {}", e)),
        };
        let text = String::from_utf8_lossy(&o.stdout).to_string();
        let rows: Vec<Vec<&str>> = text.lines().map(|l| l.split(' ').collect()).collect();
        let p = rows.iter().find(|r0| r0[0] == "P");
        let c = rows.iter().find(|r0| r0[0] == "C");
        let case = json!({"kind":"fork","draws":draws});
        match (p, c) {
            (Some(p), Some(c)) if p.len() == 6 && c.len() == 6 && p[5] == "true" && c[5] == "true" => {
                for (i, what) in [(1usize, "generated private key"), (2, "32 random bytes"), (3, "ephemeral public key of the encrypted file"), (4, "encrypted file")] {
                    if p[i] == c[i] {
                        rep.violation("fork/parent-and-child-share-a-value", case.clone(), format!("after {} draw(s) and a fork(), parent and child both obtained the same {}: {}", draws, what, p[i]));
                        break;
                    }
                }
            }
            _ => rep.violation("fork/operation-failed", case, format!("the fork child did not report both sides: status {:?}, output {:?}", o.status, text)),
        }
    }
    rep.extra("across_fork_cases", json!(4));
}

fn fx_pub_entry(seed: u64, name: &str) -> String {
    proc::keyring_entry(name, &r::encode_pk(&r::x25519_base(&derive32(seed, &format!("c07-contact-{}", name)))), None)
}

pub fn run(rep: &'static Report) {
    let seed = rep.seed;
    rep.set_rule("E-GRAPH over histories: breadth-first search (stateright) over all operation sequences up to the length bound from {lib key_encrypt with randomness left to the implementation, PrivateKey::generate, kestrel encrypt, kestrel password encrypt, kestrel key generate, kestrel key change-pass}, all with identical inputs; in every state the whole history is executed on the real code/CLI and all fresh values (ephemeral keys, payload keys, file keys recovered by REF, salts, private keys) must be pairwise distinct and distinct from given values. Plus RNG-seam analysis (every delivered byte perturbed) and, per file, every record opens under exactly its own index. distinct non-trivial = histories + seam ops + (cs, L, partition) points");
    rep.rule_add("Generation onto keyrings holding only public keys; fork() after 0/1/2/5 draws: parent and child obtain different keys, random bytes, ephemeral keys.");
    rep.rule_add("every getrandom answer schedule per CLI operation (run twice); 4 fresh threads x 3 rounds; 4 keys appended to one keyring.");
    rep.assume("quality of getrandom itself is trusted; CLI operations use the real CSPRNG, a violating history is re-executed once and the verdict must not flip");
    let max_len = rep.tier.pick(3, 4);
    let ctx = Arc::new(HCtx { fx: Fixture::new(seed), rep, max_len, executed: AtomicU64::new(0), values: AtomicU64::new(0) });
    let st = crate::search::bfs_levels(&HistModel(ctx.clone()));
    for (name, s) in &st.violating {
        println!("  shortest counterexample for '{}': history {:?}", name, s);
    }
    let states = st.states;
    rep.states.fetch_add(states, Ordering::Relaxed);
    rep.transitions.fetch_add(st.transitions, Ordering::Relaxed);
    rep.extra("search_engine", json!("level-synchronous parallel BFS over the stateright::Model (search.rs)"));
    rep.traces_validated.fetch_add(ctx.executed.load(Ordering::Relaxed), Ordering::Relaxed);
    rep.eval(ctx.executed.load(Ordering::Relaxed));
    rep.add_distinct(states);
    rep.extra("histories", json!({"max_length":max_len,"operations":OPS.len(),"states":states,"histories_executed_on_the_implementation":ctx.executed.load(Ordering::Relaxed),"fresh_values_compared":ctx.values.load(Ordering::Relaxed)}));
    rep.sample(json!({"history":["CliChangePass","CliChangePass"],"fresh":["change-pass salt","change-pass salt"],"given":["salt of the old locked key"],"expect":"all distinct"}));
    rep.sample(json!({"history":["LibKeyEncrypt","CliEncrypt","LibGenerate"],"fresh":["ephemeral key x2","payload key x2","file key x2","private key"]}));

    // long repetitions in one thread (state carried across many invocations: pools, caches, counters)
    {
        let fx = &ctx.fx;
        let reps = rep.tier.pick(150usize, 600);
        let mut seen: std::collections::HashMap<Vec<u8>, String> = std::collections::HashMap::new();
        let mut n_vals = 0u64;
        'outer: for round in 0..reps {
            for op in [Op::LibGenerate, Op::LibKeyEncrypt, Op::LibGenerate] {
                rep.eval(1);
                match exec(fx, op) {
                    Err(e) => {
                        rep.violation("repetition/op-failed", json!({"kind":"repetition","round":round}), e);
                        break 'outer;
                    }
                    Ok(vals) => {
                        for (k, v) in vals {
                            n_vals += 1;
                            let label = format!("round {} {:?}: {}", round, op, k);
                            if let Some(prev) = seen.insert(v.clone(), label.clone()) {
                                rep.violation(
                                    "repetition/value-repeats",
                                    json!({"kind":"repetition","round":round,"op":format!("{:?}", op)}),
                                    format!("after {} repeated invocations in one thread a fresh value repeats: [{}] == [{}] = {}", round, prev, label, hx(&v)),
                                );
                                break 'outer;
                            }
                            if fx.given.iter().any(|g| g.1 == v) {
                                rep.violation("repetition/equals-given", json!({"kind":"repetition","round":round}), format!("[{}] equals a given value", label));
                                break 'outer;
                            }
                        }
                    }
                }
            }
        }
        rep.extra("long_repetition", json!({"rounds":reps,"ops_per_round":3,"fresh_values_compared":n_vals}));
        rep.nontrivial(b"long-repetition");
    }

    // the same operations on several FRESH threads at once: whatever the interleaving, values drawn on different
    // threads must differ too (a per-thread generator state seeded identically would replay one stream on every thread)
    {
        let nthreads = 4usize;
        let rounds = 3usize;
        let fxa = Arc::new(Fixture::new(seed));
        let mut handles = vec![];
        for t in 0..nthreads {
            let fx = fxa.clone();
            handles.push(std::thread::spawn(move || -> Result<Vec<(String, Vec<u8>)>, String> {
                let mut out = vec![];
                for round in 0..rounds {
                    for op in [Op::LibGenerate, Op::LibKeyEncrypt] {
                        for (k, v) in exec(&fx, op)? {
                            out.push((format!("thread {} round {} {:?}: {}", t, round, op, k), v));
                        }
                    }
                    match guarded(|| kestrel_crypto::secure_random(32)) {
                        Ok(v) => out.push((format!("thread {} round {} secure_random(32)", t, round), v)),
                        Err(m) => return Err(format!("secure_random panicked: {}", m)),
                    }
                }
                Ok(out)
            }));
        }
        let mut all: Vec<(String, Vec<u8>)> = vec![];
        for h in handles {
            match h.join() {
                Ok(Ok(v)) => all.extend(v),
                Ok(Err(e)) => rep.violation("threads/op-failed", json!({"kind":"threads"}), e),
                Err(_) => rep.violation("threads/op-failed", json!({"kind":"threads"}), "worker thread panicked".into()),
            }
        }
        rep.eval(all.len() as u64);
        let mut seen: std::collections::HashMap<Vec<u8>, String> = std::collections::HashMap::new();
        for (label, v) in &all {
            if let Some(prev) = seen.insert(v.clone(), label.clone()) {
                rep.violation("threads/value-repeats-across-threads", json!({"kind":"threads"}), format!("two draws share a value: [{}] == [{}] = {}", prev, label, hx(v)));
                break;
            }
        }
        rep.extra("fresh_threads", json!({"threads":nthreads,"rounds":rounds,"fresh_values_compared":all.len()}));
        rep.nontrivial(b"fresh-threads");
    }
    // several keys generated INTO ONE keyring file (the append path), three under the same password, one under another:
    // every PrivateKey line has its own salt and its own private key
    {
        let attempt = || -> Result<usize, String> {
            let sc = Scratch::new();
            let mut pws = vec![];
            for (name, pw) in [("a", "same-pw"), ("b", "same-pw"), ("c", "same-pw"), ("d", "other-pw")] {
                let out = proc::run(&Cmd::new(&["key", "generate", "-o", "ring.txt", "--env-pass"]).env("KESTREL_PASSWORD", pw).stdin(format!("{}\n", name).as_bytes()), &sc.0);
                if !out.ok() {
                    return Err(format!("key generate (append) failed: {}", out.summary()));
                }
                pws.push(pw);
            }
            let txt = String::from_utf8_lossy(&sc.read("ring.txt").unwrap_or_default()).to_string();
            let locked: Vec<String> = txt.lines().filter_map(|l| l.strip_prefix("PrivateKey = ")).map(|x| x.trim().to_string()).collect();
            if locked.len() != 4 {
                return Err(format!("expected 4 PrivateKey lines in the keyring, found {}", locked.len()));
            }
            let mut vals: Vec<(String, Vec<u8>)> = vec![];
            for (i, l) in locked.iter().enumerate() {
                let blob = r::b64_decode(l).ok_or("PrivateKey not base64")?;
                if blob.len() != 84 {
                    return Err("locked key has the wrong length".into());
                }
                vals.push((format!("salt of key {}", i + 1), blob[4..36].to_vec()));
                let sk = r::unlock_key(&blob, pws[i].as_bytes()).ok_or(format!("key {} does not unlock under its own password (REF)", i + 1))?;
                vals.push((format!("private key {}", i + 1), sk.to_vec()));
            }
            for i in 0..vals.len() {
                for j in 0..i {
                    if vals[i].1 == vals[j].1 {
                        return Err(format!("keys generated into one keyring share a value: [{}] == [{}] = {}", vals[j].0, vals[i].0, hx(&vals[i].1)));
                    }
                }
            }
            Ok(vals.len())
        };
        rep.eval(1);
        rep.nontrivial(b"keyring-append-salts");
        if attempt().is_err() {
            if let Err(e) = attempt() {
                rep.violation("append/salt-or-key-reused", json!({"kind":"append"}), e);
            }
        }
    }

    // key generation onto keyrings that so far hold only PUBLIC keys (a contacts file): two copies of the same file, the
    // same name and password for both, and a second generation into the first copy -- three salts and three private
    // keys, pairwise distinct and none all-zero
    {
        let contacts = format!("{}\n{}", fx_pub_entry(seed, "carol"), fx_pub_entry(seed, "dave"));
        let attempt = || -> Result<Vec<(String, Vec<u8>)>, String> {
            let mut vals: Vec<(String, Vec<u8>)> = vec![];
            let scs = [Scratch::new(), Scratch::new()];
            for (ci, sc) in scs.iter().enumerate() {
                sc.write("contacts.txt", contacts.as_bytes());
                let rounds = if ci == 0 { 2 } else { 1 };
                for g in 0..rounds {
                    let out = proc::run(&Cmd::new(&["key", "generate", "-o", "contacts.txt", "--env-pass"]).env("KESTREL_PASSWORD", "same-pw").stdin(b"me\n"), &sc.0);
                    if !out.ok() {
                        return Err(format!("key generate onto a public-only keyring failed: {}", out.summary()));
                    }
                    let txt = String::from_utf8_lossy(&sc.read("contacts.txt").unwrap_or_default()).to_string();
                    if !txt.starts_with(&contacts) {
                        return Err("the existing contacts are not a prefix of the keyring after generation".into());
                    }
                    let l = txt.lines().filter_map(|l| l.strip_prefix("PrivateKey = ")).last().ok_or("no PrivateKey line")?.trim().to_string();
                    let blob = r::b64_decode(&l).filter(|b| b.len() == 84).ok_or("PrivateKey is not an 84-byte base64 string")?;
                    vals.push((format!("copy {} generation {}: salt", ci + 1, g + 1), blob[4..36].to_vec()));
                    let sk = r::unlock_key(&blob, b"same-pw").ok_or("generated key does not unlock (REF)")?;
                    vals.push((format!("copy {} generation {}: private key", ci + 1, g + 1), sk.to_vec()));
                }
            }
            Ok(vals)
        };
        rep.eval(3);
        rep.nontrivial(b"public-only-keyring-generation");
        match attempt().or_else(|_| attempt()) {
            Err(e) => rep.violation("append/public-only-keyring", json!({"kind":"append"}), e),
            Ok(vals) => {
                'o: for i in 0..vals.len() {
                    if vals[i].1.iter().all(|&b| b == 0) {
                        rep.violation("append/salt-or-key-reused", json!({"kind":"append"}), format!("generation onto a keyring holding only public keys: [{}] is all zero", vals[i].0));
                        break;
                    }
                    for j in 0..i {
                        if vals[i].1 == vals[j].1 {
                            rep.violation("append/salt-or-key-reused", json!({"kind":"append"}), format!("generation onto keyrings holding only public keys: [{}] == [{}] = {}", vals[j].0, vals[i].0, hx(&vals[i].1)));
                            break 'o;
                        }
                    }
                }
            }
        }
    }

    // name and password at their longest (a 128-byte name, the longest the tool takes, with passwords of 32, 300 and 2000
    // bytes), the very same inputs three times into three files: three different private keys, public keys and salts --
    // what is typed must not crowd the randomness out of the key
    {
        let long_name = "n".repeat(128);
        let pws = ["p".repeat(32), "y".repeat(300), "z".repeat(2000)];
        let per: Vec<Result<Vec<(String, Vec<u8>)>, String>> = pws
            .par_iter()
            .map(|pw| {
                let attempt = || -> Result<Vec<(String, Vec<u8>)>, String> {
                    let mut vals = vec![];
                    for round in 0..3 {
                        let sc = Scratch::new();
                        let out = proc::run(&Cmd::new(&["key", "generate", "-o", "ring.txt", "--env-pass"]).env("KESTREL_PASSWORD", pw).stdin(format!("{}\n", long_name).as_bytes()), &sc.0);
                        if !out.ok() {
                            return Err(format!("key generate with a 128-byte name and a {}-byte password failed: {}", pw.len(), out.summary()));
                        }
                        let txt = String::from_utf8_lossy(&sc.read("ring.txt").unwrap_or_default()).to_string();
                        let pk = txt.lines().find_map(|l| l.strip_prefix("PublicKey = ")).ok_or("no PublicKey line")?.trim().to_string();
                        let l = txt.lines().find_map(|l| l.strip_prefix("PrivateKey = ")).ok_or("no PrivateKey line")?.trim().to_string();
                        let blob = r::b64_decode(&l).filter(|b| b.len() == 84).ok_or("PrivateKey is not an 84-byte base64 string")?;
                        let tag = format!("128-byte name, {}-byte password, generation {}", pw.len(), round + 1);
                        vals.push((format!("{}: public key", tag), pk.into_bytes()));
                        vals.push((format!("{}: salt", tag), blob[4..36].to_vec()));
                        let sk = r::unlock_key(&blob, pw.as_bytes()).ok_or(format!("{}: does not unlock under its password (REF)", tag))?;
                        vals.push((format!("{}: private key", tag), sk.to_vec()));
                    }
                    Ok(vals)
                };
                attempt().or_else(|_| attempt())
            })
            .collect();
        rep.eval(9);
        rep.nontrivial(b"long-name-and-password-fresh");
        let mut all: Vec<(String, Vec<u8>)> = vec![];
        for r0 in per {
            match r0 {
                Ok(v) => all.extend(v),
                Err(e) => rep.violation("shapes/operation-failed", json!({"kind":"append"}), e),
            }
        }
        'o2: for i in 0..all.len() {
            for j in 0..i {
                if all[i].1 == all[j].1 {
                    rep.violation("shapes/salt-or-key-reused", json!({"kind":"append"}), format!("identical commands produced the same value twice: [{}] == [{}]", all[j].0, all[i].0));
                    break 'o2;
                }
            }
        }
    }
    // library calls with only PART of the randomness supplied: the payload key given and the ephemeral key left to the library
    // (three calls: three different ephemeral keys), and the ephemeral pair given and the payload key left to the library
    // (three calls: three different payload keys, recovered by REF)
    {
        let ids = idents(seed);
        let pay = derive32(seed, "c07-partial-pay");
        let e = derive32(seed, "c07-partial-e");
        let e_pub = r::x25519_base(&e);
        let p = plaintext(seed ^ 0x7b, 20);
        let mut ephs: Vec<Vec<u8>> = vec![];
        let mut pays: Vec<Vec<u8>> = vec![];
        for _ in 0..3 {
            let mut out = Vec::new();
            let mut src: &[u8] = &p;
            let ok = guarded(|| kestrel_crypto::encrypt::key_encrypt(&mut src, &mut out, &ids[0].private(), &ids[0].public(), &ids[1].public(), None, None, Some(&kestrel_crypto::PayloadKey::new(&pay)), kestrel_crypto::AsymFileFormat::V1).is_ok());
            if ok == Ok(true) && out.len() >= 36 {
                ephs.push(out[4..36].to_vec());
            }
            let mut out2 = Vec::new();
            let mut src2: &[u8] = &p;
            let ok2 = guarded(|| kestrel_crypto::encrypt::key_encrypt(&mut src2, &mut out2, &ids[0].private(), &ids[0].public(), &ids[1].public(), Some(&kestrel_crypto::PrivateKey::try_from(&e[..]).unwrap()), Some(&kestrel_crypto::PublicKey::try_from(&e_pub[..]).unwrap()), None, kestrel_crypto::AsymFileFormat::V1).is_ok());
            if ok2 == Ok(true) {
                if let Ok(k) = r::read_key_file(&ids[1].sk, &out2) {
                    pays.push(k.payload_key.to_vec());
                }
            }
        }
        rep.eval(6);
        rep.nontrivial(b"partial-randomness");
        if ephs.len() != 3 || pays.len() != 3 {
            rep.violation("partial/operation-failed", json!({"kind":"append"}), format!("key_encrypt with part of the randomness supplied failed or wrote a file REF cannot read ({} + {} of 3 + 3)", ephs.len(), pays.len()));
        }
        for (what, v) in [("ephemeral public key (payload key supplied, ephemeral key left to the library)", &ephs), ("payload key (ephemeral pair supplied, payload key left to the library)", &pays)] {
            for i in 0..v.len() {
                for j in 0..i {
                    if v[i] == v[j] {
                        rep.violation("partial/value-reused", json!({"kind":"append"}), format!("two encryptions share their {}: {}", what, hx(&v[i])));
                    }
                }
            }
        }
    }

    // encryption to ONESELF through the program, twice: the two files carry different ephemeral keys, neither of them the
    // sender's own static key; and library encryptions of the EMPTY plaintext with everything left to the library: the
    // payload keys (recovered by REF) are different and not all zero
    {
        let me = Party::new(seed, "me", "mepw");
        let attempt = || -> Result<(), String> {
            let sc = Scratch::new();
            sc.write("kr.txt", me.entry(true).as_bytes());
            sc.write("plain.bin", b"note to self");
            let mut eph: Vec<Vec<u8>> = vec![];
            for i in 0..2 {
                let o = proc::run(&Cmd::new(&["encrypt", "plain.bin", "-t", "me", "-f", "me", "-k", "kr.txt", "-o", "out.ktl", "--env-pass"]).env("KESTREL_PASSWORD", "mepw"), &sc.0);
                let f = sc.read("out.ktl").unwrap_or_default();
                if !o.ok() || f.len() < 132 {
                    return Err(format!("encrypt to oneself failed: {}", o.summary()));
                }
                if f[4..36] == me.pk[..] {
                    return Err(format!("file {} of two encrypted to oneself carries the sender's own static key as its ephemeral key", i + 1));
                }
                eph.push(f[4..84].to_vec());
                let _ = std::fs::remove_file(sc.0.join("out.ktl"));
            }
            if eph[0] == eph[1] {
                return Err("two encryptions to oneself share the ephemeral key and the sealed sender field (bytes 4..84)".into());
            }
            Ok(())
        };
        rep.eval(2);
        rep.nontrivial(b"encrypt-to-self-twice");
        if attempt().is_err() {
            if let Err(e) = attempt() {
                rep.violation("self/ephemeral-reused", json!({"kind":"append"}), e);
            }
        }
        let ids = idents(seed);
        let mut pays: Vec<[u8; 32]> = vec![];
        for _ in 0..3 {
            let mut out = Vec::new();
            let mut src: &[u8] = b"";
            let ok = guarded(|| kestrel_crypto::encrypt::key_encrypt(&mut src, &mut out, &ids[0].private(), &ids[0].public(), &ids[1].public(), None, None, None, kestrel_crypto::AsymFileFormat::V1).is_ok());
            if ok == Ok(true) {
                if let Ok(k) = r::read_key_file(&ids[1].sk, &out) {
                    pays.push(k.payload_key);
                }
            }
        }
        rep.eval(3);
        rep.nontrivial(b"empty-plaintext-payload-keys");
        if pays.len() != 3 || pays.iter().any(|k| k.iter().all(|&b| b == 0)) || pays[0] == pays[1] || pays[1] == pays[2] || pays[0] == pays[2] {
            rep.violation("partial/value-reused", json!({"kind":"append"}), format!("three encryptions of the EMPTY plaintext with all randomness left to the library: payload keys {:?}", pays.iter().map(|k| hx(k)).collect::<Vec<_>>()));
        }
    }
    // the same under passwords of particular shapes (empty, one blank, one letter, exactly / just over one HMAC block, long):
    // two generations into one ring, a change of the first key's password to the very same password, and two password
    // encryptions of one plaintext -- every salt and every private key is new, within one password and across all of them
    {
        let x64 = "x".repeat(64);
        let x65 = "x".repeat(65);
        let y300 = "y".repeat(300);
        let shapes: Vec<&str> = vec!["", " ", "a", &x64, &x65, &y300];
        let per: Vec<Result<Vec<(String, Vec<u8>)>, String>> = shapes
            .par_iter()
            .map(|pw| {
                let attempt = || -> Result<Vec<(String, Vec<u8>)>, String> {
                    let sc = Scratch::new();
                    let tag = format!("password of {} byte(s)", pw.len());
                    let mut vals = vec![];
                    for name in ["a", "b"] {
                        let out = proc::run(&Cmd::new(&["key", "generate", "-o", "ring.txt", "--env-pass"]).env("KESTREL_PASSWORD", pw).stdin(format!("{}\n", name).as_bytes()), &sc.0);
                        if !out.ok() {
                            return Err(format!("key generate with a {} failed: {}", tag, out.summary()));
                        }
                    }
                    let txt = String::from_utf8_lossy(&sc.read("ring.txt").unwrap_or_default()).to_string();
                    let locked: Vec<String> = txt.lines().filter_map(|l| l.strip_prefix("PrivateKey = ")).map(|x| x.trim().to_string()).collect();
                    if locked.len() != 2 {
                        return Err(format!("expected 2 PrivateKey lines, found {}", locked.len()));
                    }
                    for (i, l) in locked.iter().enumerate() {
                        let blob = r::b64_decode(l).filter(|b| b.len() == 84).ok_or("PrivateKey is not an 84-byte base64 string")?;
                        vals.push((format!("{}: salt of generated key {}", tag, i + 1), blob[4..36].to_vec()));
                        let sk = r::unlock_key(&blob, pw.as_bytes()).ok_or(format!("{}: generated key {} does not unlock under it (REF)", tag, i + 1))?;
                        vals.push((format!("{}: private key {}", tag, i + 1), sk.to_vec()));
                    }
                    let out = proc::run(&Cmd::new(&["key", "change-pass", &locked[0], "--env-pass"]).env("KESTREL_PASSWORD", pw).env("KESTREL_NEW_PASSWORD", pw), &sc.0);
                    if !out.ok() {
                        return Err(format!("key change-pass with a {} failed: {}", tag, out.summary()));
                    }
                    let t2 = String::from_utf8_lossy(&out.stdout).to_string();
                    let l2 = t2.lines().find_map(|l| l.trim().strip_prefix("PrivateKey = ")).ok_or("no PrivateKey line from change-pass")?.trim().to_string();
                    let b2 = r::b64_decode(&l2).filter(|b| b.len() == 84).ok_or("change-pass output is not an 84-byte base64 string")?;
                    vals.push((format!("{}: salt after change-pass", tag), b2[4..36].to_vec()));
                    sc.write("plain.bin", b"the same plaintext");
                    for i in 0..2 {
                        let out = proc::run(&Cmd::new(&["password", "encrypt", "plain.bin", "-o", "out.ktl", "--env-pass"]).env("KESTREL_PASSWORD", pw), &sc.0);
                        let f = sc.read("out.ktl").unwrap_or_default();
                        if !out.ok() || f.len() < 36 {
                            return Err(format!("password encrypt with a {} failed: {}", tag, out.summary()));
                        }
                        vals.push((format!("{}: salt of password file {}", tag, i + 1), f[4..36].to_vec()));
                        let _ = std::fs::remove_file(sc.0.join("out.ktl"));
                    }
                    Ok(vals)
                };
                attempt().or_else(|_| attempt())
            })
            .collect();
        rep.eval(shapes.len() as u64 * 5);
        rep.nontrivial(b"password-shapes-fresh");
        let mut all: Vec<(String, Vec<u8>)> = vec![];
        for r0 in per {
            match r0 {
                Ok(v) => all.extend(v),
                Err(e) => rep.violation("shapes/operation-failed", json!({"kind":"append"}), e),
            }
        }
        'outer: for i in 0..all.len() {
            if all[i].1.iter().all(|&b| b == 0) {
                rep.violation("shapes/salt-or-key-reused", json!({"kind":"append"}), format!("[{}] is all zero", all[i].0));
                break;
            }
            for j in 0..i {
                if all[i].1 == all[j].1 {
                    rep.violation("shapes/salt-or-key-reused", json!({"kind":"append"}), format!("two operations share a value: [{}] == [{}] = {}", all[j].0, all[i].0, hx(&all[i].1)));
                    break 'outer;
                }
            }
        }
        rep.extra("password_shape_fresh_values", json!(all.len()));
    }

    across_fork(rep);
    seam_check(rep, &ctx.fx);
    rng_fault_sweep(rep, &ctx.fx);
    nonblocking_stdin(rep, &ctx.fx);

    // per file
    let key = derive32(seed, "c07-nonce-key");
    let css: Vec<u32> = rep.tier.pick(vec![2, 3], vec![1, 2, 3, 4]);
    let mut jobs = vec![];
    for &cs in &css {
        for l in 0..=(3 * cs as usize + 1) {
            jobs.push((cs, l));
        }
    }
    // files of many chunks (hundreds to thousands, at chunk size 1 and 2): every byte of the counter must reach the nonce
    for (cs, l) in [(1u32, 300usize), (1, rep.tier.pick(700, 70_000)), (2, 1030)] {
        nonce_many(rep, &key, cs, &plaintext(seed ^ 0x73, l));
        rep.nontrivial(format!("nonce-many-{}-{}", cs, l).as_bytes());
    }
    jobs.par_iter().for_each(|&(cs, l)| {
        let p = plaintext(seed ^ 0x71, l);
        if l == 0 {
            nonce_case(rep, &key, &[], cs, &p, &[]);
        }
        for comp in compositions(l, cs as usize) {
            nonce_case(rep, &key, &[], cs, &p, &comp);
            rep.nontrivial(format!("nonce-{}-{:?}", cs, comp).as_bytes());
        }
    });
    // the same clause under environment faults: every schedule with <= 2 interrupted reads/writes/flushes and <= 1 short
    // read on top; whenever the encryptor still returns Ok, every record must open under exactly its own index
    {
        use crate::env::*;
        let cs = 2u32;
        let mut jobs = vec![];
        for l in 0..=(2 * cs as usize + 1) {
            jobs.push(l);
        }
        let fault_execs = std::sync::atomic::AtomicU64::new(0);
        jobs.par_iter().for_each(|&l| {
            let p = plaintext(seed ^ 0x73, l);
            let sub = Subject::TinyEnc { key: hx(&key), aad: String::new(), cs };
            let mut menu = Menu::shorts(ReadMode::Bounded, false).no_record();
            menu.read_intr = true;
            menu.write_intr = true;
            menu.flush_intr = true;
            let mut b = Budget::new(1, 0, 2);
            b.shorts_total = 1;
            let st = explore(&p, menu, b, &|e| run_env(&sub, e), &|env, res| {
                if !res.is_ok() {
                    return;
                }
                let (recs, rest) = r::split_records(&env.sink);
                let case = || Case::new(&sub, &p, menu, env).json(json!({"what":"nonce-under-faults"}));
                if !rest.is_empty() || recs.is_empty() {
                    rep.violation("nonce/faults-unparseable", case(), format!("Ok returned under [{}] but the output is not a record sequence", describe(env)));
                    return;
                }
                let n = recs.len();
                for (i, rec) in recs.iter().enumerate() {
                    let mut a = rec.flag_field.to_be_bytes().to_vec();
                    a.extend_from_slice(&rec.len_field.to_be_bytes());
                    let mut ct = rec.body.clone();
                    ct.extend_from_slice(&rec.tag);
                    for j in 0..=(n as u64) {
                        let opens = r::aead_open(&key, &r::noise_nonce(j), &a, &ct).is_some();
                        if opens != (j == i as u64) {
                            rep.violation(
                                "nonce/reuse-or-skip-under-faults",
                                case(),
                                format!("after schedule [{}] the encryptor returned Ok but record {} of {} {} under nonce {}", describe(env), i, n, if opens { "opens" } else { "does not open" }, j),
                            );
                            return;
                        }
                    }
                }
            })
            .unwrap_or_else(|e| crate::report::machinery(&e));
            fault_execs.fetch_add(st.executions, Ordering::Relaxed);
        });
        rep.eval(fault_execs.load(Ordering::Relaxed));
        rep.extra("nonce_check_fault_schedules", json!(fault_execs.load(Ordering::Relaxed)));
        rep.nontrivial(b"nonce-under-faults");
    }
    // production chunk size with short reads (chunks shorter than 64 KiB)
    for sizes in [vec![1usize, 10, 100], vec![65536, 1, 65535], vec![100; 20]] {
        let l: usize = sizes.iter().sum::<usize>() + 7;
        nonce_case(rep, &key, &r::PASS_MAGIC, 65536, &plaintext(seed ^ 0x72, l), &sizes);
        rep.nontrivial(format!("nonce-prod-{:?}", sizes).as_bytes());
    }
    rep.sample(json!({"kind":"nonce","cs":3,"L":7,"reads":[1,2,1,3],"expect":"4 records, counters 0..3, record i opens only under nonce i"}));
    rep.set_exhaustive(true);
    let _ = Tier::Quick;
}

pub fn replay(rep: &'static Report, case: &Value) {
    match case["kind"].as_str().unwrap_or("") {
        "history" => {
            let fx = Fixture::new(rep.seed);
            let ops: Vec<Op> = case["ops"].as_array().unwrap().iter().map(|o| op_from(o.as_str().unwrap())).collect();
            match check_history(&fx, &ops) {
                Ok(n) => println!("  history {:?}: {} fresh values, all distinct", ops, n),
                Err(e) => rep.violation("history/replay", case.clone(), e),
            }
        }
        "seam" => seam_check(rep, &Fixture::new(rep.seed)),
        "rngfault" => rng_fault_sweep(rep, &Fixture::new(rep.seed)),
        "fork" => across_fork(rep),
        "threads" | "append" | "repetition" => {
            println!("  re-running C07");
            run(rep);
        }
        "repetition" => {
            println!("  re-running C07 (the repetition part is deterministic in its verdict)");
            run(rep);
        }
        _ if !case["env_case"].is_null() => {
            let c = Case::from_json(case).unwrap();
            let (env, res) = c.run();
            println!("  observed: {} under [{}]; re-running the fault part", res.brief(), describe(&env));
            run(rep);
        }
        "nonce" if case["len"].is_u64() => {
            let key: [u8; 32] = unhx(case["key"].as_str().unwrap()).try_into().unwrap();
            nonce_many(rep, &key, case["cs"].as_u64().unwrap() as u32, &plaintext(rep.seed ^ 0x73, case["len"].as_u64().unwrap() as usize));
        }
        "nonce" => {
            let g = |k: &str| unhx(case[k].as_str().unwrap());
            let sizes: Vec<usize> = case["sizes"].as_array().unwrap().iter().map(|v| v.as_u64().unwrap() as usize).collect();
            nonce_case(rep, &g("key").try_into().unwrap(), &g("aad"), case["cs"].as_u64().unwrap() as u32, &g("plain"), &sizes);
        }
        k => crate::report::machinery(&format!("unknown replay kind {}", k)),
    }
}
