//! C09 — untrusted bytes never crash; bounded work (E-GRID + E-PROC + MON).
use crate::fx::Party;
use crate::kra;
use crate::mon;
use crate::proc::{self, Cmd, Scratch};
use crate::refspec as r;
use crate::report::{Report, Tier};
use crate::streams::*;
use crate::util::*;
use rayon::prelude::*;
use serde_json::{json, Value};
use std::sync::atomic::{AtomicU64, Ordering};

const CS: u32 = 65536;

fn no_panic<T>(rep: &Report, surface: &str, input_descr: impl Fn() -> Value, f: impl FnOnce() -> T) -> Option<T> {
    rep.eval(1);
    match guarded(f) {
        Ok(v) => Some(v),
        Err(m) => {
            rep.violation(&format!("{}/panic", surface), input_descr(), format!("{} panicked: {}", surface, m));
            None
        }
    }
}

fn file_surface(rep: &Report, ids: &[Ident]) {
    let seed = rep.seed;
    let rc = &ids[2];
    let kdec = Subject::KeyDec { r: hx(&rc.sk), r_pub: hx(&rc.pk) };
    let pdec = Subject::PassDec { pw: hx(b"c09") };
    // all byte strings of length <= 2 (both entry points), and length-3/4 strings around the magic
    let mut short: Vec<Vec<u8>> = vec![vec![]];
    for a in 0..=255u8 {
        short.push(vec![a]);
        for b in 0..=255u8 {
            short.push(vec![a, b]);
        }
    }
    for v in 0..=255u8 {
        short.push(vec![0x65, 0x67, 0x6b, v]);
        short.push(vec![0x65, 0x67, v]);
    }
    short.par_iter().for_each(|x| {
        for sub in [&kdec, &pdec] {
            rep.eval(1);
            let (res, out) = run_plain(sub, x);
            if let Res::Panic(m) = &res {
                rep.violation("file/panic", json!({"kind":"file","bytes":hx(x)}), format!("decrypt panicked on {}: {}", hx(x), m));
            } else if res.is_ok() || !out.is_empty() {
                rep.violation("file/accepted-garbage", json!({"kind":"file","bytes":hx(x)}), format!("decrypt of {} returned {}", hx(x), res.brief()));
            }
        }
    });
    rep.add_distinct(short.len() as u64);
    // every prefix of authentic files, each also followed by zeros / 0xff
    let p = plaintext(seed ^ 0x91, 300);
    let kf = r::write_key_file(&ids[0].sk, &rc.pk, &derive32(seed, "c09-e"), &derive32(seed, "c09-p"), &p, &[100, 200]).unwrap();
    let salt = derive32(seed, "c09-salt");
    let pf = r::write_pass_file_with_key(&r::pass_key(b"c09", &salt), &salt, &p[..40], &[40]);
    let n = AtomicU64::new(0);
    (0..kf.len()).into_par_iter().for_each(|i| {
        for tail in [vec![], vec![0u8; 40], vec![0xffu8; 40]] {
            let mut x = kf[..i].to_vec();
            x.extend_from_slice(&tail);
            rep.eval(1);
            n.fetch_add(1, Ordering::Relaxed);
            let (res, _) = run_plain(&kdec, &x);
            if let Res::Panic(m) = &res {
                rep.violation("file/panic", json!({"kind":"file","bytes":hx(&x)}), format!("key_decrypt panicked on a {}-byte prefix (+{} filler): {}", i, tail.len(), m));
            } else if res.is_ok() {
                rep.violation("file/accepted-prefix", json!({"kind":"file","bytes":hx(&x)}), format!("{}-byte proper prefix accepted", i));
            }
        }
    });
    // password mode: only header-region prefixes run scrypt-free; the rest costs one scrypt each -> every 1st..40th byte and record boundaries
    let mut offs: Vec<usize> = (0..=36).collect();
    offs.extend([37, 51, 52, 53, 60, 91, 92, 107]);
    offs.retain(|&o| o < pf.len());
    offs.par_iter().for_each(|&i| {
        rep.eval(1);
        n.fetch_add(1, Ordering::Relaxed);
        let (res, _) = run_plain(&pdec, &pf[..i]);
        if let Res::Panic(m) = &res {
            rep.violation("file/panic", json!({"kind":"file-pass","bytes":hx(&pf[..i])}), format!("pass_decrypt panicked on a {}-byte prefix: {}", i, m));
        } else if res.is_ok() {
            rep.violation("file/accepted-prefix", json!({"kind":"file-pass","bytes":hx(&pf[..i])}), format!("{}-byte proper prefix accepted", i));
        }
    });
    // records that AUTHENTICATE (sealed by REF under the file's key) but carry unusual field values: flag values other
    // than 0/1, counter fields of every magnitude, lengths 0 and 1 - in the first and in a later position, both modes.
    // A hostile sender who knows the recipient's public key (or the password) can build these. Any verdict but a panic.
    {
        let key_hdr = &kf[..132];
        let fk = r::read_key_file(&rc.sk, &kf).map(|k| k.file_key).unwrap_or([0u8; 32]);
        let pk = r::pass_key(b"c09", &salt);
        let pass_hdr = &pf[..36];
        let flags: Vec<u32> = vec![0, 1, 2, 3, 0x7fff_ffff, 0x8000_0000, 0xffff_fffe, 0xffff_ffff, 0x0100_0000, 0x0000_0100];
        let counters: Vec<u64> = vec![0, 1, 2, 255, 256, 65536, 1 << 32, 1 << 56, u64::MAX - 1, u64::MAX];
        let mut files: Vec<(String, bool, Vec<u8>)> = vec![];
        for (mode, hdr, key, pre) in [("key", key_hdr, fk, &[][..]), ("pass", pass_hdr, pk, &r::PASS_MAGIC[..])] {
            for &fl in &flags {
                for &ctr in &counters {
                    for l in [0usize, 1, 50] {
                        let body = plaintext(seed ^ 0x92, l);
                        for pos in 0..2u64 {
                            let mut f = hdr.to_vec();
                            if pos == 1 {
                                f.extend_from_slice(&r::seal_conforming(&key, pre, 0, false, &p[..30]).bytes());
                            }
                            f.extend_from_slice(&r::seal_record(&key, pos, pre, fl, l as u32, ctr, fl, l as u32, &body).bytes());
                            // ... followed by nothing, and followed by a conforming final record
                            files.push((format!("{} flag={:#x} counter={:#x} len={} pos={}", mode, fl, ctr, l, pos), mode == "key", f.clone()));
                            f.extend_from_slice(&r::seal_conforming(&key, pre, pos + 1, true, b"tail").bytes());
                            files.push((format!("{} flag={:#x} counter={:#x} len={} pos={} +final", mode, fl, ctr, l, pos), mode == "key", f));
                        }
                    }
                }
            }
        }
        let nf = files.len();
        files.par_iter().for_each(|(descr, is_key, f)| {
            if !*is_key && !descr.contains("counter=0x0 ") && !descr.contains("counter=0xffffffffffffffff ") {
                return; // password mode costs one scrypt per run: two counter values only
            }
            rep.eval(1);
            let (res, _) = run_plain(if *is_key { &kdec } else { &pdec }, f);
            if let Res::Panic(m) = &res {
                rep.violation("file/panic-on-authentic-record-with-unusual-fields", json!({"kind":"file-fields","descr":descr,"bytes":hx(f)}), format!("decrypt panicked on a file whose records authenticate but carry unusual field values ({}): {}", descr, m));
            }
            rep.nontrivial(descr.as_bytes());
        });
        rep.extra("authentic_records_with_unusual_fields", json!(nf));
    }
    rep.add_distinct(n.load(Ordering::Relaxed));
    rep.sample(json!({"surface":"encrypted file","input":"every byte string of length <= 2; every prefix of a 2-chunk file, alone and followed by 40 filler bytes"}));
}

/// hostile header-field values with heap accounting (bounded work)
fn bounded_work(rep: &Report, ids: &[Ident]) {
    let seed = rep.seed;
    let rc = &ids[2];
    let p = plaintext(seed ^ 0x92, 30);
    let kf = r::write_key_file(&ids[0].sk, &rc.pk, &derive32(seed, "c09-e2"), &derive32(seed, "c09-p2"), &p, &[10, 20]).unwrap();
    let kdec = Subject::KeyDec { r: hx(&rc.sk), r_pub: hx(&rc.pk) };
    let mut vals: Vec<u32> = (0..32).map(|b| 1u32 << b).collect();
    vals.extend([0, CS, CS + 1, 1 << 31, u32::MAX, u32::MAX - 15, u32::MAX - 16, 0xffff_fff0, CS - 1, 11, 9]);
    let mut cases: Vec<(String, Vec<u8>)> = vec![];
    let rec0 = 132usize;
    let rec1 = 132 + 32 + 10;
    for (rn, off) in [("chunk0", rec0), ("chunk1", rec1)] {
        for (fname, fo) in [("flag", 8usize), ("len", 12usize)] {
            for &v in &vals {
                let mut x = kf.clone();
                x[off + fo..off + fo + 4].copy_from_slice(&v.to_be_bytes());
                cases.push((format!("{}.{}={:#x}", rn, fname, v), x));
            }
        }
        for &v in &[0u64, 1, u64::MAX, 1 << 32] {
            let mut x = kf.clone();
            x[off..off + 8].copy_from_slice(&v.to_be_bytes());
            cases.push((format!("{}.counter={:#x}", rn, v), x));
        }
    }
    for bit in 0..132 * 8 {
        let mut x = kf.clone();
        x[bit / 8] ^= 1 << (bit % 8);
        cases.push((format!("header-bit-{}", bit), x));
    }
    let peak_max = AtomicU64::new(0);
    cases.par_iter().for_each(|(name, x)| {
        rep.eval(1);
        rep.nontrivial(format!("bw-key-{}", name).as_bytes());
        let ((res, _out), m) = mon::measured(|| run_plain(&kdec, x));
        peak_max.fetch_max(m.peak_above_mark as u64, Ordering::Relaxed);
        let case = json!({"kind":"bounded-key","name":name,"bytes":hx(x)});
        if let Res::Panic(msg) = &res {
            rep.violation("bounded/panic", case, format!("key_decrypt panicked for {}: {}", name, msg));
        } else if m.peak_above_mark > (1 << 20) {
            rep.violation("bounded/heap-follows-attacker-field", case, format!("key_decrypt used {} bytes of heap while handling {} (cap 1 MiB)", m.peak_above_mark, name));
        }
    });
    rep.extra("bounded_key_mode_cases", json!(cases.len()));
    rep.extra("bounded_key_mode_peak_heap_max", json!(peak_max.load(Ordering::Relaxed)));
    // password mode: every bit of the 36-byte header, hostile chunk fields
    let salt = derive32(seed, "c09-salt2");
    let pf = r::write_pass_file_with_key(&r::pass_key(b"c09", &salt), &salt, &p, &[10, 20]);
    let pdec = Subject::PassDec { pw: hx(b"c09") };
    let mut pcases: Vec<(String, Vec<u8>)> = vec![];
    let hbits: Vec<usize> = match rep.tier {
        Tier::Thorough => (0..36 * 8).collect(),
        Tier::Quick => (0..32).chain((32..36 * 8).step_by(8)).collect(),
    };
    for bit in hbits {
        let mut x = pf.clone();
        x[bit / 8] ^= 1 << (bit % 8);
        pcases.push((format!("header-bit-{}", bit), x));
    }
    for &v in &[0u32, CS, CS + 1, 1 << 31, u32::MAX, 0xffff_fff0, 1 << 24] {
        for fo in [8usize, 12] {
            let mut x = pf.clone();
            x[36 + fo..36 + fo + 4].copy_from_slice(&v.to_be_bytes());
            pcases.push((format!("chunk0.{}={:#x}", if fo == 8 { "flag" } else { "len" }, v), x));
        }
    }
    pcases.push(("authentic".into(), pf.clone()));
    let ppeak = AtomicU64::new(0);
    pcases.par_iter().for_each(|(name, x)| {
        rep.eval(1);
        rep.nontrivial(format!("bw-pass-{}", name).as_bytes());
        let ((res, _out), m) = mon::measured(|| run_plain(&pdec, x));
        ppeak.fetch_max(m.peak_above_mark as u64, Ordering::Relaxed);
        let case = json!({"kind":"bounded-pass","name":name,"bytes":hx(x)});
        let magic_intact = x[..4] == r::PASS_MAGIC;
        if let Res::Panic(msg) = &res {
            rep.violation("bounded/panic", case, format!("pass_decrypt panicked for {}: {}", name, msg));
        } else if m.peak_above_mark > (33 << 20) + (1 << 20) {
            rep.violation("bounded/heap-follows-attacker-field", case, format!("pass_decrypt used {} bytes of heap while handling {} (cap 34 MiB)", m.peak_above_mark, name));
        } else if magic_intact && (m.big_count != 1 || m.big_max != 32 << 20) {
            rep.violation(
                "bounded/kdf-cost-not-constant",
                case,
                format!("pass_decrypt with {}: {} allocation(s) >= 16 MiB, largest {} bytes; expected exactly one of N*r*128 = 32 MiB (scrypt parameters must be constants)", name, m.big_count, m.big_max),
            );
        } else if !magic_intact && m.big_count != 0 {
            rep.violation("bounded/kdf-before-format-check", case, format!("a file without the password magic ({}) still cost a key derivation", name));
        }
    });
    rep.extra("bounded_pass_mode_cases", json!(pcases.len()));
    // "never a hang", for input that arrives as a stream: an authentic file followed by a tail that does not end (a pipe or
    // socket that stays open and keeps delivering). The answer must come while the tail is still short; a decryptor that has
    // taken 64 MiB of tail without answering is waiting for an end of input that never comes.
    {
        struct Endless<'a> {
            head: &'a [u8],
            pos: usize,
            tail_taken: u64,
            cap: u64,
        }
        impl<'a> std::io::Read for Endless<'a> {
            fn read(&mut self, buf: &mut [u8]) -> std::io::Result<usize> {
                if self.pos < self.head.len() {
                    let n = buf.len().min(self.head.len() - self.pos);
                    buf[..n].copy_from_slice(&self.head[self.pos..self.pos + n]);
                    self.pos += n;
                    return Ok(n);
                }
                if self.tail_taken >= self.cap {
                    return Err(std::io::Error::new(std::io::ErrorKind::Other, "the harness ends the endless tail"));
                }
                for b in buf.iter_mut() {
                    *b = 0;
                }
                self.tail_taken += buf.len() as u64;
                Ok(buf.len())
            }
        }
        const CAP: u64 = 64 << 20;
        for (mode, sub, file) in [("key", &kdec, &kf), ("password", &pdec, &pf)] {
            rep.eval(1);
            rep.nontrivial(format!("endless-tail-{}", mode).as_bytes());
            let mut src = Endless { head: file, pos: 0, tail_taken: 0, cap: CAP };
            let mut out = Vec::new();
            let res = run_rw(sub, &mut src, &mut out);
            let case = json!({"kind":"endless-tail","mode":mode});
            if src.tail_taken >= CAP {
                rep.violation("bounded/endless-tail-never-answered", case, format!("{}-mode decryption of an authentic file followed by an endless tail had taken {} bytes of the tail and still not answered (it answers only when the input ends: a hang on a stream that stays open)", mode, src.tail_taken));
            } else if res.is_ok() {
                rep.violation("bounded/endless-tail-accepted", case, format!("{}-mode decryption accepts an authentic file followed by further bytes", mode));
            } else if let Res::Panic(m) = &res {
                rep.violation("bounded/panic", case, format!("{}-mode decryption of an authentic file followed by a tail panicked: {}", mode, m));
            }
            rep.extra(&format!("endless_tail_bytes_taken_{}", mode), json!(src.tail_taken));
        }
    }
    rep.extra("bounded_pass_mode_peak_heap_max", json!(ppeak.load(Ordering::Relaxed)));
    rep.sample(json!({"surface":"bounded work","input":"chunk1.len=0xffffffff in a 2-chunk key-mode file","expect":"Err, peak heap < 1 MiB"}));
}

fn primitive_surfaces(rep: &Report, ids: &[Ident]) {
    let seed = rep.seed;
    let rc = &ids[2];
    // valid_file_format: every byte string of length 0..=5 over {e, g, k, 0x10, 0x20, 0x00, 0xff} (19 608 strings), and both
    // magic numbers cut and extended by 0..4 bytes: Ok exactly for the two 4-byte magic numbers
    {
        let alpha = [0x65u8, 0x67, 0x6b, 0x10, 0x20, 0x00, 0xff];
        let mut inputs: Vec<Vec<u8>> = vec![vec![]];
        let mut level: Vec<Vec<u8>> = vec![vec![]];
        for _ in 0..5 {
            let mut next = vec![];
            for w in &level {
                for a in alpha {
                    let mut x = w.clone();
                    x.push(a);
                    next.push(x);
                }
            }
            inputs.extend(next.iter().cloned());
            level = next;
        }
        for magic in [r::KEY_MAGIC, r::PASS_MAGIC] {
            for ext in 0..=4usize {
                let mut x = magic.to_vec();
                x.extend(std::iter::repeat(0x41).take(ext));
                inputs.push(x);
            }
        }
        inputs.par_iter().for_each(|x| {
            let want = x[..] == r::KEY_MAGIC[..] || x[..] == r::PASS_MAGIC[..];
            if let Some(ok) = no_panic(rep, "valid_file_format", || json!({"kind":"file-format","bytes":hx(x)}), || kestrel_crypto::decrypt::valid_file_format(x).is_ok()) {
                if ok != want {
                    rep.violation("valid_file_format/wrong-verdict", json!({"kind":"file-format","bytes":hx(x)}), format!("valid_file_format({}) returned {}", hx(x), if ok { "Ok" } else { "Err" }));
                }
            }
        });
        rep.add_distinct(inputs.len() as u64);
    }
    // noise_decrypt: every length 0..200 and large ones
    let pay = derive32(seed, "c09-pay");
    let m = r::noise_x_write(&r::XRoles::honest(&r::KEY_MAGIC, &ids[0].sk, &rc.pk, &derive32(seed, "c09-ne")), &pay).unwrap();
    let mut lens: Vec<usize> = (0..=200).collect();
    lens.extend([65535, 65536, 70000]);
    lens.par_iter().for_each(|&l| {
        for kind in ["zeros", "authentic-prefix", "authentic-then-zeros"] {
            let mut x = vec![0u8; l];
            if kind != "zeros" {
                let k = l.min(m.message.len());
                x[..k].copy_from_slice(&m.message[..k]);
                if kind == "authentic-prefix" && l > m.message.len() {
                    for (i, b) in x.iter_mut().enumerate().skip(m.message.len()) {
                        *b = i as u8;
                    }
                }
            }
            let authentic = x == m.message;
            let r2 = no_panic(rep, "noise_decrypt", || json!({"kind":"noise","len":l,"content":kind}), || kestrel_crypto::noise_decrypt(&rc.private(), &rc.public(), &r::KEY_MAGIC, &x).is_ok());
            if let Some(ok) = r2 {
                if ok != authentic {
                    rep.violation("noise_decrypt/wrong-verdict", json!({"kind":"noise","len":l,"content":kind}), format!("noise_decrypt on a {}-byte message ({}) returned {}", l, kind, if ok { "Ok" } else { "Err" }));
                }
            }
            rep.nontrivial(format!("noise-{}-{}", l, kind).as_bytes());
        }
    });
    // authentic X handshakes (REF) whose payload is not 32 bytes: every payload length 0..80 and a large one
    let mut plens: Vec<usize> = (0..=80).collect();
    plens.extend([1000, 65439, 65440]);
    plens.par_iter().for_each(|&pl| {
        let payload = plaintext(seed ^ 0x94, pl);
        let msg = match r::noise_x_write(&r::XRoles::honest(&r::KEY_MAGIC, &ids[0].sk, &rc.pk, &derive32(seed, "c09-ne2")), &payload) {
            Some(m) => m.message,
            None => return,
        };
        let d = || json!({"kind":"noise-payload","payload_len":pl});
        if let Some(ok) = no_panic(rep, "noise_decrypt", d, || kestrel_crypto::noise_decrypt(&rc.private(), &rc.public(), &r::KEY_MAGIC, &msg).is_ok()) {
            if ok != (pl == 32) {
                rep.violation("noise_decrypt/wrong-verdict", d(), format!("noise_decrypt on an authentic handshake with a {}-byte payload returned {}", pl, if ok { "Ok" } else { "Err" }));
            }
        }
        rep.nontrivial(format!("noise-payload-{}", pl).as_bytes());
    });
    // handshakes that authenticate up to the static-key field but carry a special (small-order / non-canonical) point as
    // ephemeral key or as the encrypted sender key
    for (name, pt) in crate::c19::special_points() {
        for variant in ["sender-skip-ss", "sender-ss-zero", "ephemeral-es-zero"] {
            let mut roles = r::XRoles::honest(&r::KEY_MAGIC, &ids[0].sk, &rc.pk, &derive32(seed, "c09-ne3"));
            match variant {
                "sender-skip-ss" => {
                    roles.s_pub = pt;
                    roles.skip_ss = true;
                }
                "sender-ss-zero" => {
                    roles.s_pub = pt;
                    roles.ss_override = Some([0u8; 32]);
                }
                _ => {
                    roles.e_pub = pt;
                    roles.es_override = Some([0u8; 32]);
                }
            }
            if let Some(m) = r::noise_x_write(&roles, &pay) {
                let _ = no_panic(rep, "noise_decrypt", || json!({"kind":"noise-special","point":name,"variant":variant}), || kestrel_crypto::noise_decrypt(&rc.private(), &rc.public(), &r::KEY_MAGIC, &m.message).is_ok());
                // and through the file entry point
                let mut f = r::KEY_MAGIC.to_vec();
                f.extend_from_slice(&m.message);
                f.extend_from_slice(&[0u8; 40]);
                rep.eval(1);
                let (res, _) = run_plain(&Subject::KeyDec { r: hx(&rc.sk), r_pub: hx(&rc.pk) }, &f);
                if let Res::Panic(msg) = res {
                    rep.violation("file/panic", json!({"kind":"noise-special","point":name,"variant":variant}), format!("key_decrypt panicked on a file whose handshake carries {} ({}): {}", name, variant, msg));
                }
                rep.nontrivial(format!("noise-special-{}-{}", name, variant).as_bytes());
            }
        }
    }
    rep.sample(json!({"surface":"noise_decrypt","input":"every message length 0..200, 65535, 65536, 70000 x {zeros, authentic prefix, authentic then zeros}; authentic handshakes with every payload length 0..80; handshakes carrying each of 52 special points as ephemeral or sender key"}));
    // AEAD: every length 0..80
    let key = derive32(seed, "c09-aead");
    let auth = r::aead_seal(&key, &[0u8; 12], b"ad", &plaintext(seed, 64));
    for l in 0..=80usize {
        for kind in ["zeros", "authentic-prefix"] {
            let x: Vec<u8> = if kind == "zeros" { vec![0u8; l] } else { auth.iter().cloned().chain(std::iter::repeat(0)).take(l).collect() };
            let want = r::aead_open(&key, &[0u8; 12], b"ad", &x).is_some();
            if let Some(got) = no_panic(rep, "chapoly_decrypt_ietf", || json!({"kind":"aead","len":l,"content":kind}), || kestrel_crypto::chapoly_decrypt_ietf(&key, &[0u8; 12], &x, b"ad").is_ok()) {
                if got != want {
                    rep.violation("chapoly_decrypt_ietf/wrong-verdict", json!({"kind":"aead","len":l,"content":kind}), format!("{}-byte input: {}", l, got));
                }
            }
            let _ = no_panic(rep, "chapoly_decrypt_noise", || json!({"kind":"aead-noise","len":l,"content":kind}), || kestrel_crypto::verif_chapoly_decrypt_noise(&key, 0, b"ad", &x).is_ok());
            rep.nontrivial(format!("aead-{}-{}", l, kind).as_bytes());
        }
    }
}

fn string_surfaces(rep: &Report) {
    let seed = rep.seed;
    let ids = idents(seed);
    let pk = r::encode_pk(&ids[0].pk);
    let sk = r::b64(&r::lock_key(&ids[0].sk, b"c09", &derive32(seed, "c09-ssalt")));
    let classes: Vec<&str> = vec!["A", "=", "-", "_", " ", "\0", "\u{e9}", "\u{1F600}", "\n", "+"];
    let mut strs: Vec<String> = vec![];
    for n in 0..=130usize {
        for c in &classes {
            strs.push(c.repeat(n));
        }
        strs.push(pk.chars().cycle().take(n).collect());
        strs.push(sk.chars().take(n).collect());
    }
    // single-character substitutions of the valid strings
    for base in [&pk, &sk] {
        let v: Vec<char> = base.chars().collect();
        for i in 0..v.len() {
            for c in ["=", " ", "\u{e9}", "\0"] {
                let mut w: Vec<String> = v.iter().map(|x| x.to_string()).collect();
                w[i] = c.to_string();
                strs.push(w.concat());
            }
        }
    }
    // single-character insertions (decoders that skip characters must not disagree with later strict decoding)
    for base in [&pk, &sk] {
        let v: Vec<char> = base.chars().collect();
        for i in 0..=v.len() {
            for c in [" ", "\n", "\t", "=", "\u{e9}", "A"] {
                let mut w: Vec<String> = v.iter().map(|x| x.to_string()).collect();
                w.insert(i, c.to_string());
                strs.push(w.concat());
            }
        }
    }
    strs.sort();
    strs.dedup();
    let n = strs.len();
    strs.par_iter().for_each(|s| {
        let d = || json!({"kind":"string","s":s});
        if !kra::AVAILABLE {
            // the same strings as a black box: `kestrel key extract-pub STRING` must end with exit 0 or a clean error
            if !s.contains('\0') {
                let sc = crate::proc::Scratch::new();
                let out = crate::proc::run(&crate::proc::Cmd::new(&["key", "extract-pub", s.as_str(), "--env-pass"]).env("KESTREL_PASSWORD", "c09"), &sc.0);
                rep.eval(1);
                if let Err(e) = out.well_behaved() {
                    rep.violation("panic/cli-key-string", d(), format!("kestrel key extract-pub {:?}: {}", s, e));
                }
            }
            rep.nontrivial(s.as_bytes());
            return;
        }
        // public key path: try_from + decode
        let _ = no_panic(rep, "EncodedPk/decode_public_key", d, || kra::decode_pk(s.as_str()).is_some());
        // private key path: try_from + unlock only when REF says it would not be a valid blob under this password (avoid scrypt per string)
        // a string accepted by try_from is then used by unlock (as_bytes): only strings that are NOT plain
        // base64 of 84 bytes reach this without costing a scrypt on the pristine tree
        let _ = no_panic(rep, "EncodedSk::try_from/unlock", d, || {
            if r::b64_decode(s).map(|b| b.len() == 84 && b[..4] == r::SK_MAGIC).unwrap_or(false) {
                kra::sk_syntax_ok(s.as_str())
            } else {
                kra::unlock(s.as_str(), b"c09").is_some()
            }
        });
        rep.nontrivial(s.as_bytes());
    });
    // unlock path on strings that pass try_from but are malformed blobs (costs one scrypt each): a few shapes
    let shapes: Vec<Vec<u8>> = vec![vec![0u8; 84], vec![0xffu8; 84], {
        let mut b = r::SK_MAGIC.to_vec();
        b.extend_from_slice(&[0u8; 80]);
        b
    }];
    for b in shapes {
        if !kra::AVAILABLE {
            break;
        }
        let s = r::b64(&b);
        let _ = no_panic(rep, "unlock_private_key", || json!({"kind":"unlock","s":s}), || kra::unlock(s.as_str(), b"c09").is_some());
    }
    rep.extra("key_strings", json!(n));
    // keyring text surface: long lines / long names made of multi-byte characters in every line role (the token-sequence
    // enumeration of the parser lives in C17)
    let mut texts: Vec<String> = vec![];
    for role in ["", "Name = ", "# ", "PublicKey = ", "PrivateKey = ", "[Key]"] {
        for mb in ["x", "\u{e9}", "\u{20ac}", "\u{1F600}"] {
            for pre in 0..4usize {
                for total in [0usize, 1, 31, 32, 33, 40, 64, 100, 127, 128, 129, 130, 160, 200, 260, 1000] {
                    let nrep = total.saturating_sub(pre) / mb.len();
                    let line = format!("{}{}{}", role, "y".repeat(pre.min(total)), mb.repeat(nrep));
                    texts.push(line.clone());
                    texts.push(format!("[Key]\n{}\nPublicKey = {}\n", line, pk));
                    texts.push(format!("[Key]\nName = ok\nPublicKey = {}\n{}\n", pk, line));
                }
            }
        }
    }
    texts.sort();
    texts.dedup();
    let nt = texts.len();
    texts.par_iter().for_each(|t| {
        if !kra::AVAILABLE {
            let sc = crate::proc::Scratch::new();
            sc.write("kr.txt", t.as_bytes());
            sc.write("p.bin", b"x");
            let out = crate::proc::run(&crate::proc::Cmd::new(&["encrypt", "p.bin", "-t", "ok", "-f", "ok", "-k", "kr.txt", "-o", "o.ktl", "--env-pass"]).env("KESTREL_PASSWORD", "c09"), &sc.0);
            rep.eval(1);
            if let Err(e) = out.well_behaved() {
                rep.violation("panic/cli-keyring-text", json!({"kind":"keyring-text","text":t}), format!("kestrel encrypt with a hostile keyring file: {}", e));
            }
            rep.nontrivial(t.as_bytes());
            return;
        }
        let _ = no_panic(rep, "Keyring::new", || json!({"kind":"keyring-text","text":t}), || kra::parse(t).is_ok());
        rep.nontrivial(t.as_bytes());
    });
    rep.extra("keyring_texts", json!(nt));
    rep.sample(json!({"surface":"encoded keys","input":"every length 0..130 of each character class {base64, '=', '-', '_', space, NUL, 2- and 4-byte UTF-8, newline}; single-character substitutions of valid strings"}));
}

// ------------------------------------------------------------------------------------------- CLI argument vectors

pub fn vocabulary(alice: &Party) -> Vec<Vec<u8>> {
    let corrupt: String = {
        let mut c: Vec<char> = alice.locked.chars().collect();
        c[60] = if c[60] == 'A' { 'B' } else { 'A' };
        c.into_iter().collect()
    };
    let mut v: Vec<Vec<u8>> = [
        "encrypt", "dec", "key", "generate", "change-pass", "extract-pub", "password", "decrypt", "-t", "alice", "--from=alice", "-o", "out.bin", "-k", "kr.txt", "--env-pass", "-h", "-v", "--", "-", "", "plain.bin", "ct.ktl",
        "nosuch",
    ]
    .iter()
    .map(|s| s.as_bytes().to_vec())
    .collect();
    v.push(alice.locked.as_bytes().to_vec());
    v.push(corrupt.into_bytes());
    v.push(format!("{} {}", &alice.locked[..40], &alice.locked[40..]).into_bytes()); // valid key with a space inside
    v.push(vec![0x66, 0xff, 0xfe]); // not UTF-8
    v
}

fn cli_argv(rep: &Report) {
    let seed = rep.seed;
    let alice = Party::new(seed, "alice", "alicepw");
    let bob = Party::new(seed, "bob", "bobpw");
    let kr = crate::fx::keyring(&[(&alice, true), (&bob, false)]);
    let p = plaintext(seed ^ 0x93, 20);
    let ct = r::write_key_file(&bob.sk, &alice.pk, &derive32(seed, "c09-ce"), &derive32(seed, "c09-cp"), &p, &[20]).unwrap();
    let vocab = vocabulary(&alice);
    let nv = vocab.len();
    let maxlen = rep.tier.pick(3usize, 4);
    let envs: Vec<Vec<(String, String)>> = vec![
        vec![],
        vec![("KESTREL_PASSWORD".into(), "alicepw".into()), ("KESTREL_NEW_PASSWORD".into(), "newpw".into()), ("KESTREL_KEYRING".into(), "kr.txt".into())],
    ];
    // heads: all sequences of length <= 2; each worker extends its head to every longer sequence
    let mut heads: Vec<Vec<usize>> = vec![vec![]];
    for a in 0..nv {
        heads.push(vec![a]);
        for b in 0..nv {
            heads.push(vec![a, b]);
        }
    }
    let count = AtomicU64::new(0);
    let slow = AtomicU64::new(0);
    let start = std::time::Instant::now();
    let cap_s = rep.tier.pick(45.0, 900.0);
    let capped = std::sync::atomic::AtomicBool::new(false);
    let completed_len = std::sync::Mutex::new(vec![0u64; maxlen + 1]);
    heads.par_iter().for_each(|head| {
        let sc = Scratch::new();
        sc.write("kr.txt", kr.as_bytes());
        sc.write("plain.bin", &p);
        sc.write("ct.ktl", &ct);
        let fixtures = ["kr.txt", "plain.bin", "ct.ktl"];
        let mut stack: Vec<Vec<usize>> = vec![head.clone()];
        while let Some(seq) = stack.pop() {
            if seq.len() >= 3 && start.elapsed().as_secs_f64() > cap_s {
                capped.store(true, Ordering::Relaxed);
                continue;
            }
            for (ei, env) in envs.iter().enumerate() {
                if seq.len() >= maxlen.max(3) && ei == 0 {
                    continue; // the longest vectors under the populated environment only
                }
                let cmd = Cmd { args: seq.iter().map(|&i| vocab[i].clone()).collect(), env: env.clone(), stdin: proc::StdinSpec::Null, stdout_file: None, stdout_closed_pipe: false, stdin_path: None, fsize_limit: None, pty: None, stdin_splits: vec![], stdout_nonblock_slow: None, env_bytes: vec![], stdout_reader_leaves_after: None, stdin_nonblock: false, stdin_socket_reset: None, stderr_reader_leaves_after: None, stdin_offset: None };
                let out = proc::run(&cmd, &sc.0);
                count.fetch_add(1, Ordering::Relaxed);
                completed_len.lock().unwrap()[seq.len()] += 1;
                if out.wall_ms > 2000 {
                    slow.fetch_add(1, Ordering::Relaxed);
                }
                if let Err(e) = out.well_behaved() {
                    rep.violation(
                        &format!("cli/{}", e.split(' ').take(3).collect::<Vec<_>>().join("-")),
                        json!({"kind":"argv","cmd":serde_json::to_value(&cmd).unwrap()}),
                        format!("argv {:?} (env {}): {} — {}", seq.iter().map(|&i| String::from_utf8_lossy(&vocab[i]).to_string()).collect::<Vec<_>>(), if ei == 0 { "empty" } else { "password+keyring set" }, e, out.summary()),
                    );
                }
                // clean up whatever the command created
                if let Ok(rd) = std::fs::read_dir(&sc.0) {
                    for ent in rd.flatten() {
                        let name = ent.file_name().to_string_lossy().to_string();
                        if !fixtures.contains(&name.as_str()) {
                            let _ = std::fs::remove_file(ent.path());
                        }
                    }
                }
                for f in fixtures {
                    // a command may have clobbered a fixture through -o: restore
                    let want: &[u8] = match f {
                        "kr.txt" => kr.as_bytes(),
                        "plain.bin" => &p,
                        _ => &ct,
                    };
                    if sc.read(f).as_deref() != Some(want) {
                        sc.write(f, want);
                    }
                }
            }
            if seq.len() >= 2 && seq.len() < maxlen {
                for k in 0..nv {
                    let mut s2 = seq.clone();
                    s2.push(k);
                    stack.push(s2);
                }
            }
        }
    });
    let c = count.load(Ordering::Relaxed);
    rep.eval(c);
    rep.add_distinct(c);
    let cl = completed_len.lock().unwrap().clone();
    rep.extra("cli_argv", json!({"vocabulary":nv,"max_len":maxlen,"processes":c,"per_length":cl,"slower_than_2s":slow.load(Ordering::Relaxed)}));
    if capped.load(Ordering::Relaxed) {
        rep.cap(&format!("CLI argv enumeration stopped extending at the {}-s wall cap; lengths <= 2 complete, see cli_argv.per_length for the rest", cap_s));
    }
    rep.sample(json!({"surface":"argv","argv":["key","change-pass","<corrupt locked key>"],"env":"KESTREL_PASSWORD, KESTREL_NEW_PASSWORD, KESTREL_KEYRING set","expect":"exit 1 with Error: line"}));
    rep.sample(json!({"surface":"argv","argv":["dec","ct.ktl","<non-UTF-8>"],"env":"empty","expect":"exit 1 with Error: line"}));
}

/// Structured argument vectors: for each command, the full product of value classes per slot.
fn cli_slot_grid(rep: &Report) {
    let seed = rep.seed;
    let alice = Party::new(seed, "alice", "alicepw");
    let bob = Party::new(seed, "bob", "bobpw");
    let kr = crate::fx::keyring(&[(&alice, true), (&bob, false)]);
    let p = plaintext(seed ^ 0x95, 20);
    let ct = r::write_key_file(&bob.sk, &alice.pk, &derive32(seed, "c09-ce"), &derive32(seed, "c09-cp"), &p, &[20]).unwrap();
    let salt = derive32(seed, "c09-gs");
    let pct = r::write_pass_file_with_key(&r::pass_key(b"alicepw", &salt), &salt, &p, &[20]);
    // value classes
    let inputs: Vec<Option<&str>> = vec![None, Some("plain.bin"), Some("ct.ktl"), Some("pct.ktl"), Some("nosuch"), Some(""), Some("."), Some("sub/nosuch"), Some("kr.txt")];
    let outputs: Vec<Option<&str>> = vec![None, Some("out.bin"), Some("existing.bin"), Some("plain.bin"), Some("nodir/out.bin"), Some(""), Some(".")];
    let names: Vec<Option<&str>> = vec![None, Some("alice"), Some("bob"), Some("nobody"), Some("")];
    let keyrings: Vec<Option<&str>> = vec![None, Some("kr.txt"), Some("nosuch"), Some("plain.bin"), Some(".")];
    let envpass = [false, true];
    let mut cmds: Vec<Vec<String>> = vec![];
    let push_opt = |v: &mut Vec<String>, flag: &str, val: &Option<&str>| {
        if let Some(x) = val {
            v.push(flag.to_string());
            v.push(x.to_string());
        }
    };
    for inp in &inputs {
        for out in &outputs {
            for &ep in &envpass {
                // password encrypt / decrypt
                for sub in ["encrypt", "decrypt"] {
                    let mut v = vec!["password".to_string(), sub.to_string()];
                    if let Some(i) = inp {
                        v.push(i.to_string());
                    }
                    push_opt(&mut v, "-o", out);
                    if ep {
                        v.push("--env-pass".into());
                    }
                    cmds.push(v);
                }
                for to in &names {
                    for k in &keyrings {
                        if rep.tier == Tier::Quick && (to == &Some("")) && k.is_some() {
                            continue;
                        }
                        let mut v = vec!["decrypt".to_string()];
                        if let Some(i) = inp {
                            v.push(i.to_string());
                        }
                        push_opt(&mut v, "-t", to);
                        push_opt(&mut v, "-o", out);
                        push_opt(&mut v, "-k", k);
                        if ep {
                            v.push("--env-pass".into());
                        }
                        cmds.push(v);
                        if *k == Some("kr.txt") || rep.tier == Tier::Thorough {
                            for from in [None, Some("alice"), Some("bob"), Some("")] {
                                let mut v = vec!["encrypt".to_string()];
                                if let Some(i) = inp {
                                    v.push(i.to_string());
                                }
                                push_opt(&mut v, "-t", to);
                                push_opt(&mut v, "-f", &from);
                                push_opt(&mut v, "-o", out);
                                push_opt(&mut v, "-k", k);
                                if ep {
                                    v.push("--env-pass".into());
                                }
                                cmds.push(v);
                            }
                        }
                    }
                }
            }
        }
    }
    // key sub-commands
    let corrupt: String = {
        let mut c: Vec<char> = alice.locked.chars().collect();
        c[60] = if c[60] == 'A' { 'B' } else { 'A' };
        c.into_iter().collect()
    };
    for key in [None, Some(alice.locked.as_str()), Some(corrupt.as_str()), Some(""), Some("AAAA"), Some("plain.bin")] {
        for sub in ["change-pass", "extract-pub"] {
            for &ep in &envpass {
                let mut v = vec!["key".to_string(), sub.to_string()];
                if let Some(k) = key {
                    v.push(k.to_string());
                }
                if ep {
                    v.push("--env-pass".into());
                }
                cmds.push(v);
            }
        }
    }
    for out in &outputs {
        for &ep in &envpass {
            let mut v = vec!["key".to_string(), "generate".to_string()];
            push_opt(&mut v, "-o", out);
            if ep {
                v.push("--env-pass".into());
            }
            cmds.push(v);
        }
    }
    cmds.sort();
    cmds.dedup();
    let n = cmds.len();
    let fixtures: Vec<(&str, Vec<u8>)> = vec![("kr.txt", kr.as_bytes().to_vec()), ("plain.bin", p.clone()), ("ct.ktl", ct.clone()), ("pct.ktl", pct.clone()), ("existing.bin", b"previous content".to_vec())];
    cmds.par_iter().for_each(|args| {
        let sc = Scratch::new();
        for (f, d) in &fixtures {
            sc.write(f, d);
        }
        rep.eval(1);
        let a: Vec<&str> = args.iter().map(|s| s.as_str()).collect();
        let is_gen = args.len() >= 2 && args[1] == "generate";
        let mut cmd = Cmd::new(&a).env("KESTREL_PASSWORD", "alicepw").env("KESTREL_NEW_PASSWORD", "newpw");
        if is_gen {
            cmd = cmd.stdin(b"slotname\n");
        }
        let out = proc::run(&cmd, &sc.0);
        if let Err(e) = out.well_behaved() {
            rep.violation(
                &format!("cli-slots/{}", e.split(' ').take(3).collect::<Vec<_>>().join("-")),
                json!({"kind":"argv","cmd":serde_json::to_value(&cmd).unwrap()}),
                format!("argv {:?}: {} — {}", args, e, out.summary()),
            );
        }
    });
    rep.add_distinct(n as u64);
    rep.extra("cli_slot_grid_vectors", json!(n));
    rep.sample(json!({"surface":"argv slot grid","argv":["password","encrypt","nosuch","-o","existing.bin","--env-pass"],"expect":"exit 1 with Error: line"}));
}

/// Option-like junk in every command: one token from an alphabet of malformed / unknown / multi-byte / non-UTF-8 option
/// spellings, placed before or after an otherwise valid argument list of each sub-command. Real processes; any exit status
/// 0/1 with an `Error:` line is fine, a panic (exit 101), a signal or a hang is not.
fn cli_option_junk(rep: &Report) {
    let seed = rep.seed;
    let alice = Party::new(seed, "alice", "alicepw");
    let bob = Party::new(seed, "bob", "bobpw");
    let kr = crate::fx::keyring(&[(&alice, true), (&bob, true)]);
    let p = plaintext(seed ^ 0x96, 20);
    let ct = r::write_key_file(&bob.sk, &alice.pk, &derive32(seed, "c09-je"), &derive32(seed, "c09-jp"), &p, &[20]).unwrap();
    let bases: Vec<Vec<&str>> = vec![
        vec!["encrypt", "plain.bin", "-t", "bob", "-f", "alice", "-k", "kr.txt", "-o", "out.bin", "--env-pass"],
        vec!["enc", "plain.bin", "-t", "bob", "-f", "alice", "-k", "kr.txt", "-o", "out.bin", "--env-pass"],
        vec!["decrypt", "ct.ktl", "-t", "alice", "-k", "kr.txt", "-o", "out.bin", "--env-pass"],
        vec!["dec", "ct.ktl", "-t", "alice", "-k", "kr.txt", "-o", "out.bin", "--env-pass"],
        vec!["password", "encrypt", "plain.bin", "-o", "out.bin", "--env-pass"],
        vec!["pass", "dec", "ct.ktl", "-o", "out.bin", "--env-pass"],
        vec!["key", "generate", "-o", "new.txt", "--env-pass"],
        vec!["key", "change-pass", &alice.locked, "--env-pass"],
        vec!["key", "extract-pub", &alice.locked, "--env-pass"],
        vec![],
        vec!["key"],
        vec!["password"],
    ];
    let junk: Vec<Vec<u8>> = [
        "--=x", "--=", "-=x", "-=", "-\u{e9}", "--\u{43a}\u{43b}\u{44e}\u{447}", "-\u{20ac}", "--\u{e9}=\u{fc}", "-\u{1F600}", "--\u{1F600}=1", "---", "--", "-", "--t", "-tt", "--to=", "--to", "-ho", "-falice", "--from=alice", "--frobnicate", "--env-pass=1", "-k=", "-o=", "--output=", "-\u{300}", "--x\u{301}",
    ]
    .iter()
    .map(|t| t.as_bytes().to_vec())
    .chain([vec![b'-', 0xff], vec![b'-', b'-', 0xc3], vec![b'-', 0xe2, 0x82], vec![b'-', b'-', b'o', b'=', 0xff]])
    .collect();
    let mut jobs: Vec<Vec<Vec<u8>>> = vec![];
    for b in &bases {
        for j in &junk {
            // after the sub-command words, and at the very end
            let nsub = b.iter().take_while(|w| !w.starts_with('-') && !w.contains('.') && w.len() < 30).count();
            for pos in [nsub, b.len()] {
                let mut v: Vec<Vec<u8>> = b.iter().map(|w| w.as_bytes().to_vec()).collect();
                v.insert(pos.min(v.len()), j.clone());
                jobs.push(v);
            }
        }
    }
    jobs.sort();
    jobs.dedup();
    let n = jobs.len();
    use rayon::prelude::*;
    jobs.par_iter().for_each(|args| {
        rep.eval(1);
        let sc = Scratch::new();
        sc.write("kr.txt", kr.as_bytes());
        sc.write("plain.bin", &p);
        sc.write("ct.ktl", &ct);
        let cmd = Cmd { args: args.clone(), env: vec![("KESTREL_PASSWORD".into(), "alicepw".into()), ("KESTREL_NEW_PASSWORD".into(), "x".into())], stdin: proc::StdinSpec::Bytes(b"newname\n".to_vec()), stdout_file: None, stdout_closed_pipe: false, stdin_path: None, fsize_limit: None, pty: None, stdin_splits: vec![], stdout_nonblock_slow: None, env_bytes: vec![], stdout_reader_leaves_after: None, stdin_nonblock: false, stdin_socket_reset: None, stderr_reader_leaves_after: None, stdin_offset: None };
        let out = proc::run(&cmd, &sc.0);
        rep.nontrivial(&args.concat());
        if let Err(e) = out.well_behaved() {
            rep.violation(&format!("cli-junk/{}", e.split(' ').take(3).collect::<Vec<_>>().join("-")), json!({"kind":"argv","cmd":serde_json::to_value(&cmd).unwrap()}), format!("argv {:?}: {} — {}", args.iter().map(|a| String::from_utf8_lossy(a).to_string()).collect::<Vec<_>>(), e, out.summary()));
        }
    });
    rep.extra("cli_option_junk_vectors", json!(n));
}

/// A keyring file with one hostile entry among the genuine ones (before, between, after), offered to commands that
/// otherwise run to completion: encrypt alice -> bob, decrypt of a REF file from alice (the sender lookup walks the
/// entries) and of a REF file from a sender the keyring does not know (the lookup walks all of them). Any outcome that is
/// exit 0, or exit 1 with an `Error:` line, is fine.
fn cli_hostile_keyrings(rep: &Report) {
    use rayon::prelude::*;
    let seed = rep.seed;
    let alice = Party::new(seed, "alice", "alicepw");
    let bob = Party::new(seed, "bob", "alicepw");
    let carol = Party::new(seed, "carol", "x");
    let p = plaintext(seed ^ 0x9a, 33);
    let from_alice = r::write_key_file(&alice.sk, &bob.pk, &derive32(seed, "c09-he"), &derive32(seed, "c09-hp"), &p, &[33]).unwrap();
    let from_carol = r::write_key_file(&carol.sk, &bob.pk, &derive32(seed, "c09-he2"), &derive32(seed, "c09-hp2"), &p, &[33]).unwrap();
    let flip_char = |t: &str, at: usize| -> String {
        let mut c: Vec<char> = t.chars().collect();
        let at = at.min(c.len() - 1);
        c[at] = if c[at] == 'A' { 'B' } else { 'A' };
        c.into_iter().collect()
    };
    let pk = &carol.pk_enc;
    let long_name = "n".repeat(300);
    let long_pk = "A".repeat(4000);
    let mut entries: Vec<(String, String)> = vec![
        ("pk-bad-checksum-key-part".into(), format!("[Key]\nName = mallory\nPublicKey = {}\n", flip_char(pk, 5))),
        ("pk-bad-checksum-sum-part".into(), format!("[Key]\nName = mallory\nPublicKey = {}\n", flip_char(pk, pk.len() - 3))),
        ("pk-35-bytes".into(), format!("[Key]\nName = mallory\nPublicKey = {}\n", r::b64(&[7u8; 35]))),
        ("pk-37-bytes".into(), format!("[Key]\nName = mallory\nPublicKey = {}\n", r::b64(&[7u8; 37]))),
        ("pk-36-bytes-of-zero".into(), format!("[Key]\nName = mallory\nPublicKey = {}\n", r::b64(&[0u8; 36]))),
        ("pk-empty".into(), "[Key]\nName = mallory\nPublicKey = \n".into()),
        ("pk-not-base64".into(), "[Key]\nName = mallory\nPublicKey = !!!not base64!!!\n".into()),
        ("pk-very-long".into(), format!("[Key]\nName = mallory\nPublicKey = {}\n", long_pk)),
        ("pk-alice-under-another-name".into(), format!("[Key]\nName = mallory\nPublicKey = {}\n", alice.pk_enc)),
        ("name-alice-again".into(), format!("[Key]\nName = alice\nPublicKey = {}\n", pk)),
        ("name-bob-again-with-bad-checksum".into(), format!("[Key]\nName = bob\nPublicKey = {}\n", flip_char(pk, 9))),
        ("name-empty".into(), format!("[Key]\nName = \nPublicKey = {}\n", pk)),
        ("name-long".into(), format!("[Key]\nName = {}\nPublicKey = {}\n", long_name, pk)),
        ("name-unicode".into(), format!("[Key]\nName = m\u{e4}llory \u{1F600}\nPublicKey = {}\n", pk)),
        ("no-name".into(), format!("[Key]\nPublicKey = {}\n", pk)),
        ("no-public-key".into(), "[Key]\nName = mallory\n".into()),
        ("bare-header".into(), "[Key]\n".into()),
        ("unknown-field".into(), format!("[Key]\nName = mallory\nPublicKey = {}\nColour = blue\n", pk)),
        ("garbage-line".into(), format!("[Key]\nName = mallory\nthis is not a field\nPublicKey = {}\n", pk)),
        ("sk-wrong-length".into(), format!("[Key]\nName = mallory\nPublicKey = {}\nPrivateKey = {}\n", pk, r::b64(&[1u8; 83]))),
        ("sk-not-base64".into(), format!("[Key]\nName = mallory\nPublicKey = {}\nPrivateKey = ???\n", pk)),
        ("sk-flipped".into(), format!("[Key]\nName = mallory\nPublicKey = {}\nPrivateKey = {}\n", pk, flip_char(&carol.locked, 50))),
        ("sk-wrong-magic".into(), format!("[Key]\nName = mallory\nPublicKey = {}\nPrivateKey = {}\n", pk, r::b64(&[0u8; 84]))),
        ("fields-twice".into(), format!("[Key]\nName = mallory\nName = mallory2\nPublicKey = {}\nPublicKey = {}\n", pk, flip_char(pk, 4))),
        ("crlf".into(), format!("[Key]\r\nName = mallory\r\nPublicKey = {}\r\n", flip_char(pk, 7))),
        ("nul-in-value".into(), format!("[Key]\nName = mal\0lory\nPublicKey = {}\n", flip_char(pk, 7))),
    ];
    // long runs of lines the parser skips (a parser that recurses per skipped line runs out of stack)
    entries.push(("200000-blank-lines".into(), "\n".repeat(200_000)));
    entries.push(("200000-comment-lines".into(), "#\n".repeat(200_000)));
    entries.push(("200000-blank-and-comment-lines-alternating".into(), "\n# c\n".repeat(100_000)));
    entries.push(("benign".into(), format!("[Key]\nName = mallory\nPublicKey = {}\n", pk)));
    let ops: Vec<(&str, Vec<&str>)> = vec![
        ("encrypt", vec!["encrypt", "plain.bin", "-t", "bob", "-f", "alice", "-k", "kr.txt", "-o", "out.bin", "--env-pass"]),
        ("decrypt-known-sender", vec!["decrypt", "a.ktl", "-t", "bob", "-k", "kr.txt", "-o", "out.bin", "--env-pass"]),
        ("decrypt-unknown-sender", vec!["decrypt", "c.ktl", "-t", "bob", "-k", "kr.txt", "-o", "out.bin", "--env-pass"]),
    ];
    let mut jobs = vec![];
    for (en, e) in &entries {
        for pos in 0..3usize {
            for (on, a) in &ops {
                jobs.push((en.clone(), e.clone(), pos, *on, a.clone()));
            }
        }
    }
    let completed = std::sync::atomic::AtomicU64::new(0);
    jobs.par_iter().for_each(|(en, e, pos, on, a)| {
        rep.eval(1);
        rep.nontrivial(format!("hostile-ring-{}-{}-{}", en, pos, on).as_bytes());
        let mut parts = vec![alice.entry(true), bob.entry(true)];
        parts.insert(*pos, e.clone());
        let kr = parts.join("\n");
        let sc = Scratch::new();
        sc.write("kr.txt", kr.as_bytes());
        sc.write("plain.bin", &p);
        sc.write("a.ktl", &from_alice);
        sc.write("c.ktl", &from_carol);
        let cmd = Cmd::new(a).env("KESTREL_PASSWORD", "alicepw");
        let out = proc::run(&cmd, &sc.0);
        if out.ok() {
            completed.fetch_add(1, std::sync::atomic::Ordering::Relaxed);
        }
        if let Err(er) = out.well_behaved() {
            rep.violation(
                &format!("cli-hostile-keyring/{}", er.split(' ').take(3).collect::<Vec<_>>().join("-")),
                json!({"kind":"hostile-keyring","entry":en,"position":pos,"op":on,"keyring":kr}),
                format!("{} with a keyring whose entry {} of 3 is '{}': {} — {}", on, pos + 1, en, er, out.summary()),
            );
        }
    });
    rep.extra("cli_hostile_keyring_runs", json!(jobs.len()));
    rep.extra("cli_hostile_keyring_runs_completed_with_exit_0", json!(completed.load(std::sync::atomic::Ordering::Relaxed)));
}

/// Inputs that are AUTHENTIC under the key or password in use but do not have the usual shape: locked private keys that seal
/// 0..64 bytes instead of 32 (only a holder of the password can make them -- a backup tool, another implementation), and
/// files whose chunk lengths grow, shrink or alternate. The outcome is a value or an error, never a panic.
fn authentic_oddities(rep: &Report, ids: &[Ident]) {
    let seed = rep.seed;
    // (a) locked keys sealing L bytes
    let salt = derive32(seed, "c09-odd-salt");
    let k = r::pass_key(b"c09", &salt);
    let alice = Party::new(seed, "alice", "alicepw");
    let p = plaintext(seed ^ 0x9b, 20);
    let lens: Vec<usize> = vec![0, 1, 16, 31, 32, 33, 34, 47, 48, 64, 100];
    lens.par_iter().for_each(|&l| {
        rep.eval(3);
        rep.nontrivial(format!("authentic-locked-key-sealing-{}", l).as_bytes());
        let body = derive(seed, "c09-odd-sk", l);
        let mut blob = r::SK_MAGIC.to_vec();
        blob.extend_from_slice(&salt);
        blob.extend_from_slice(&r::aead_seal(&k, &[0u8; 12], &r::SK_MAGIC, &body));
        let s = r::b64(&blob);
        let case = json!({"kind":"odd-key","sealed":l,"string":s});
        if kra::AVAILABLE {
            if let Err(m) = guarded(|| kra::unlock(&s, b"c09")) {
                rep.violation("panic/authentic-locked-key-of-unusual-length", case.clone(), format!("unlocking a locked key that authentically seals {} bytes panicked: {}", l, m));
            }
        }
        let sc = Scratch::new();
        for args in [vec!["key", "extract-pub", s.as_str(), "--env-pass"], vec!["key", "change-pass", s.as_str(), "--env-pass"]] {
            let o = proc::run(&Cmd::new(&args).env("KESTREL_PASSWORD", "c09").env("KESTREL_NEW_PASSWORD", "n"), &sc.0);
            if let Err(e) = o.well_behaved() {
                rep.violation("panic/authentic-locked-key-of-unusual-length", case.clone(), format!("kestrel {} {} on a locked key that authentically seals {} bytes: {} ({})", args[0], args[1], l, e, o.summary().chars().take(200).collect::<String>()));
            }
        }
        // as the recipient's PrivateKey in a keyring
        let kr = format!("{}\n{}", alice.entry(false), proc::keyring_entry("odd", &r::encode_pk(&ids[1].pk), Some(&s)));
        sc.write("kr.txt", kr.as_bytes());
        sc.write("ct.ktl", &r::write_key_file(&alice.sk, &ids[1].pk, &derive32(seed, "c09-odd-e"), &derive32(seed, "c09-odd-p"), &p, &[20]).unwrap());
        let o = proc::run(&Cmd::new(&["decrypt", "ct.ktl", "-t", "odd", "-k", "kr.txt", "-o", "out.bin", "--env-pass"]).env("KESTREL_PASSWORD", "c09"), &sc.0);
        if let Err(e) = o.well_behaved() {
            rep.violation("panic/authentic-locked-key-of-unusual-length", case, format!("kestrel decrypt with a keyring PrivateKey that authentically seals {} bytes: {}", l, e));
        }
    });
    // (b) chunk-length profiles
    let tkey = derive32(seed, "c09-odd-tkey");
    let profiles: Vec<Vec<usize>> = vec![vec![0, 1, 15], vec![100, 150, 180], vec![1, 2, 3, 4, 5, 6, 7, 8], vec![8, 7, 6, 5, 4, 3, 2, 1], vec![1, 65536, 1], vec![65536, 1, 65536], vec![10, 1000, 10, 1000, 10], vec![1, 10, 100, 1000, 10_000, 65_536], vec![65_536, 10_000, 1000, 100, 10, 1], vec![5, 5, 6, 6, 7, 7, 65_000, 7]];
    let kdec = Subject::KeyDec { r: hx(&ids[2].sk), r_pub: hx(&ids[2].pk) };
    profiles.par_iter().for_each(|ch| {
        rep.eval(2);
        rep.nontrivial(format!("chunk-profile-{:?}", ch).as_bytes());
        let pt = plaintext(seed ^ 0x9c, ch.iter().sum());
        let case = json!({"kind":"odd-file","chunking":ch});
        let f = r::write_key_file(&ids[0].sk, &ids[2].pk, &derive32(seed, "c09-odd-e2"), &derive32(seed, "c09-odd-p2"), &pt, ch).unwrap();
        let (res, out) = run_plain(&kdec, &f);
        if let Res::Panic(m) = &res {
            rep.violation("file/panic", case.clone(), format!("key_decrypt of an authentic file with chunk lengths {:?} panicked: {}", ch, m));
        } else if !res.is_ok() || out != pt {
            rep.violation("file/authentic-rejected", case.clone(), format!("key_decrypt of an authentic file with chunk lengths {:?}: {}", ch, res.brief()));
        }
        let t = r::write_chunks(&tkey, &r::PASS_MAGIC, &pt, ch);
        let (res, out) = run_plain(&Subject::TinyDec { key: hx(&tkey), aad: hx(&r::PASS_MAGIC), cs: 65536 }, &t);
        if let Res::Panic(m) = &res {
            rep.violation("file/panic", case, format!("chunk decryption (password-mode associated data) of an authentic stream with chunk lengths {:?} panicked: {}", ch, m));
        } else if !res.is_ok() || out != pt {
            rep.violation("file/authentic-rejected", case, format!("chunk decryption of an authentic stream with chunk lengths {:?}: {}", ch, res.brief()));
        }
    });
    // (c) the input is a directory (the open succeeds, the first read fails with EISDIR), as FILE argument and as stdin
    {
        let mut dj: Vec<(Vec<&str>, bool)> = vec![];
        for base in [vec!["decrypt", "-t", "alice", "-k", "kr.txt", "-o", "out.bin", "--env-pass"], vec!["password", "decrypt", "-o", "out.bin", "--env-pass"], vec!["encrypt", "-t", "alice", "-f", "alice", "-k", "kr.txt", "-o", "out.bin", "--env-pass"], vec!["password", "encrypt", "-o", "out.bin", "--env-pass"]] {
            for as_stdin in [false, true] {
                dj.push((base.clone(), as_stdin));
            }
        }
        let alice2 = Party::new(seed, "alice", "alicepw");
        dj.par_iter().for_each(|(base, as_stdin)| {
            rep.eval(1);
            rep.nontrivial(format!("input-is-a-directory-{:?}-{}", base, as_stdin).as_bytes());
            let sc = Scratch::new();
            sc.write("kr.txt", alice2.entry(true).as_bytes());
            let _ = std::fs::create_dir_all(sc.0.join("adir"));
            let mut a = base.clone();
            let mut c;
            if *as_stdin {
                c = Cmd::new(&a);
                c.stdin_path = Some("adir".into());
            } else {
                a.insert(if a[0] == "password" { 2 } else { 1 }, "adir");
                c = Cmd::new(&a);
            }
            c = c.env("KESTREL_PASSWORD", "alicepw");
            let o = proc::run(&c, &sc.0);
            if let Err(e) = o.well_behaved() {
                rep.violation("panic/input-is-a-directory", json!({"kind":"odd-file","directory":true,"args":a,"stdin":as_stdin}), format!("kestrel {} with a directory as {}: {} ({})", a.join(" "), if *as_stdin { "stdin" } else { "FILE" }, e, o.summary().chars().take(200).collect::<String>()));
            }
        });
    }
    rep.extra("authentic_oddities", json!({"locked_key_lengths":lens.len(),"chunk_profiles":profiles.len()}));
}

pub fn run(rep: &'static Report) {
    rep.set_rule("E-GRID per untrusted-input surface (all byte strings of length <= 2, every prefix of authentic files, every message length for noise_decrypt and the AEAD wrappers, every length/character-class of key strings, hostile values of every header field under heap accounting) and E-PROC: every argument vector of length <= 3 (quick) / <= 4 (thorough) over a 28-token vocabulary under two environments, as real processes. distinct non-trivial = distinct inputs per surface");
    rep.rule_add("CLI argument vectors and the per-slot value grid run as real processes; library compiled with overflow checks.");
    rep.rule_add("Authentic but unusual: locked keys sealing 0..100 bytes (unlock, extract-pub, change-pass, keyring use); 10 chunk-length profiles (growing, shrinking, alternating) in both modes.");
    rep.rule_add("Hostile keyrings: 30 entry shapes (incl. runs of 200 000 skipped lines) x 3 positions among genuine entries x {encrypt, decrypt with known sender, decrypt with unknown sender}, commands that otherwise complete.");
    rep.assume("the keyring parser surface is enumerated by C17; all C03 graph states also run under the panic guard");
    rep.assume("stdin is /dev/null and the process has no controlling terminal (setsid), so prompts cannot block; wall limit 30 s per process");
    kra::note(rep);
    let ids = idents(rep.seed);
    let t0 = std::time::Instant::now();
    let mut phases: Vec<(&str, f64)> = vec![];
    let mut mark = |n: &'static str, phases: &mut Vec<(&str, f64)>| phases.push((n, t0.elapsed().as_secs_f64()));
    file_surface(rep, &ids);
    mark("file_surface", &mut phases);
    bounded_work(rep, &ids);
    mark("bounded_work", &mut phases);
    primitive_surfaces(rep, &ids);
    mark("primitive_surfaces", &mut phases);
    string_surfaces(rep);
    mark("string_surfaces", &mut phases);
    cli_argv(rep);
    mark("cli_argv", &mut phases);
    cli_slot_grid(rep);
    mark("cli_slot_grid", &mut phases);
    cli_option_junk(rep);
    mark("cli_option_junk", &mut phases);
    cli_hostile_keyrings(rep);
    mark("cli_hostile_keyrings", &mut phases);
    authentic_oddities(rep, &ids);
    mark("authentic_oddities", &mut phases);
    rep.extra("phase_end_seconds", json!(phases.iter().map(|(n, t)| json!([n, (t * 10.0).round() / 10.0])).collect::<Vec<_>>()));
    rep.set_exhaustive(true);
}

pub fn replay(rep: &'static Report, case: &Value) {
    let ids = idents(rep.seed);
    match case["kind"].as_str().unwrap_or("") {
        "odd-key" | "odd-file" => authentic_oddities(rep, &idents(rep.seed)),
        "file-format" => {
            let x = unhx(case["bytes"].as_str().unwrap());
            let want = x[..] == r::KEY_MAGIC[..] || x[..] == r::PASS_MAGIC[..];
            match guarded(|| kestrel_crypto::decrypt::valid_file_format(&x).is_ok()) {
                Ok(ok) if ok == want => println!("  valid_file_format({}) = {}", hx(&x), ok),
                Ok(ok) => rep.violation("valid_file_format/wrong-verdict", case.clone(), format!("returned {}", ok)),
                Err(m) => rep.violation("valid_file_format/panic", case.clone(), m),
            }
        }
        "endless-tail" => {
            println!("  re-running the bounded-work part of C09");
            bounded_work(rep, &idents(rep.seed));
        }
        "hostile-keyring" => {
            println!("  re-running the hostile-keyring part of C09");
            cli_hostile_keyrings(rep);
        }
        "argv" => {
            let cmd: Cmd = serde_json::from_value(case["cmd"].clone()).unwrap();
            let seed = rep.seed;
            let alice = Party::new(seed, "alice", "alicepw");
            let bob = Party::new(seed, "bob", "bobpw");
            let sc = Scratch::new();
            sc.write("kr.txt", crate::fx::keyring(&[(&alice, true), (&bob, false)]).as_bytes());
            let p = plaintext(seed ^ 0x93, 20);
            sc.write("plain.bin", &p);
            sc.write("ct.ktl", &r::write_key_file(&bob.sk, &alice.pk, &derive32(seed, "c09-ce"), &derive32(seed, "c09-cp"), &p, &[20]).unwrap());
            sc.write("existing.bin", b"previous content");
            let out = proc::run(&cmd, &sc.0);
            println!("  observed: {}", out.summary());
            if let Err(e) = out.well_behaved() {
                rep.violation("cli/replay", case.clone(), e);
            }
        }
        "file" | "bounded-key" => {
            let x = unhx(case["bytes"].as_str().unwrap());
            let (res, _) = run_plain(&Subject::KeyDec { r: hx(&ids[2].sk), r_pub: hx(&ids[2].pk) }, &x);
            println!("  observed: {}", res.brief());
            if matches!(res, Res::Panic(_)) || res.is_ok() {
                rep.violation("file/replay", case.clone(), res.brief());
            }
        }
        "file-pass" | "bounded-pass" => {
            let x = unhx(case["bytes"].as_str().unwrap());
            let (res, _) = run_plain(&Subject::PassDec { pw: hx(b"c09") }, &x);
            println!("  observed: {}", res.brief());
            if matches!(res, Res::Panic(_)) {
                rep.violation("file/replay", case.clone(), res.brief());
            }
        }
        _ => {
            println!("  re-running the in-process surfaces");
            primitive_surfaces(rep, &ids);
            string_surfaces(rep);
            bounded_work(rep, &ids);
        }
    }
}
