//! E-PROC — the CLI as a black box with a fully specified environment.
#![allow(dead_code)]

use serde::{Deserialize, Serialize};
use std::io::{Read, Write};
use std::os::unix::process::ExitStatusExt;
use std::path::{Path, PathBuf};
use std::process::{Command, Stdio};
use std::sync::atomic::{AtomicU64, Ordering};
use std::time::{Duration, Instant};

pub const KESTREL: &str = "/verif/harness/target/release/kestrel";
pub const WORK: &str = "/verif/work";

#[derive(Clone, Debug, Serialize, Deserialize)]
pub enum StdinSpec {
    Null,
    Bytes(Vec<u8>),
}

/// A pseudo-terminal for the child. `typed` is what the "user" types (each line ends with \n).
#[derive(Clone, Debug, Serialize, Deserialize)]
pub struct PtySpec {
    pub typed: Vec<u8>,
    /// make the pty the child's controlling terminal (new session + TIOCSCTTY), so /dev/tty works
    pub controlling: bool,
    /// the child's stdin is the terminal (otherwise stdin follows StdinSpec)
    pub stdin_is_tty: bool,
    /// the child's stdout is the terminal (otherwise the usual pipe / file)
    pub stdout_is_tty: bool,
}

#[derive(Clone, Debug, Serialize, Deserialize)]
pub struct Cmd {
    pub args: Vec<Vec<u8>>,
    pub env: Vec<(String, String)>,
    pub stdin: StdinSpec,
    /// when Some, stdout is redirected to this file (relative to cwd, or absolute) instead of a pipe
    pub stdout_file: Option<String>,
    /// stdout is the write end of a pipe whose read end is already closed
    #[serde(default)]
    pub stdout_closed_pipe: bool,
    /// stdin is this file or directory (opened read-only) instead of StdinSpec
    #[serde(default)]
    pub stdin_path: Option<String>,
    /// attach a pseudo-terminal (interactive wiring): see PtySpec
    #[serde(default)]
    pub pty: Option<PtySpec>,
    /// run the child under RLIMIT_FSIZE = this many bytes with SIGXFSZ ignored: a write crossing the limit is
    /// short, the next one fails with EFBIG (like a quota or a nearly full disk)
    #[serde(default)]
    pub fsize_limit: Option<u64>,
    /// stdin bytes are delivered in pieces: the writer stops at each of these offsets until the child has taken
    /// everything delivered so far out of the pipe (FIONREAD == 0, then a short pause), so a single read() in the child
    /// sees at most the bytes up to that offset
    #[serde(default)]
    pub stdin_splits: Vec<usize>,
    /// stdout is an O_NONBLOCK pipe with a slow reader: (initial stall in ms, bytes per read, pause between reads in
    /// microseconds). Writes beyond the pipe capacity get EAGAIN in the child. Everything read is still collected.
    #[serde(default)]
    pub stdout_nonblock_slow: Option<(u64, usize, u64)>,
    /// environment variables whose values are arbitrary bytes (not necessarily UTF-8)
    #[serde(default)]
    pub env_bytes: Vec<(String, Vec<u8>)>,
    /// the reader of the stdout pipe goes away after taking this many bytes (like `kestrel ... | head -c N`)
    #[serde(default)]
    pub stdout_reader_leaves_after: Option<usize>,
    /// the child's stdin pipe has O_NONBLOCK set (as left behind by some parent programs): a read that finds the pipe
    /// empty gets EAGAIN instead of waiting; the pauses of `stdin_splits` then become visible to the child
    #[serde(default)]
    pub stdin_nonblock: bool,
    /// stdin is a connected Unix stream socket carrying the StdinSpec bytes (at most ~100 KB, queued before the child
    /// starts). Some(true): the peer then dies with unread input of its own, so that after the queued bytes the child's
    /// next read fails once with ECONNRESET and the one after sees end-of-file. Some(false): orderly end of stream.
    #[serde(default)]
    pub stdin_socket_reset: Option<bool>,
    /// the reader of the stderr pipe goes away after taking this many bytes (a log collector that dies)
    #[serde(default)]
    pub stderr_reader_leaves_after: Option<usize>,
    /// with `stdin_path`: the descriptor the child inherits already stands at this offset (the parent consumed a header)
    #[serde(default)]
    pub stdin_offset: Option<u64>,
}

impl Cmd {
    pub fn new(args: &[&str]) -> Cmd {
        Cmd { args: args.iter().map(|a| a.as_bytes().to_vec()).collect(), env: vec![], stdin: StdinSpec::Null, stdout_file: None, stdout_closed_pipe: false, stdin_path: None, fsize_limit: None, pty: None, stdin_splits: vec![], stdout_nonblock_slow: None, env_bytes: vec![], stdout_reader_leaves_after: None, stdin_nonblock: false, stdin_socket_reset: None, stderr_reader_leaves_after: None, stdin_offset: None }
    }
    pub fn env(mut self, k: &str, v: &str) -> Cmd {
        self.env.push((k.to_string(), v.to_string()));
        self
    }
    pub fn stdin(mut self, b: &[u8]) -> Cmd {
        self.stdin = StdinSpec::Bytes(b.to_vec());
        self
    }
    pub fn display(&self) -> String {
        let a: Vec<String> = self.args.iter().map(|a| String::from_utf8_lossy(a).to_string()).collect();
        format!("kestrel {}", a.join(" "))
    }
}

#[derive(Clone, Debug)]
pub struct Out {
    pub code: Option<i32>,
    pub signal: Option<i32>,
    pub timed_out: bool,
    pub stdout: Vec<u8>,
    pub stderr: String,
    pub wall_ms: u128,
    /// everything the child (and the terminal's echo) wrote to the pseudo-terminal, if one was attached
    pub tty_output: Vec<u8>,
}

impl Out {
    pub fn ok(&self) -> bool {
        self.code == Some(0)
    }
    /// C09/C12 contract on the process level: exit 0, or exit 1 with an Error: line; never signal/101/hang
    pub fn well_behaved(&self) -> Result<(), String> {
        if self.timed_out {
            return Err("hang (wall limit)".into());
        }
        if let Some(s) = self.signal {
            return Err(format!("killed by signal {}", s));
        }
        if self.stderr.contains("panicked at") {
            return Err("panic message on stderr".into());
        }
        match self.code {
            Some(0) => Ok(()),
            Some(1) => {
                if self.stderr.lines().any(|l| l.starts_with("Error:") || l.contains("Error: ")) {
                    Ok(())
                } else {
                    Err("exit 1 without an 'Error:' line".into())
                }
            }
            c => Err(format!("exit status {:?}", c)),
        }
    }
    pub fn summary(&self) -> String {
        format!(
            "code={:?} signal={:?} timeout={} stdout_len={} stderr={:?}",
            self.code,
            self.signal,
            self.timed_out,
            self.stdout.len(),
            self.stderr.chars().take(300).collect::<String>()
        )
    }
}

static DIR_CTR: AtomicU64 = AtomicU64::new(0);
thread_local! {
    static SOCK_TO_CLOSE: std::cell::Cell<i32> = const { std::cell::Cell::new(-1) };
    static NB_STDIN_WRITE_END: std::cell::Cell<i32> = const { std::cell::Cell::new(-1) };
    static PTY_SLAVE_TO_CLOSE: std::cell::Cell<i32> = const { std::cell::Cell::new(-1) };
}

/// A fresh scratch directory under /verif/work, removed on drop.
pub struct Scratch(pub PathBuf);

impl Scratch {
    pub fn new() -> Scratch {
        let n = DIR_CTR.fetch_add(1, Ordering::Relaxed);
        let p = PathBuf::from(format!("{}/{}-{}", WORK, std::process::id(), n));
        std::fs::create_dir_all(&p).expect("create scratch dir");
        Scratch(p)
    }
    pub fn path(&self, name: &str) -> PathBuf {
        self.0.join(name)
    }
    pub fn write(&self, name: &str, data: &[u8]) {
        std::fs::write(self.path(name), data).expect("write scratch file");
    }
    pub fn read(&self, name: &str) -> Option<Vec<u8>> {
        std::fs::read(self.path(name)).ok()
    }
    pub fn exists(&self, name: &str) -> bool {
        self.path(name).exists()
    }
}

impl Drop for Scratch {
    fn drop(&mut self) {
        let _ = std::fs::remove_dir_all(&self.0);
    }
}

pub fn cleanup_work() {
    let _ = std::fs::remove_dir_all(WORK);
    let _ = std::fs::create_dir_all(WORK);
}

pub fn run(cmd: &Cmd, cwd: &Path) -> Out {
    run_limit(cmd, cwd, Duration::from_secs(30))
}

pub fn run_limit(cmd: &Cmd, cwd: &Path, limit: Duration) -> Out {
    use std::os::unix::ffi::OsStrExt;
    let mut c = Command::new(KESTREL);
    for a in &cmd.args {
        c.arg(std::ffi::OsStr::from_bytes(a));
    }
    c.env_clear();
    for (k, v) in &cmd.env {
        c.env(k, v);
    }
    for (k, v) in &cmd.env_bytes {
        c.env(k, std::ffi::OsStr::from_bytes(v));
    }
    c.current_dir(cwd);
    let pty_stdin = cmd.pty.as_ref().map(|p| p.stdin_is_tty).unwrap_or(false);
    let pty_stdout = cmd.pty.as_ref().map(|p| p.stdout_is_tty).unwrap_or(false);
    if !pty_stdin {
        match &cmd.stdin {
            StdinSpec::Null => {
                c.stdin(Stdio::null());
            }
            StdinSpec::Bytes(b) if cmd.stdin_socket_reset.is_some() => {
                use std::os::unix::io::FromRawFd;
                let mut fds = [0i32; 2];
                unsafe {
                    assert_eq!(libc::socketpair(libc::AF_UNIX, libc::SOCK_STREAM | libc::SOCK_CLOEXEC, 0, fds.as_mut_ptr()), 0);
                    let (ours, theirs) = (fds[0], fds[1]);
                    // one byte into OUR receive queue, never read: closing with unread input resets the connection
                    libc::write(theirs, b"?".as_ptr() as *const libc::c_void, 1);
                    let mut off = 0usize;
                    while off < b.len() {
                        let n = libc::write(ours, b[off..].as_ptr() as *const libc::c_void, b.len() - off);
                        if n <= 0 {
                            crate::report::machinery("socket stdin: could not queue the input (too large for the socket buffer)");
                        }
                        off += n as usize;
                    }
                    if cmd.stdin_socket_reset == Some(true) {
                        libc::close(ours);
                    } else {
                        let mut one = [0u8; 1];
                        libc::read(ours, one.as_mut_ptr() as *mut libc::c_void, 1);
                        libc::shutdown(ours, libc::SHUT_WR);
                        SOCK_TO_CLOSE.with(|w| w.set(ours));
                    }
                    c.stdin(Stdio::from_raw_fd(theirs));
                }
            }
            StdinSpec::Bytes(_) if cmd.stdin_nonblock => {
                use std::os::unix::io::FromRawFd;
                let mut fds = [0i32; 2];
                unsafe {
                    assert_eq!(libc::pipe2(fds.as_mut_ptr(), libc::O_CLOEXEC), 0);
                    let fl = libc::fcntl(fds[0], libc::F_GETFL);
                    libc::fcntl(fds[0], libc::F_SETFL, fl | libc::O_NONBLOCK);
                    c.stdin(Stdio::from_raw_fd(fds[0]));
                    NB_STDIN_WRITE_END.with(|w| w.set(fds[1]));
                }
            }
            StdinSpec::Bytes(_) => {
                c.stdin(Stdio::piped());
            }
        }
    }
    if let Some(pth) = &cmd.stdin_path {
        let mut fh = std::fs::File::open(cwd.join(pth)).expect("stdin path");
        if let Some(off) = cmd.stdin_offset {
            use std::io::Seek;
            fh.seek(std::io::SeekFrom::Start(off)).expect("seek stdin");
        }
        c.stdin(fh);
    }
    let mut nb_read_end: Option<std::fs::File> = None;
    if pty_stdout {
        // set below together with the pty
    } else if cmd.stdout_nonblock_slow.is_some() {
        use std::os::unix::io::FromRawFd;
        let mut fds = [0i32; 2];
        unsafe {
            assert_eq!(libc::pipe2(fds.as_mut_ptr(), libc::O_CLOEXEC), 0);
            let fl = libc::fcntl(fds[1], libc::F_GETFL);
            libc::fcntl(fds[1], libc::F_SETFL, fl | libc::O_NONBLOCK);
            c.stdout(Stdio::from_raw_fd(fds[1]));
            nb_read_end = Some(std::fs::File::from_raw_fd(fds[0]));
        }
    } else if cmd.stdout_closed_pipe {
        use std::os::unix::io::FromRawFd;
        let mut fds = [0i32; 2];
        unsafe {
            assert_eq!(libc::pipe2(fds.as_mut_ptr(), libc::O_CLOEXEC), 0);
            libc::close(fds[0]);
            c.stdout(Stdio::from_raw_fd(fds[1]));
        }
    } else {
        match &cmd.stdout_file {
            Some(f) => {
                let fh = std::fs::OpenOptions::new().write(true).create(true).truncate(true).open(cwd.join(f)).expect("stdout file");
                c.stdout(fh);
            }
            None => {
                c.stdout(Stdio::piped());
            }
        }
    }
    c.stderr(Stdio::piped());
    let mut pty_master: Option<std::fs::File> = None;
    if let Some(ps) = &cmd.pty {
        use std::os::unix::io::FromRawFd;
        use std::os::unix::process::CommandExt;
        let (mut m, mut sl) = (0i32, 0i32);
        // glibc opens the slave with O_NOCTTY, so kv (a session leader without a terminal) does not acquire it
        if unsafe { libc::openpty(&mut m, &mut sl, std::ptr::null_mut(), std::ptr::null(), std::ptr::null()) } != 0 {
            crate::report::machinery("openpty failed");
        }
        unsafe {
            libc::fcntl(m, libc::F_SETFD, libc::FD_CLOEXEC);
        }
        if ps.stdin_is_tty {
            c.stdin(unsafe { Stdio::from_raw_fd(libc::dup(sl)) });
        }
        if ps.stdout_is_tty {
            c.stdout(unsafe { Stdio::from_raw_fd(libc::dup(sl)) });
        }
        let controlling = ps.controlling;
        let slave = sl;
        unsafe {
            c.pre_exec(move || {
                if controlling {
                    libc::setsid();
                    libc::ioctl(slave, libc::TIOCSCTTY as _, 0);
                }
                libc::close(slave);
                Ok(())
            });
        }
        pty_master = Some(unsafe { std::fs::File::from_raw_fd(m) });
        // the parent's copy of the slave is closed after spawn (below)
        PTY_SLAVE_TO_CLOSE.with(|c| c.set(sl));
    }
    if let Some(lim) = cmd.fsize_limit {
        use std::os::unix::process::CommandExt;
        unsafe {
            c.pre_exec(move || {
                let rl = libc::rlimit { rlim_cur: lim, rlim_max: lim };
                libc::setrlimit(libc::RLIMIT_FSIZE, &rl);
                libc::signal(libc::SIGXFSZ, libc::SIG_IGN);
                Ok(())
            });
        }
    }
    // no pre_exec otherwise: kv itself runs in its own session without a controlling terminal (see detach_tty),
    // children inherit that, so /dev/tty can never be opened and std can use the fast posix_spawn path
    let t0 = Instant::now();
    let mut child = match c.spawn() {
        Ok(ch) => ch,
        Err(e) => crate::report::machinery(&format!("cannot spawn {}: {}", KESTREL, e)),
    };
    // release the parent's copies of the child's stdio descriptors (pty slave duplicates in particular:
    // the master only reports end-of-file once every slave descriptor is closed)
    drop(c);
    let mut pty_threads = vec![];
    let pty_out: std::sync::Arc<std::sync::Mutex<Vec<u8>>> = Default::default();
    if let Some(master) = pty_master {
        let typed = cmd.pty.as_ref().unwrap().typed.clone();
        let mut w = master.try_clone().expect("dup pty master");
        pty_threads.push(std::thread::spawn(move || {
            // type line by line with a short pause (the program switches echo off before each prompt)
            for line in typed.split_inclusive(|&b| b == b'\n') {
                std::thread::sleep(Duration::from_millis(25));
                if w.write_all(line).is_err() {
                    break;
                }
            }
        }));
        let po = pty_out.clone();
        let mut rd = master;
        pty_threads.push(std::thread::spawn(move || {
            let mut buf = [0u8; 4096];
            loop {
                match rd.read(&mut buf) {
                    Ok(0) | Err(_) => break, // EIO when the slave side is closed
                    Ok(n) => po.lock().unwrap().extend_from_slice(&buf[..n]),
                }
            }
        }));
    }
    // with `stderr_reader_leaves_after`, stdin bytes are held back until the stderr reader has left, so that the order
    // "progress text read, reader gone, input processed, final status printed" does not depend on timing
    let err_left = std::sync::Arc::new(std::sync::atomic::AtomicBool::new(cmd.stderr_reader_leaves_after.is_none()));
    let err_left_w = err_left.clone();
    let stdin_thread = if pty_stdin {
        None
    } else if cmd.stdin_socket_reset.is_some() {
        None
    } else if let StdinSpec::Bytes(b) = &cmd.stdin {
        let nbw = NB_STDIN_WRITE_END.with(|w| w.replace(-1));
        let mut si: std::fs::File = if nbw >= 0 {
            use std::os::unix::io::FromRawFd;
            unsafe { std::fs::File::from_raw_fd(nbw) }
        } else {
            use std::os::unix::io::{FromRawFd, IntoRawFd};
            unsafe { std::fs::File::from_raw_fd(child.stdin.take().unwrap().into_raw_fd()) }
        };
        let nonblock_pause = cmd.stdin_nonblock;
        let b = b.clone();
        let mut splits = cmd.stdin_splits.clone();
        splits.retain(|&x| x > 0 && x < b.len());
        splits.sort();
        splits.dedup();
        Some(std::thread::spawn(move || {
            use std::os::unix::io::AsRawFd;
            let t_gate = Instant::now();
            while !err_left_w.load(std::sync::atomic::Ordering::SeqCst) && t_gate.elapsed() < Duration::from_secs(15) {
                std::thread::sleep(Duration::from_millis(1));
            }
            let mut at = 0usize;
            for sp in splits {
                if si.write_all(&b[at..sp]).is_err() {
                    return;
                }
                at = sp;
                // wait until the child has drained the pipe (bounded), then a little longer so that its read() has returned
                let t = Instant::now();
                loop {
                    let mut pending: libc::c_int = 0;
                    let rc = unsafe { libc::ioctl(si.as_raw_fd(), libc::FIONREAD, &mut pending) };
                    if rc != 0 || pending == 0 || t.elapsed() > Duration::from_millis(2000) {
                        break;
                    }
                    std::thread::sleep(Duration::from_micros(200));
                }
                // with a non-blocking stdin the pause has to be long enough for the child to find the pipe empty
                std::thread::sleep(Duration::from_millis(if nonblock_pause { 150 } else { 3 }));
            }
            let _ = si.write_all(&b[at..]);
        }))
    } else {
        None
    };
    let mut so = child.stdout.take();
    let out_thread = if let (Some(mut rd), Some((stall_ms, piece, pause_us))) = (nb_read_end, cmd.stdout_nonblock_slow) {
        Some(std::thread::spawn(move || {
            std::thread::sleep(Duration::from_millis(stall_ms));
            let mut v = vec![];
            let mut buf = vec![0u8; piece.max(1)];
            loop {
                match rd.read(&mut buf) {
                    Ok(0) | Err(_) => break,
                    Ok(n) => v.extend_from_slice(&buf[..n]),
                }
                if pause_us > 0 {
                    std::thread::sleep(Duration::from_micros(pause_us));
                }
            }
            v
        }))
    } else if let (true, Some(k)) = (so.is_some(), cmd.stdout_reader_leaves_after) {
        let mut so = so.take().unwrap();
        Some(std::thread::spawn(move || {
            let mut v = vec![];
            let mut buf = [0u8; 4096];
            while v.len() < k {
                let want = (k - v.len()).min(buf.len());
                match so.read(&mut buf[..want]) {
                    Ok(0) | Err(_) => break,
                    Ok(n) => v.extend_from_slice(&buf[..n]),
                }
            }
            drop(so); // the reader is gone: further writes of the child get EPIPE
            v
        }))
    } else {
        so.map(|mut so| {
            std::thread::spawn(move || {
                let mut v = vec![];
                let _ = so.read_to_end(&mut v);
                v
            })
        })
    };
    let mut se = child.stderr.take().unwrap();
    let se_leave = cmd.stderr_reader_leaves_after;
    let err_thread = std::thread::spawn(move || {
        let mut v = vec![];
        match se_leave {
            None => {
                let _ = se.read_to_end(&mut v);
            }
            Some(k) => {
                let mut buf = [0u8; 256];
                while v.len() < k {
                    let want = (k - v.len()).min(buf.len());
                    match se.read(&mut buf[..want]) {
                        Ok(0) | Err(_) => break,
                        Ok(n) => v.extend_from_slice(&buf[..n]),
                    }
                }
                drop(se);
            }
        }
        err_left.store(true, std::sync::atomic::Ordering::SeqCst);
        v
    });
    let mut timed_out = false;
    let status = loop {
        match child.try_wait() {
            Ok(Some(st)) => break st,
            Ok(None) => {
                if t0.elapsed() > limit {
                    timed_out = true;
                    let _ = child.kill();
                    break child.wait().expect("wait");
                }
                std::thread::sleep(Duration::from_micros(300));
            }
            Err(e) => crate::report::machinery(&format!("wait failed: {}", e)),
        }
    };
    if let Some(t) = stdin_thread {
        let _ = t.join();
    }
    // the parent kept its copy of the slave open while the child ran (like the shell that owns a real
    // terminal: otherwise a child that does not use the tty as stdin/stdout would get SIGHUP); closing it now
    // lets the master reader see end-of-file
    let so_ours = SOCK_TO_CLOSE.with(|c| c.replace(-1));
    if so_ours >= 0 {
        unsafe {
            libc::close(so_ours);
        }
    }
    let sl = PTY_SLAVE_TO_CLOSE.with(|c| c.replace(-1));
    if sl >= 0 {
        unsafe {
            libc::close(sl);
        }
    }
    for t in pty_threads {
        let _ = t.join();
    }
    let tty_output = pty_out.lock().unwrap().clone();
    let stdout = out_thread.map(|t| t.join().unwrap_or_default()).unwrap_or_default();
    let stderr = String::from_utf8_lossy(&err_thread.join().unwrap_or_default()).to_string();
    Out { code: status.code(), signal: status.signal(), timed_out, stdout, stderr, wall_ms: t0.elapsed().as_millis(), tty_output }
}

/// Make `path` a named pipe and feed `data` into it from a thread (the open waits, bounded, until the reader opens it).
pub fn feed_fifo(path: PathBuf, data: Vec<u8>) -> Result<std::thread::JoinHandle<()>, String> {
    use std::os::unix::fs::OpenOptionsExt;
    let cpath = std::ffi::CString::new(path.to_str().unwrap()).unwrap();
    if unsafe { libc::mkfifo(cpath.as_ptr(), 0o600) } != 0 {
        return Err("MACHINERY: mkfifo failed".into());
    }
    Ok(std::thread::spawn(move || {
        let t0 = Instant::now();
        loop {
            match std::fs::OpenOptions::new().write(true).custom_flags(libc::O_NONBLOCK).open(&path) {
                Ok(mut f) => {
                    unsafe {
                        use std::os::unix::io::AsRawFd;
                        let fl = libc::fcntl(f.as_raw_fd(), libc::F_GETFL);
                        libc::fcntl(f.as_raw_fd(), libc::F_SETFL, fl & !libc::O_NONBLOCK);
                    }
                    let _ = f.write_all(&data);
                    break;
                }
                Err(_) => {
                    if t0.elapsed().as_secs() > 20 {
                        break;
                    }
                    std::thread::sleep(Duration::from_millis(2));
                }
            }
        }
    }))
}

/// Serialize one keyring entry in the documented format.
pub fn keyring_entry(name: &str, pk: &str, sk: Option<&str>) -> String {
    match sk {
        Some(sk) => format!("[Key]\nName = {}\nPublicKey = {}\nPrivateKey = {}\n", name, pk, sk),
        None => format!("[Key]\nName = {}\nPublicKey = {}\n", name, pk),
    }
}

/// Put this process into a new session without a controlling terminal (children inherit it), so that the
/// CLI's password prompt can never open /dev/tty. If we are a process-group leader, setsid() is refused:
/// fork once, let the child become the session leader and continue, the parent only relays the exit status.
pub fn detach_tty() {
    unsafe {
        if libc::setsid() == -1 {
            let pid = libc::fork();
            if pid < 0 {
                crate::report::machinery("fork failed");
            }
            if pid > 0 {
                let mut st: i32 = 0;
                loop {
                    let r = libc::waitpid(pid, &mut st, 0);
                    if r == pid || (r == -1 && *libc::__errno_location() != libc::EINTR) {
                        break;
                    }
                }
                let code = if libc::WIFEXITED(st) { libc::WEXITSTATUS(st) } else { 2 };
                libc::_exit(code);
            }
            libc::prctl(libc::PR_SET_PDEATHSIG, libc::SIGKILL);
            libc::setsid();
        }
        let fd = libc::open(b"/dev/tty\0".as_ptr() as *const libc::c_char, libc::O_RDWR);
        if fd >= 0 {
            libc::close(fd);
            crate::report::machinery("/dev/tty can still be opened: controlling terminal not detached");
        }
    }
}
