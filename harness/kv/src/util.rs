//! Seed-derived data alphabets and small helpers.
#![allow(dead_code)]

use crate::refspec as r;
use kestrel_crypto::{PrivateKey, PublicKey};
use std::panic::{catch_unwind, AssertUnwindSafe};

/// SHA-256(seed || label || counter) stream; only ever used to pick data VALUES, never cases.
pub fn derive(seed: u64, label: &str, len: usize) -> Vec<u8> {
    let mut out = Vec::with_capacity(len);
    let mut ctr = 0u32;
    while out.len() < len {
        let mut m = seed.to_le_bytes().to_vec();
        m.extend_from_slice(label.as_bytes());
        m.extend_from_slice(&ctr.to_le_bytes());
        out.extend_from_slice(&r::sha256(&m));
        ctr += 1;
    }
    out.truncate(len);
    out
}

pub fn derive32(seed: u64, label: &str) -> [u8; 32] {
    derive(seed, label, 32).try_into().unwrap()
}

/// formula-generated plaintext of length n (depends on seed, cheap)
pub fn plaintext(seed: u64, n: usize) -> Vec<u8> {
    let s = (seed as u8).wrapping_mul(31).wrapping_add(7);
    (0..n).map(|i| ((i as u32).wrapping_mul(2654435761) >> 13) as u8 ^ s ^ (i as u8)).collect()
}

#[derive(Clone)]
pub struct Ident {
    pub name: &'static str,
    pub sk: [u8; 32],
    pub pk: [u8; 32],
}

impl Ident {
    pub fn private(&self) -> PrivateKey {
        PrivateKey::try_from(&self.sk[..]).unwrap()
    }
    pub fn public(&self) -> PublicKey {
        PublicKey::try_from(&self.pk[..]).unwrap()
    }
}

/// Key alphabet K = {S, S', R, R'} (public keys computed by REF)
pub fn idents(seed: u64) -> Vec<Ident> {
    ["S", "S2", "R", "R2"]
        .iter()
        .map(|n| {
            let sk = derive32(seed, &format!("ident-{}", n));
            Ident { name: n, sk, pk: r::x25519_base(&sk) }
        })
        .collect()
}

pub fn pubkey(b: &[u8; 32]) -> PublicKey {
    PublicKey::try_from(&b[..]).unwrap()
}
pub fn privkey(b: &[u8; 32]) -> PrivateKey {
    PrivateKey::try_from(&b[..]).unwrap()
}

/// Password alphabet W of C02 / C15
pub fn passwords() -> Vec<(&'static str, Vec<u8>)> {
    let x65 = vec![b'x'; 65];
    vec![
        ("empty", vec![]),
        ("a", b"a".to_vec()),
        ("b", b"b".to_vec()),
        ("A", b"A".to_vec()),
        ("a-space", b"a ".to_vec()),
        ("e-acute-nfc", "\u{e9}".as_bytes().to_vec()),
        ("e-acute-nfd", "e\u{301}".as_bytes().to_vec()),
        ("x64", vec![b'x'; 64]),
        ("x65", x65.clone()),
        ("pw", b"pw".to_vec()),
        ("pw-nul", b"pw\0".to_vec()),
        ("sha256-of-x65", r::sha256(&x65).to_vec()),
        // long passwords that differ only in their last byte (a length cap or block-wise handling must not merge them)
        ("long1100-a", [vec![b'y'; 1099], vec![b'a']].concat()),
        ("long1100-b", [vec![b'y'; 1099], vec![b'b']].concat()),
        ("long5000-a", [vec![b'z'; 4999], vec![b'a']].concat()),
        ("long5000-b", [vec![b'z'; 4999], vec![b'b']].concat()),
        // longer than the 64-byte HMAC block and ending in NUL: HMAC hashes such keys first, so the trailing NUL matters
        ("p69", vec![b'p'; 69]),
        ("p69-nul", [vec![b'p'; 69], vec![0u8]].concat()),
    ]
}

/// Run f, catching panics; the panic message (if any) is returned as Err.
thread_local! {
    static GUARD_DEPTH: std::cell::Cell<u32> = const { std::cell::Cell::new(0) };
}

pub fn guarded<T>(f: impl FnOnce() -> T) -> Result<T, String> {
    GUARD_DEPTH.with(|d| d.set(d.get() + 1));
    let r = catch_unwind(AssertUnwindSafe(f));
    GUARD_DEPTH.with(|d| d.set(d.get() - 1));
    match r {
        Ok(v) => Ok(v),
        Err(e) => {
            let msg = if let Some(s) = e.downcast_ref::<&str>() {
                s.to_string()
            } else if let Some(s) = e.downcast_ref::<String>() {
                s.clone()
            } else {
                "non-string panic".to_string()
            };
            Err(msg)
        }
    }
}

/// Silence the default panic printer (panics are caught and reported as violations).
pub fn quiet_panics() {
    std::panic::set_hook(Box::new(|info| {
        // panics of the subject are caught by `guarded` and reported as violations; anything
        // else is a bug in the machinery and must be visible
        if GUARD_DEPTH.with(|d| d.get()) == 0 {
            eprintln!("MACHINERY-ERROR: harness panic: {}", info);
        }
    }));
}

pub fn hx(b: &[u8]) -> String {
    hex::encode(b)
}
pub fn unhx(s: &str) -> Vec<u8> {
    hex::decode(s).unwrap_or_default()
}

/// All compositions of n into positive parts each <= maxpart.
pub fn compositions(n: usize, maxpart: usize) -> Vec<Vec<usize>> {
    fn rec(rem: usize, maxpart: usize, cur: &mut Vec<usize>, out: &mut Vec<Vec<usize>>) {
        if rem == 0 {
            out.push(cur.clone());
            return;
        }
        for p in 1..=rem.min(maxpart) {
            cur.push(p);
            rec(rem - p, maxpart, cur, out);
            cur.pop();
        }
    }
    let mut out = vec![];
    rec(n, maxpart, &mut vec![], &mut out);
    out
}
